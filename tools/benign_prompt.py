#!/usr/bin/env python3
"""Writes /tmp/benign/<ID>/PROMPT.txt: brief for a sub-agent authoring property-PRESERVING behaviour changes (to test for false alarms)."""
import json, sys, os
props={json.loads(l)['id']:json.loads(l) for l in open('/verif/properties.jsonl')}
for i in sys.argv[1:]:
    p=props[i]; a=p['anchors']
    os.makedirs(f'/tmp/benign/{i}/OUT',exist_ok=True)
    txt=f"""You are working in a scratch git worktree of the Rust repository huggingface/xet-core at /tmp/benign/{i} (a Rust client for Hugging Face Xet storage: content-defined chunking, Merkle hashing, xorb and shard binary formats, dedup index, local chunk cache). Work ONLY inside /tmp/benign/{i}. Do NOT read or use anything under /verif, /root/agents, /tmp/mut, /tmp/seed or other /tmp/benign/* directories, and do not touch /repo. No network; build and test with `--offline`. Use the default cargo target directory /tmp/benign/{i}/target and DELETE it (rm -rf /tmp/benign/{i}/target) when you are completely done. Do NOT use `git stash` (it is shared between worktrees); use `git diff > file` / `git apply -R file`.

A semantic property of this code base that users rely on:

  [{i}] {p['title']}
  Statement: {p['statement']}
  Must hold: {p['quantifier']['text']}
  Where it lives: files {', '.join(a['files'])}.
  Observable at: {'; '.join(a.get('observe_at',[]))}.

YOUR TASK: author FOUR independent, small changes to the repository's source code (not its tests) that each CHANGE OBSERVABLE BEHAVIOUR of the code around this property but KEEP THE PROPERTY TRUE exactly as stated — the kind of legitimate change a maintainer might make: a different policy or tie-break (which victim is evicted, which of two equally valid locations is reported, how inputs are grouped or ordered), returning a miss or an error where either is allowed, doing more or less work (caching nothing, merging less, flushing earlier, compressing differently, choosing another equally valid encoding), changing a threshold or constant that the statement does not fix, reordering independent steps, tightening a check, replacing an algorithm by an equivalent one, `<` vs `<=` at an instant the statement leaves open. Each change must:
 * compile, and keep the repository's existing suite green:  cd /tmp/benign/{i} && cargo nextest run --workspace --no-fail-fast --offline 2>&1 | tail -5   (baseline: 181 passed, 6 skipped; if a test pins the old behaviour, pick a different change);
 * really change behaviour observable through the public API in SOME input/schedule (say which), not be a pure rename/no-op;
 * provably keep the property above true for every input, schedule, crash point and history it quantifies over — argue this in one paragraph per change. If you are not sure a change preserves the property, do not include it.
Also keep every *other* documented contract of the touched functions (do not break callers).

Deliverables in /tmp/benign/{i}/OUT/ : benign1.diff … benign4.diff (each a `git diff` of one change alone against the clean checkout; must apply with `git apply`), and notes.json: a list of {{"file": "benignK.diff", "what_changes": "...", "where_observable": "...", "why_property_still_holds": "...", "suite": "<summary line>"}}.
Leave the worktree's tracked files clean at the end (git checkout -- .) and remove /tmp/benign/{i}/target.
Final message: one line per change."""
    open(f'/tmp/benign/{i}/PROMPT.txt','w').write(txt)
    print(i,len(txt))

#!/bin/bash
# Run property-preserving ("benign") changes through the relevant checks; every run must stay quiet.
# usage: MUT_INSTANCE=<n> tools/benign_run.sh <out file> <ID>:<check,check,...> ...   (diffs in /tmp/benign/<ID>/OUT/)
OUT=$1; shift
for spec in "$@"; do
  ID=${spec%%:*}; CHECKS=${spec##*:}
  for d in /tmp/benign/$ID/OUT/benign*.diff; do
    for c in ${CHECKS//,/ }; do
      log=$(/verif/tools/mutcheck.sh $d $c quick 2>&1)
      if echo "$log" | grep -q "^VIOLATION\|BUILD FAILED\|MACHINERY\|patch does not apply"; then
        echo "ALARM   $ID/$(basename $d) $c :: $(echo "$log" | grep -m2 "signature\|BUILD\|MACHINERY\|patch does" | tr '\n' ' ' | cut -c1-400)" >> $OUT
      else
        echo "quiet   $ID/$(basename $d) $c :: $(echo "$log" | tail -1 | cut -c1-160)" >> $OUT
      fi
    done
  done
done
echo DONE >> $OUT

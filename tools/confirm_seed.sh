#!/bin/bash
# Confirm a seeded change myself: suite green with the patch, demo fails with it, passes without it.
# usage: tools/confirm_seed.sh <ID> <crate> <demo test file name (in OUT/demo)> [extra cargo test args]
set -u
ID=$1; CRATE=$2; DEMO=$3; shift 3
W=/tmp/seed/$ID
export CARGO_TARGET_DIR=/tmp/seed_target CARGO_NET_OFFLINE=true
cd $W || exit 2
git checkout -q -- . ; git apply OUT/patch.diff || { echo "PATCH DOES NOT APPLY"; exit 2; }
echo "== suite with patch"; cargo nextest run --workspace --no-fail-fast --offline 2>&1 | tail -2
mkdir -p $CRATE/tests; cp OUT/demo/$DEMO $CRATE/tests/$DEMO
T=${DEMO%.rs}
echo "== demo with patch (expect FAIL)"; cargo test -p $CRATE --test $T --offline "$@" 2>&1 | grep -E "^test result|^test .* (ok|FAILED)|panicked" | head -8
git apply -R OUT/patch.diff
echo "== demo without patch (expect PASS)"; cargo test -p $CRATE --test $T --offline "$@" 2>&1 | grep -E "^test result|^test .* (ok|FAILED)" | head -8
rm -f $CRATE/tests/$DEMO; git checkout -q -- .; git status --short | grep -v OUT | head -3

#!/usr/bin/env python3
"""Copy a confirmed seeded change into /verif/seeded/<dir>/ and record what I ran.
usage: store_seed.py <seed dir under /tmp/seed> <dest name> <property> <caught_by csv> <confirm log> [patch override]"""
import json, os, shutil, subprocess, sys
src, dest, prop, caught, log = sys.argv[1:6]
override = sys.argv[6] if len(sys.argv) > 6 else None
S=f'/tmp/seed/{src}/OUT'; D=f'/verif/seeded/{dest}'
os.makedirs(D, exist_ok=True)
shutil.copy(override or f'{S}/patch.diff', f'{D}/patch.diff')
if override: shutil.copy(f'{S}/patch.diff', f'{D}/patch.as_authored.diff')
if os.path.isdir(f'{D}/demo'): shutil.rmtree(f'{D}/demo')
shutil.copytree(f'{S}/demo', f'{D}/demo')
meta=json.load(open(f'{S}/meta.json')) if os.path.exists(f'{S}/meta.json') else {}
lines=[l.rstrip() for l in open(log)] if os.path.exists(log) else []
keep=[l for l in lines if l.startswith('==') or 'Summary' in l or l.startswith('test result') or 'FAILED' in l or l.endswith('... ok')]
head=subprocess.run(['git','-C','/repo','rev-parse','--short','HEAD'],capture_output=True,text=True).stdout.strip()
meta.update({"property":prop,"breaks":prop,"authored_by":"independent sub-agent given only the property text and a scratch worktree",
 "applies_to_repo_commit":head,"caught_by":caught.split(','),
 "confirmed_by_me":{"how":"tools/confirm_seed.sh (suite with patch; demo with patch; demo without patch) in a scratch worktree, then tools/mutcheck.sh <patch> <check> quick on a patched scratch copy","log":keep[:20]}})
json.dump(meta,open(f'{D}/meta.json','w'),indent=1)
print('stored',D)

#!/bin/bash
# Run a check against a *patched scratch copy* of /repo (never touches /repo or /verif/evidence).
# usage: tools/mutcheck.sh <patch.diff|-> <ID> [quick|thorough]      ("-" = unpatched copy)
set -u
PATCH="$1"; ID="$2"; TIER="${3:-quick}"
M=/tmp/mut${MUT_INSTANCE:-}; W=$M/repo; H=$M/harness
mkdir -p $M/out
if [ ! -d $W/.git ] && [ ! -f $W/.git ]; then git -C /repo worktree add --detach $W HEAD >/dev/null 2>&1 || exit 2; fi
git -C $W reset -q --hard && git -C $W checkout -q --detach "$(git -C /repo rev-parse HEAD)" && git -C $W reset -q --hard && git -C $W clean -qfd -e target
if [ "$PATCH" != "-" ]; then git -C $W apply "$PATCH" || { echo "patch does not apply"; exit 2; }; fi
rsync -a --delete --exclude target /verif/harness/ $H/
sed -i "s#\"/repo/#\"$W/#g" $H/vcore/Cargo.toml $H/labs/Cargo.toml
cp /verif/KNOWN_FINDINGS.txt $M/out/
. /verif/labmap.sh
LAB=$(lab_of "$ID")
cd $H && cargo build --offline --bin "$LAB" 2>$M/build.log || { tail -30 $M/build.log; echo "BUILD FAILED"; exit 2; }
DEEP=""; case "$ID" in C08|C09|C10|C19) [ "$TIER" = quick ] && DEEP="--deep" ;; esac
VERIF_ROOT=$M/out "target/debug/$LAB" --prop "$ID" --tier "$TIER" $DEEP

#!/usr/bin/env python3
"""Writes /tmp/hunt/<ID>/PROMPT.txt: the brief for an independent reviewer sub-agent that looks for GENUINE violations of a
property in the code as it is (property text only, nothing from /verif)."""
import json, sys
import os, glob
ids=sys.argv[1:]
ROUND2=os.environ.get('ROUND2','')
props={json.loads(l)['id']:json.loads(l) for l in open('/verif/properties.jsonl')}
for i in ids:
    p=props[i]; a=p['anchors']
    known=''
    if ROUND2:
        try:
            L=json.load(open(f'/verif/hunts/{i}/findings.json'))
            for extra in sorted(glob.glob(f'/verif/hunts/{i}/round*/findings.json')):
                try: L+=json.load(open(extra))
                except Exception: pass
            known='\n\nALREADY KNOWN — an earlier review of this property reported the following; the ones that were judged genuine have since been repaired in this checkout. Do NOT report any of these again (nor the same mechanism in another guise); look at OTHER mechanisms, other code paths of the listed files, other boundary values and other interleavings:\n' + '\n'.join('  - '+x.get('title','')[:200] for x in L)
        except Exception: pass
    txt=f"""You are working in a scratch git worktree of the Rust repository huggingface/xet-core at /tmp/hunt/{i} (a Rust client for Hugging Face Xet storage: content-defined chunking, Merkle hashing, xorb and shard binary formats, dedup index, local chunk cache). Work ONLY inside /tmp/hunt/{i}. Do NOT read or use anything under /verif, /root/agents, /tmp/mut*, /tmp/seed or other /tmp/hunt/* directories, and do not touch /repo. The sandbox has no network; build and test with `--offline`. Use your own cargo target directory (the default /tmp/hunt/{i}/target) and DELETE it (rm -rf /tmp/hunt/{i}/target) when you are completely done. Do NOT use `git stash` (it is shared between worktrees).

A semantic property of this code base that users rely on:

  [{i}] {p['title']}
  Statement: {p['statement']}
  Must hold: {p['quantifier']['text']}
  Where it lives: files {', '.join(a['files'])}; mechanisms: {'; '.join(m['name']+' ('+m['where']+')' for m in a.get('mechanism',[]))}.
  Observable at: {'; '.join(a.get('observe_at',[]))}.

YOUR TASK: review the code AS IT IS and look for a GENUINE violation of this property: a concrete input, sequence of operations, configuration of size limits, interleaving or injected failure for which the current code does not do what the statement says. Do not change the source code. Be adversarial and specific: read the mechanisms listed above line by line, think about boundary values (exactly at / one past each limit, zero, empty, maximum), repeated or colliding values (repeated chunks, equal hashes, 64-bit prefix collisions), state left over from an earlier step (after a cut / flush / eviction / re-open / error), counters updated on one path and not on another, two steps that can interleave, errors that are dropped, and code paths the existing tests never reach. Many constants are overridable through HF_XET_<NAME> environment variables in debug builds (see utils/src/constant_declarations.rs), which lets small inputs reach the limit logic. Debug assertions count: a debug assertion that fires on a legitimate input is a defect too.

For every candidate you find, PROVE it: write a new integration test file (e.g. /tmp/hunt/{i}/<crate>/tests/hunt_demo.rs) or a small example program that runs against the unmodified source and FAILS (wrong value, panic, lost error, ...) exactly because of the defect, deterministic if at all possible. A suspicion you could not reproduce is still worth one paragraph, clearly marked as unconfirmed. Only report things that violate THIS property as stated (not style issues, not other properties). Stay inside the property's quantifier: do not report misconfigurations that no feasible setting satisfies (e.g. a xorb byte limit below one chunk, a chunk target above the wire-format maximum), forged or adversarial on-disk names, hash collisions that need breaking BLAKE3, servers that violate the protocol, caller cancellation, or I/O errors, unless the property's text explicitly includes them.{known}

Deliverables in /tmp/hunt/{i}/OUT/ :
   findings.json — a list; for each finding {{"title": "...", "confirmed": true/false, "where": "file:line", "what_fails": "<the concrete input / sequence / schedule>", "observed": "...", "expected": "...", "why_it_violates_the_property": "...", "suggested_minimal_fix": "...", "demo": "<file name under OUT/demo or null>", "command": "<exact command to run the demo>"}}; an empty list if you found nothing
   demo/ — the demonstration file(s)
   notes.txt — what you examined and ruled out (short)
Leave the worktree's tracked files clean (git status shows only untracked OUT/ and PROMPT.txt), remove your demo copies from the crates' tests/ directories, and remove /tmp/hunt/{i}/target.

Your final message: the findings (or that you found none), each in 3-6 lines, with the demo command."""
    open(f'/tmp/hunt/{i}/PROMPT.txt','w').write(txt)
    print(i,len(txt))

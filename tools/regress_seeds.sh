#!/bin/bash
# For every stored seeded change: apply to a scratch copy, run the checks listed in meta.json "caught_by",
# and report whether each still raises a VIOLATION.  Output: /verif/seeded/REGRESSION.txt
set -u
OUT=${REGRESS_OUT:-/verif/seeded/REGRESSION.txt}
FILTER=${1:-*}   # optional glob over the directory names
echo "# seeded change x check -> detected?   (repo $(git -C /repo rev-parse --short HEAD), verif $(git -C /verif rev-parse --short HEAD), $(date -u +%FT%TZ))" > $OUT
for d in /verif/seeded/$FILTER/; do
  n=$(basename $d)
  [ -f $d/patch.diff ] || continue
  for c in $(python3 -c "import json;print(' '.join(json.load(open('$d/meta.json'))['caught_by']))"); do
    r=$(/verif/tools/mutcheck.sh $d/patch.diff $c quick 2>&1)
    if echo "$r" | grep -q "^VIOLATION property="; then v=DETECTED; sig=$(echo "$r" | grep -m1 "^  signature=" | sed 's/ ::.*//; s/^ *//'); else v="MISSED"; sig=$(echo "$r" | tail -1 | cut -c1-120); fi
    echo "$v  $n  $c  $sig" | tee -a $OUT
  done
done

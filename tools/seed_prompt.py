#!/usr/bin/env python3
"""Writes /tmp/seed/<ID>/PROMPT.txt: the brief for an independent mutation-authoring sub-agent (property text only, nothing from /verif)."""
import json, sys
import os
ids=sys.argv[1:]
AVOID=os.environ.get('AVOID','')
DEST=os.environ.get('DEST','')
props={json.loads(l)['id']:json.loads(l) for l in open('/verif/properties.jsonl')}
for i0 in ids:
    p=props[i0]
    i=DEST or i0
    a=p['anchors']
    txt=f"""You are working in a scratch git worktree of the Rust repository huggingface/xet-core at /tmp/seed/{i} (a Rust client for Hugging Face Xet storage: content-defined chunking, Merkle hashing, xorb and shard binary formats, dedup index, local chunk cache). Work ONLY inside /tmp/seed/{i}. Do NOT read or use anything under /verif, /root/agents, /tmp/mut or other /tmp/seed/* directories, and do not touch /repo. The sandbox has no network; build and test with `--offline`. Use your own cargo target directory (the default /tmp/seed/{i}/target) and DELETE it (rm -rf /tmp/seed/{i}/target) when you are completely done.

A semantic property of this code base that users rely on:

  [{i0}] {p['title']}
  Statement: {p['statement']}
  Must hold: {p['quantifier']['text']}
  Where it lives: files {', '.join(a['files'])}; mechanisms: {'; '.join(m['name']+' ('+m['where']+')' for m in a.get('mechanism',[]))}.
  Observable at: {'; '.join(a.get('observe_at',[]))}.

YOUR TASK: author ONE realistic change to the repository's source code (not its tests) that BREAKS this property while the code still compiles and the repository's existing test suite still passes, plus a demonstration that fails with your change and passes without it.

Requirements for the change:
 * Realistic: the kind of defect a competent maintainer could introduce in a refactor, optimisation or "simplification" — shared mutable state or cursor/offset logic, an ordering of two steps, a boundary condition, a cache/bookkeeping update, an error that gets dropped, a check moved outside a lock, two sites that each look fine alone. Not sabotage that is obvious at a glance (no `if input == magic`), and not a change guarded by cfg/features.
 * It must need something SPECIFIC to manifest: a particular interleaving, a crash or fault at a particular point, a multi-step sequence of operations, an unusual input (e.g. repeated chunks, sizes at a limit, a prefix collision), a particular configuration of size limits (many constants are overridable through HF_XET_<NAME> environment variables in debug builds, see utils/src/constant_declarations.rs), or two cooperating sites. Ordinary use (what the existing tests do) must NOT expose it — the existing suite has to stay green.
 * It must genuinely violate the property as stated above (not merely some other property), observable through the public/“observable at” API listed above. Debug assertions in the repository count as part of the code: if your change makes a debug assertion fire in ordinary test runs the suite will fail, so check.
 * Keep it small (a few lines to a few dozen lines), in the files listed above if possible.{(chr(10)+" * A different defect of this property has already been authored; do NOT repeat it, find a different mechanism: "+AVOID) if AVOID else ""}

Procedure:
 1. Read the relevant code. Pick the change. Write it.
 2. Run the existing suite with the change applied and confirm it is still green:   cd /tmp/seed/{i} && cargo nextest run --workspace --no-fail-fast --offline 2>&1 | tail -5     (baseline: 181 tests pass, 6 skipped; it takes about 1–2 minutes the first time). If any test fails, your change is not acceptable — adjust it.
 3. Write a demonstration: a new integration test file or a small example program INSIDE the worktree (e.g. /tmp/seed/{i}/<crate>/tests/seed_demo.rs — a new file, not part of the patch) that deterministically FAILS with your change and PASSES without it (use `git diff > /tmp/seed/<ID>/my.patch; git apply -R my.patch` and `git apply my.patch` to check both ways — do NOT use `git stash`: the stash is shared between all worktrees of this repository and other agents use it concurrently). For schedule-dependent defects make the demonstration deterministic if you can (barriers, a controlled order of operations, or many iterations with an explanation) and say how reliable it is.
 4. Produce the deliverables in /tmp/seed/{i}/OUT/ :
      patch.diff   — `git diff` of the SOURCE change only (must apply with `git apply` to a clean checkout of this commit; do not include the demonstration or Cargo.lock noise)
      demo/        — the demonstration file(s) with a README.txt: where to put them and the exact command to run them
      meta.json    — {{"property": "{i0}", "summary": "<one paragraph: what the change does and why it breaks the property>", "needs_to_manifest": "<the specific interleaving / input / sequence / configuration>", "suite_result_with_patch": "<summary line of the nextest run>", "demo_with_patch": "<fails how>", "demo_without_patch": "<passes>", "commands": ["..."]}}
 5. Leave the worktree's tracked files CLEAN at the end (git checkout -- . ; the OUT directory and your demo copy under OUT/demo are untracked and stay), and remove /tmp/seed/{i}/target.

Your final message: a short summary of the change, what it needs to manifest, and the verification results."""
    open(f'/tmp/seed/{i}/PROMPT.txt','w').write(txt)
    print(i, len(txt))

#!/bin/bash
# Re-run archived property-preserving diffs (that still apply to /repo HEAD) against the current checks.
# usage: MUT_INSTANCE=<n> tools/benign_rerun.sh <out file> <check,check,..>:<diff> ...
OUT=$1; shift
for spec in "$@"; do
  CHECKS=${spec%%:*}; d=${spec#*:}
  for c in ${CHECKS//,/ }; do
    log=$(/verif/tools/mutcheck.sh /verif/$d $c quick 2>&1)
    if echo "$log" | grep -q "^VIOLATION\|BUILD FAILED\|MACHINERY\|patch does not apply"; then
      echo "ALARM   $d $c :: $(echo "$log" | grep -m2 "signature\|BUILD\|MACHINERY\|patch does" | tr '\n' ' ' | cut -c1-400)" >> $OUT
    else
      echo "quiet   $d $c :: $(echo "$log" | tail -1 | cut -c1-160)" >> $OUT
    fi
  done
done
echo DONE >> $OUT

# sourced by ./check and tools/mutcheck.sh: property id -> lab binary
lab_of() {
  case "$1" in
    C01|C02|C03|C11|C14|C15) echo lab_session ;;
    C16|C14x|C01x|C03x|C15x) echo lab_inject ;;
    C11c) echo lab_shardmgr ;;
    C04) echo lab_chunker ;;
    C06) echo lab_hash ;;
    C07|C08) echo lab_xorb ;;
    C05|C18) echo lab_shard_dedup ;;
    C09|C10) echo lab_shard_store ;;
    C12|C13) echo lab_cache ;;
    C17) echo lab_reconstruct ;;
    C19) echo lab_crash ;;
    C20) echo lab_singleflight ;;
    *) echo "" ;;
  esac
}

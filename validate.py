#!/usr/bin/env python3-vt
"""Validate MANIFEST.json and evidence/*.json against the schemas."""
import json, sys, glob, jsonschema
ok = True
def v(path, schema):
    global ok
    try:
        jsonschema.validate(json.load(open(path)), json.load(open(schema)))
        print("ok   ", path)
    except Exception as e:
        ok = False
        print("FAIL ", path, str(e).splitlines()[0])
v('/verif/MANIFEST.json', '/root/.vp/MANIFEST.schema.json')
for p in sorted(glob.glob('/verif/evidence/*.json')):
    v(p, '/root/.vp/EVIDENCE.schema.json')
sys.exit(0 if ok else 1)

use deduplication::constants::{MAXIMUM_CHUNK_MULTIPLIER, MINIMUM_CHUNK_DIVISOR};
use deduplication::Chunker;
use rand::rngs::StdRng;
use rand::{Rng, SeedableRng};

fn reference(data: &[u8], target: usize) -> Vec<usize> {
    let min = target / *MINIMUM_CHUNK_DIVISOR;
    let max = target * *MAXIMUM_CHUNK_MULTIPLIER;
    let mask = ((target - 1) as u64) << ((target - 1) as u64).leading_zeros();
    let mut cuts = vec![];
    let mut start = 0;
    while start < data.len() {
        let skip = if min > 64 { min - 65 } else { 0 };
        let mut h = 0u64;
        let mut p = start + skip;
        let mut cut = data.len();
        while p < data.len() {
            h = (h << 1).wrapping_add(gearhash::DEFAULT_TABLE[data[p] as usize]);
            let len = p + 1 - start;
            if h & mask == 0 || len >= max {
                cut = p + 1;
                break;
            }
            p += 1;
        }
        // forced max could be reached inside skip when max< skip: not possible
        cuts.push(cut - start);
        start = cut;
    }
    cuts
}

fn gen(rng: &mut StdRng, kind: u32, len: usize) -> Vec<u8> {
    let mut d = vec![0u8; len];
    match kind % 6 {
        0 => rng.fill(&mut d[..]),
        1 => {
            let b: u8 = rng.random();
            d.fill(b)
        },
        2 => {
            let p = rng.random_range(1..300usize);
            let pat: Vec<u8> = (0..p).map(|_| rng.random()).collect();
            for i in 0..len {
                d[i] = pat[i % p];
            }
        },
        3 => {
            for x in d.iter_mut() {
                *x = rng.random_range(0..2u8);
            }
        },
        4 => {
            // repeated block
            let p = rng.random_range(1000..5000usize);
            let pat: Vec<u8> = (0..p).map(|_| rng.random()).collect();
            for i in 0..len {
                d[i] = pat[i % p];
            }
        },
        _ => {
            rng.fill(&mut d[..]);
            let s = rng.random_range(0..len.max(1));
            let e = (s + rng.random_range(0..20000usize)).min(len);
            d[s..e].fill(0);
        },
    }
    d
}

#[test]
fn fuzz_against_reference() {
    let mut rng = StdRng::seed_from_u64(12345);
    eprintln!("div {} mult {}", *MINIMUM_CHUNK_DIVISOR, *MAXIMUM_CHUNK_MULTIPLIER);
    for iter in 0..3000u32 {
        let tlog = rng.random_range(7..=15u32);
        let target = 1usize << tlog;
        let max = target * *MAXIMUM_CHUNK_MULTIPLIER;
        let len = rng.random_range(0..(max * 6 + 3000));
        let data = gen(&mut rng, iter, len);
        let refc = reference(&data, target);
        // one-shot
        let one: Vec<usize> = Chunker::new(target).next_block(&data, true).iter().map(|c| c.data.len()).collect();
        assert_eq!(one, refc, "oneshot iter {iter} target {target} len {len}");
        // partitioned with next_block
        let mut ch = Chunker::new(target);
        let mut got = vec![];
        let mut cat = vec![];
        let mut pos = 0;
        let mode = rng.random_range(0..4u32);
        while pos < data.len() {
            let step = match mode {
                0 => rng.random_range(0..3usize),
                1 => rng.random_range(0..2000usize),
                2 => rng.random_range(0..(2 * max)),
                _ => 1,
            };
            let e = (pos + step).min(data.len());
            let fin = e == data.len() && rng.random_bool(0.5);
            for c in ch.next_block(&data[pos..e], fin) {
                got.push(c.data.len());
                cat.extend_from_slice(&c.data);
            }
            pos = e;
        }
        if rng.random_bool(0.5) {
            for c in ch.next_block(&[], true) {
                got.push(c.data.len());
                cat.extend_from_slice(&c.data);
            }
            assert!(ch.finish().is_none());
        } else if let Some(c) = ch.finish() {
            got.push(c.data.len());
            cat.extend_from_slice(&c.data);
        }
        assert_eq!(cat, data, "concat iter {iter}");
        assert_eq!(got, refc, "split iter {iter} target {target} len {len} mode {mode}");
        // direct next() use
        let mut ch = Chunker::new(target);
        let mut got = vec![];
        let mut pos = 0;
        while pos < data.len() {
            let step = rng.random_range(0..(max + 10));
            let e = (pos + step).min(data.len());
            let (c, n) = ch.next(&data[pos..e], false);
            if let Some(c) = c {
                got.push(c.data.len());
            }
            pos += n;
        }
        if let (Some(c), _) = ch.next(&[], true) {
            got.push(c.data.len());
        }
        assert_eq!(got, refc, "next iter {iter}");
        let min = target / *MINIMUM_CHUNK_DIVISOR;
        for (i, l) in refc.iter().enumerate() {
            assert!(*l <= max);
            if i + 1 < refc.len() {
                assert!(*l + 64 >= min);
            }
        }
    }
}

// Differential check of deduplication::Chunker against a plain scalar reference of the gear rule.
use deduplication::constants::{MAXIMUM_CHUNK_MULTIPLIER, MINIMUM_CHUNK_DIVISOR};
use deduplication::Chunker;

struct Rng(u64);
impl Rng {
    fn next(&mut self) -> u64 {
        self.0 ^= self.0 << 13;
        self.0 ^= self.0 >> 7;
        self.0 ^= self.0 << 17;
        self.0
    }
    fn below(&mut self, n: usize) -> usize {
        (self.next() % (n as u64)) as usize
    }
}

fn reference(data: &[u8], target: usize) -> Vec<usize> {
    let minimum = target / *MINIMUM_CHUNK_DIVISOR;
    let maximum = target * *MAXIMUM_CHUNK_MULTIPLIER;
    let m = (target - 1) as u64;
    let mask = m << m.leading_zeros();
    let table = &gearhash::DEFAULT_TABLE;
    let mut lens = vec![];
    let mut start = 0usize;
    while start < data.len() {
        let rest = &data[start..];
        let skip = if minimum > 65 { minimum - 65 } else { 0 };
        let mut h = 0u64;
        let mut cut = None;
        let mut i = skip;
        while i < rest.len() {
            h = (h << 1).wrapping_add(table[rest[i] as usize]);
            let len = i + 1;
            if h & mask == 0 || len >= maximum {
                cut = Some(len);
                break;
            }
            i += 1;
        }
        // skip may already exceed maximum? (not when maximum > minimum)
        let len = cut.unwrap_or(rest.len());
        lens.push(len);
        start += len;
    }
    lens
}

fn gen_data(kind: usize, len: usize, rng: &mut Rng) -> Vec<u8> {
    match kind {
        0 => (0..len).map(|_| rng.next() as u8).collect(),
        1 => {
            let b = rng.next() as u8;
            vec![b; len]
        },
        2 => {
            let p = 1 + rng.below(300);
            let pat: Vec<u8> = (0..p).map(|_| rng.next() as u8).collect();
            (0..len).map(|i| pat[i % p]).collect()
        },
        3 => {
            // low entropy: two symbols
            let a = rng.next() as u8;
            let b = rng.next() as u8;
            (0..len).map(|_| if rng.next() & 1 == 0 { a } else { b }).collect()
        },
        4 => {
            // long constant runs with random glue
            let mut v = Vec::with_capacity(len);
            while v.len() < len {
                let b = rng.next() as u8;
                let run = 1 + rng.below(2000);
                for _ in 0..run {
                    if v.len() < len {
                        v.push(b);
                    }
                }
            }
            v
        },
        _ => {
            // repeated block of random content
            let p = 1 + rng.below(5000);
            let pat: Vec<u8> = (0..p).map(|_| rng.next() as u8).collect();
            (0..len).map(|i| pat[i % p]).collect()
        },
    }
}

fn check(lens: &[usize], chunks: &[deduplication::Chunk], data: &[u8], target: usize, what: &str) {
    let got: Vec<usize> = chunks.iter().map(|c| c.data.len()).collect();
    let cat: Vec<u8> = chunks.iter().flat_map(|c| c.data.iter().copied()).collect();
    assert!(cat == data, "{what}: concatenation differs (target {target})");
    assert_eq!(&got, lens, "{what}: boundaries differ (target {target}, len {})", data.len());
    let minimum = target / *MINIMUM_CHUNK_DIVISOR;
    let maximum = target * *MAXIMUM_CHUNK_MULTIPLIER;
    for (i, l) in got.iter().enumerate() {
        assert!(*l <= maximum && *l > 0);
        if i + 1 != got.len() {
            assert!(*l + 64 >= minimum, "{what}: chunk {i} of len {l} below min {minimum}-64");
        }
    }
    for c in chunks {
        assert_eq!(c.hash, merklehash::compute_data_hash(&c.data));
    }
}

fn run_partitions(data: &[u8], target: usize, rng: &mut Rng) {
    let lens = reference(data, target);

    // all at once
    let chunks = Chunker::new(target).next_block(data, true);
    check(&lens, &chunks, data, target, "at-once next_block");

    // all at once non final + finish
    let mut c = Chunker::new(target);
    let mut chunks = c.next_block(data, false);
    chunks.extend(c.finish());
    check(&lens, &chunks, data, target, "next_block+finish");

    // one byte calls through next()
    if data.len() <= 40_000 {
        let mut c = Chunker::new(target);
        let mut chunks = vec![];
        for i in 0..data.len() {
            let (ch, n) = c.next(&data[i..i + 1], false);
            assert_eq!(n, 1);
            chunks.extend(ch);
            let (ch, n) = c.next(&[], false);
            assert_eq!(n, 0);
            assert!(ch.is_none());
        }
        chunks.extend(c.finish());
        check(&lens, &chunks, data, target, "one-byte next");
    }

    // random partitions with next_block, including empty calls
    for maxpiece in [3usize, 70, 300, 1100, 5000, 100_000] {
        let mut c = Chunker::new(target);
        let mut chunks = vec![];
        let mut pos = 0;
        while pos < data.len() {
            let n = rng.below(maxpiece + 1).min(data.len() - pos);
            let fin = pos + n == data.len();
            chunks.extend(c.next_block(&data[pos..pos + n], fin));
            pos += n;
        }
        if data.is_empty() {
            chunks.extend(c.next_block(&[], true));
        }
        check(&lens, &chunks, data, target, "random next_block");
    }

    // random partitions driving next() by hand with is_final on the last piece
    for maxpiece in [2usize, 129, 2049, 70_000] {
        let mut c = Chunker::new(target);
        let mut chunks = vec![];
        let mut pos = 0;
        while pos < data.len() {
            let n = rng.below(maxpiece + 1).min(data.len() - pos);
            let fin = pos + n == data.len();
            let mut piece = &data[pos..pos + n];
            loop {
                let (ch, used) = c.next(piece, fin);
                let none = ch.is_none();
                chunks.extend(ch);
                piece = &piece[used..];
                if piece.is_empty() {
                    break;
                }
                assert!(!none);
            }
            pos += n;
        }
        chunks.extend(c.finish());
        check(&lens, &chunks, data, target, "random next");
    }

    // the same chunker reused for a second stream behaves as a fresh one
    let mut c = Chunker::new(target);
    let _ = c.next_block(&data[..data.len() / 3], true);
    let chunks = c.next_block(data, true);
    check(&lens, &chunks, data, target, "reused chunker");
}

#[test]
fn differential() {
    let mut rng = Rng(0x9E3779B97F4A7C15);
    eprintln!("divisor {} multiplier {}", *MINIMUM_CHUNK_DIVISOR, *MAXIMUM_CHUNK_MULTIPLIER);
    let targets: Vec<usize> = std::env::var("HUNT_TARGETS")
        .ok()
        .map(|s| s.split(',').map(|x| x.parse().unwrap()).collect())
        .unwrap_or(vec![128, 256, 512, 1024, 2048, 4096, 8192, 65536]);
    let rounds: usize = std::env::var("HUNT_ROUNDS").ok().map(|s| s.parse().unwrap()).unwrap_or(6);
    for &target in &targets {
        for kind in 0..6 {
            for _ in 0..rounds {
                let maximum = target * *MAXIMUM_CHUNK_MULTIPLIER;
                let len = match rng.below(4) {
                    0 => rng.below(200),
                    1 => maximum * 3 + rng.below(3) - 1,
                    2 => rng.below(maximum * 6 + 1),
                    _ => rng.below(maximum * 20 + 1),
                };
                let len = len.min(600_000);
                let data = gen_data(kind, len, &mut rng);
                run_partitions(&data, target, &mut rng);
            }
        }
        // every constant byte value
        for b in 0..=255u8 {
            let maximum = target * *MAXIMUM_CHUNK_MULTIPLIER;
            let data = vec![b; (maximum * 2 + 77).min(300_000)];
            let lens = reference(&data, target);
            let chunks = Chunker::new(target).next_block(&data, true);
            check(&lens, &chunks, &data, target, "constant");
            let mut c = Chunker::new(target);
            let mut chunks = vec![];
            for piece in data.chunks(1 + (b as usize) * 7) {
                chunks.extend(c.next_block(piece, false));
            }
            chunks.extend(c.finish());
            check(&lens, &chunks, &data, target, "constant split");
        }
        eprintln!("target {target} ok");
    }
}

// Demo for property C04: "Chunks concatenate to exactly the input ... however the stream is split
// across calls ... all call partitions including empty and one-byte calls".
//
// Chunker::next(&[], true) flushes the buffered tail, as its documentation says
// ("If is_final is true ... any data currently present and at the end will be put into a final chunk").
// Chunker::next_block(&[], true) returns early on `pos == data.len()` *before* ever calling next(),
// so the is_final flag is silently ignored and the buffered tail is not emitted.

use deduplication::Chunker;

fn stream(len: usize) -> Vec<u8> {
    // deterministic pseudo-random bytes (xorshift), no external crates needed
    let mut s: u64 = 0x9E37_79B9_7F4A_7C15;
    (0..len)
        .map(|_| {
            s ^= s << 13;
            s ^= s >> 7;
            s ^= s << 17;
            (s >> 24) as u8
        })
        .collect()
}

/// Feed `data` in the given pieces through next_block, marking the last call final.
fn chunk_with_next_block(pieces: &[&[u8]]) -> Vec<u8> {
    let mut chunker = Chunker::new(1024);
    let mut out = Vec::new();
    for (i, p) in pieces.iter().enumerate() {
        let is_final = i + 1 == pieces.len();
        for c in chunker.next_block(p, is_final) {
            out.extend_from_slice(&c.data);
        }
    }
    out
}

/// Same partition, but through next().
fn chunk_with_next(pieces: &[&[u8]]) -> Vec<u8> {
    let mut chunker = Chunker::new(1024);
    let mut out = Vec::new();
    for (i, p) in pieces.iter().enumerate() {
        let is_final = i + 1 == pieces.len();
        let mut pos = 0;
        loop {
            let (c, n) = chunker.next(&p[pos..], is_final);
            if let Some(c) = c {
                out.extend_from_slice(&c.data);
            }
            pos += n;
            if pos == p.len() {
                break;
            }
        }
    }
    out
}

#[test]
fn control_final_call_nonempty() {
    let data = stream(10_000);
    let (a, b) = data.split_at(9_999);
    assert!(chunk_with_next_block(&[a, b]) == data);
    assert!(chunk_with_next(&[a, b]) == data);
}

#[test]
fn control_next_with_empty_final_call_flushes() {
    // The typical read loop: read() returns 0 bytes at EOF, and that last (empty) call is the final one.
    let data = stream(10_000);
    let out = chunk_with_next(&[&data, &[]]);
    assert!(out == data, "next(): got {} of {} bytes", out.len(), data.len());
}

#[test]
fn next_block_with_empty_final_call_loses_tail() {
    let data = stream(10_000);
    let out = chunk_with_next_block(&[&data, &[]]);
    assert!(
        out == data,
        "next_block(&[], is_final = true) ignored is_final: chunks concatenate to {} bytes, input has {} bytes",
        out.len(),
        data.len()
    );
}

#[test]
fn next_block_small_stream_then_empty_final_yields_nothing() {
    // A 100-byte stream (below the minimum chunk) followed by the final empty call: no chunk at all.
    let data = stream(100);
    let mut chunker = Chunker::new(1024);
    let mut chunks = chunker.next_block(&data, false);
    chunks.extend(chunker.next_block(&[], true));
    assert_eq!(chunks.len(), 1, "expected the 100 buffered bytes to be emitted as the final chunk");
}

// Differential fuzz: Chunker vs. a naive scalar reference, over stream kinds, partitions and targets.
use deduplication::constants::{MAXIMUM_CHUNK_MULTIPLIER, MINIMUM_CHUNK_DIVISOR};
use deduplication::Chunker;
use rand::rngs::StdRng;
use rand::{Rng, SeedableRng};

fn reference(data: &[u8], target: usize) -> Vec<usize> {
    let min = target / *MINIMUM_CHUNK_DIVISOR;
    let max = target * *MAXIMUM_CHUNK_MULTIPLIER;
    let mask = ((target - 1) as u64) << ((target - 1) as u64).leading_zeros();
    let skip = if min > 64 { min - 65 } else { 0 };
    let mut out = vec![];
    let mut start = 0;
    while start < data.len() {
        let mut h: u64 = 0;
        let mut len = skip.min(data.len() - start);
        let mut cut = false;
        while start + len < data.len() {
            let b = data[start + len];
            h = (h << 1).wrapping_add(gearhash::DEFAULT_TABLE[b as usize]);
            len += 1;
            if h & mask == 0 || len >= max {
                cut = true;
                break;
            }
        }
        let _ = cut;
        out.push(len);
        start += len;
    }
    out
}

fn gen_stream(rng: &mut StdRng, kind: u32, len: usize) -> Vec<u8> {
    let mut d = vec![0u8; len];
    match kind {
        0 => rng.fill(&mut d[..]),
        1 => {
            let b: u8 = rng.random();
            d.fill(b)
        },
        2 => {
            let p = rng.random_range(1..200usize);
            let mut pat = vec![0u8; p];
            rng.fill(&mut pat[..]);
            for i in 0..len {
                d[i] = pat[i % p];
            }
        },
        3 => {
            // low entropy: two symbols
            let a: u8 = rng.random();
            let b: u8 = rng.random();
            for x in d.iter_mut() {
                *x = if rng.random_bool(0.9) { a } else { b };
            }
        },
        _ => {
            // repeated random block
            let p = rng.random_range(1000..5000usize);
            let mut pat = vec![0u8; p];
            rng.fill(&mut pat[..]);
            for i in 0..len {
                d[i] = pat[i % p];
            }
        },
    }
    d
}

fn run_partitioned(rng: &mut StdRng, data: &[u8], target: usize, mode: u32) -> Vec<usize> {
    let mut c = Chunker::new(target);
    let mut out = vec![];
    let mut cat = vec![];
    let mut pos = 0;
    while pos < data.len() {
        let step = match mode {
            0 => data.len(),
            1 => 1,
            2 => rng.random_range(0..4usize),
            3 => rng.random_range(0..3000usize),
            _ => rng.random_range(0..(4 * target)),
        };
        let end = (pos + step).min(data.len());
        if mode % 2 == 0 {
            for ch in c.next_block(&data[pos..end], false) {
                out.push(ch.data.len());
                cat.extend_from_slice(&ch.data);
            }
        } else {
            let mut p = pos;
            loop {
                let (ch, n) = c.next(&data[p..end], false);
                if let Some(ch) = ch {
                    out.push(ch.data.len());
                    cat.extend_from_slice(&ch.data);
                }
                p += n;
                if p == end {
                    break;
                }
            }
        }
        pos = end;
    }
    if let Some(ch) = c.finish() {
        out.push(ch.data.len());
        cat.extend_from_slice(&ch.data);
    }
    assert!(cat == data, "concat mismatch");
    out
}

#[test]
fn differential() {
    let mut rng = StdRng::seed_from_u64(12345);
    let iters: usize = std::env::var("HUNT_ITERS").ok().and_then(|s| s.parse().ok()).unwrap_or(300);
    for it in 0..iters {
        let tp = rng.random_range(7..15u32);
        let target = 1usize << tp;
        let kind = rng.random_range(0..5u32);
        let len = rng.random_range(0..(target * 12));
        let data = gen_stream(&mut rng, kind, len);
        let r = reference(&data, target);
        let min = target / *MINIMUM_CHUNK_DIVISOR;
        let max = target * *MAXIMUM_CHUNK_MULTIPLIER;
        for (i, l) in r.iter().enumerate() {
            assert!(*l <= max);
            if i + 1 != r.len() {
                assert!(*l + 64 >= min);
            }
        }
        for mode in 0..5 {
            let got = run_partitioned(&mut rng, &data, target, mode);
            assert_eq!(got, r, "iter {it} target {target} kind {kind} len {len} mode {mode}");
        }
    }
}

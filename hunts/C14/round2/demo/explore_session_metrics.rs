// Exploration harness: session-level metric conservation with small limits, fragmentation and concurrency.
use std::path::Path;

use data::configurations::TranslatorConfig;
use data::FileUploadSession;
use deduplication::constants::{MAX_XORB_BYTES, MAX_XORB_CHUNKS, TARGET_CHUNK_SIZE};
use deduplication::{Chunker, DeduplicationMetrics};
use rand::rngs::StdRng;
use rand::{Rng, RngCore, SeedableRng};
use std::sync::Arc;
use tempfile::TempDir;
use tokio::task::JoinSet;
use utils::test_set_globals;
use xet_threadpool::ThreadPool;

test_set_globals! {
    TARGET_CHUNK_SIZE = 1024;
    MAX_XORB_BYTES = 16 * 1024;
    MAX_XORB_CHUNKS = 12;
}

fn dir_size(p: &Path) -> (usize, usize) {
    let mut n = 0;
    let mut cnt = 0;
    if let Ok(rd) = std::fs::read_dir(p) {
        for e in rd {
            let e = e.unwrap();
            let md = e.metadata().unwrap();
            if md.is_file() {
                n += md.len() as usize;
                cnt += 1;
            } else if md.is_dir() {
                let (a, b) = dir_size(&e.path());
                n += a;
                cnt += b;
            }
        }
    }
    (n, cnt)
}

fn rand_bytes(rng: &mut StdRng, n: usize) -> Vec<u8> {
    let mut v = vec![0u8; n];
    rng.fill_bytes(&mut v);
    v
}

fn chunks_of(data: &[u8]) -> Vec<Vec<u8>> {
    Chunker::default().next_block(data, true).into_iter().map(|c| c.data.to_vec()).collect()
}

async fn run_session(
    cas: &Path,
    files: Vec<Vec<u8>>,
    block: usize,
    concurrent: bool,
    exact: bool,
    tag: &str,
) -> (DeduplicationMetrics, Vec<DeduplicationMetrics>) {
    let xorb_dir = cas.join("xet/xorbs/xorbs");
    let shard_dir = cas.join("xet/xorbs/shards");
    let (xb0, _) = dir_size(&xorb_dir);
    let (sb0, sc0) = dir_size(&shard_dir);

    let config = TranslatorConfig::local_config(cas).unwrap();
    let session = FileUploadSession::new(config, ThreadPool::from_current_runtime(), None).await.unwrap();

    let mut per_file = Vec::new();
    if concurrent {
        let mut js = JoinSet::new();
        for (i, f) in files.into_iter().enumerate() {
            let session = session.clone();
            js.spawn(async move {
                let mut cl = session.start_clean(format!("f{i}"));
                for b in f.chunks(block.max(1)) {
                    cl.add_data(b).await.unwrap();
                    tokio::task::yield_now().await;
                }
                let (pf, m) = cl.finish().await.unwrap();
                (pf.filesize() as usize, f.len(), m)
            });
        }
        while let Some(r) = js.join_next().await {
            per_file.push(r.unwrap());
        }
    } else {
        for (i, f) in files.into_iter().enumerate() {
            let mut cl = session.start_clean(format!("f{i}"));
            for b in f.chunks(block.max(1)) {
                cl.add_data(b).await.unwrap();
            }
            let (pf, m) = cl.finish().await.unwrap();
            per_file.push((pf.filesize() as usize, f.len(), m));
        }
    }

    let sm = session.finalize().await.unwrap();

    let mut sum = DeduplicationMetrics::default();
    for (psize, flen, m) in per_file.iter() {
        assert_eq!(psize, flen, "{tag}: pointer size");
        assert_eq!(m.total_bytes, *flen, "{tag}: total_bytes");
        assert_eq!(m.new_bytes + m.deduped_bytes, m.total_bytes, "{tag}: bytes");
        assert_eq!(m.new_chunks + m.deduped_chunks, m.total_chunks, "{tag}: chunks");
        assert!(m.defrag_prevented_dedup_bytes <= m.new_bytes, "{tag}");
        assert!(m.defrag_prevented_dedup_chunks <= m.new_chunks, "{tag}");
        sum.merge_in(m);
    }
    assert_eq!(sm.total_bytes, sum.total_bytes, "{tag}: session total_bytes");
    assert_eq!(sm.new_bytes, sum.new_bytes, "{tag}: session new_bytes");
    assert_eq!(sm.deduped_bytes, sum.deduped_bytes, "{tag}: session deduped_bytes");
    assert_eq!(sm.total_chunks, sum.total_chunks, "{tag}");
    assert_eq!(sm.new_chunks, sum.new_chunks, "{tag}");
    assert_eq!(sm.deduped_chunks, sum.deduped_chunks, "{tag}");
    assert_eq!(sm.defrag_prevented_dedup_bytes, sum.defrag_prevented_dedup_bytes, "{tag}");
    assert_eq!(sm.defrag_prevented_dedup_chunks, sum.defrag_prevented_dedup_chunks, "{tag}");
    assert_eq!(sm.deduped_bytes_by_global_dedup, sum.deduped_bytes_by_global_dedup, "{tag}");

    let (xb1, _) = dir_size(&xorb_dir);
    let (sb1, sc1) = dir_size(&shard_dir);
    eprintln!(
        "{tag}: session {sm:?}\n   xorb dir +{} shard dir +{} (+{} files)",
        xb1 - xb0,
        sb1 as isize - sb0 as isize,
        sc1 as isize - sc0 as isize
    );
    if exact {
        assert_eq!(sm.xorb_bytes_uploaded, xb1 - xb0, "{tag}: xorb bytes vs store");
    } else {
        assert!(sm.xorb_bytes_uploaded >= xb1 - xb0, "{tag}: xorb bytes vs store");
    }
    assert_eq!(sm.shard_bytes_uploaded as isize, sb1 as isize - sb0 as isize, "{tag}: shard bytes vs store");
    assert_eq!(sm.total_bytes_uploaded, sm.xorb_bytes_uploaded + sm.shard_bytes_uploaded);

    (sm, per_file.into_iter().map(|x| x.2).collect())
}

async fn scenario(seed: u64, concurrent: bool) {
    let mut rng = StdRng::seed_from_u64(seed);
    let tmp = TempDir::new().unwrap();
    let cas = tmp.path().join("cas");

    let n0 = rng.gen_range(20_000..120_000);
    let base = rand_bytes(&mut rng, n0);
    let base_chunks = chunks_of(&base);

    run_session(&cas, vec![base.clone()], 7000, false, true, &format!("seed {seed} s1")).await;

    // Fragmented: alternate one base chunk (in shuffled order) and a new chunk
    let mut frag = Vec::new();
    let mut frag2 = Vec::new();
    for (i, c) in base_chunks.iter().enumerate() {
        let j = (i * 7 + 3) % base_chunks.len();
        frag.extend_from_slice(&base_chunks[j]);
        let nb = rand_bytes(&mut rng, 1500);
        frag.extend_from_slice(&nb);
        frag2.extend_from_slice(c);
        if i % 3 == 0 {
            frag2.extend_from_slice(&rand_bytes(&mut rng, 700));
        }
    }
    let n1 = rng.gen_range(0..60_000);
    let newf = rand_bytes(&mut rng, n1);
    let small = rand_bytes(&mut rng, 100);
    let dups = seed % 2 == 0;
    let files = if dups {
        vec![frag.clone(), base.clone(), newf.clone(), frag.clone(), vec![], frag2, small.clone(), small, newf]
    } else {
        vec![frag.clone(), base.clone(), newf.clone(), vec![], frag2, small.clone()]
    };
    let block = rng.gen_range(1..20_000);
    run_session(&cas, files, block, concurrent, !(dups && concurrent), &format!("seed {seed} s2 conc={concurrent}")).await;
}

#[tokio::test(flavor = "multi_thread", worker_threads = 4)]
async fn session_metrics_sequential() {
    let n: u64 = std::env::var("HUNT_N").ok().and_then(|s| s.parse().ok()).unwrap_or(5);
    for seed in 0..n {
        scenario(seed, false).await;
    }
}

#[tokio::test(flavor = "multi_thread", worker_threads = 4)]
async fn session_metrics_concurrent() {
    let n: u64 = std::env::var("HUNT_N").ok().and_then(|s| s.parse().ok()).unwrap_or(5);
    for seed in 0..n {
        scenario(seed, true).await;
    }
}


#[cfg(feature = "verif")]
#[tokio::test(flavor = "multi_thread", worker_threads = 4)]
async fn session_metrics_global_dedup() {
    use cas_client::LocalClient;
    let n: u64 = std::env::var("HUNT_N").ok().and_then(|s| s.parse().ok()).unwrap_or(5);
    for seed in 0..n {
        let mut rng = StdRng::seed_from_u64(seed);
        let tmp = TempDir::new().unwrap();
        let cas = tmp.path().join("cas");
        let cas2 = tmp.path().join("cas2");
        let n0 = rng.gen_range(20_000..120_000);
        let base = rand_bytes(&mut rng, n0);
        let base_chunks = chunks_of(&base);
        run_session(&cas, vec![base.clone()], 7000, false, true, &format!("seed {seed} s1")).await;

        let mut frag = Vec::new();
        for i in 0..base_chunks.len() {
            let j = (i * 7 + 3) % base_chunks.len();
            frag.extend_from_slice(&base_chunks[j]);
            if i % 2 == 0 { frag.extend_from_slice(&base_chunks[(j + 1) % base_chunks.len()]); }
            frag.extend_from_slice(&rand_bytes(&mut rng, 1500));
        }

        let config2 = TranslatorConfig::local_config(&cas2).unwrap();
        let client = Arc::new(LocalClient::new(cas.join("xet/xorbs"), Some(cas2.join("xet/shard-cache"))).unwrap());
        let session = FileUploadSession::new_with_client(config2, ThreadPool::from_current_runtime(), None, client, false)
            .await
            .unwrap();
        let mut sum = DeduplicationMetrics::default();
        for (i, f) in [frag.clone(), base.clone(), frag].into_iter().enumerate() {
            let mut cl = session.start_clean(format!("f{i}"));
            for b in f.chunks(5000) {
                cl.add_data(b).await.unwrap();
            }
            let (pf, m) = cl.finish().await.unwrap();
            eprintln!("seed {seed} file {i}: {m:?}");
            assert_eq!(pf.filesize() as usize, f.len());
            assert_eq!(m.total_bytes, f.len());
            assert_eq!(m.new_bytes + m.deduped_bytes, m.total_bytes);
            assert_eq!(m.new_chunks + m.deduped_chunks, m.total_chunks);
            assert!(m.defrag_prevented_dedup_bytes <= m.new_bytes);
            sum.merge_in(&m);
        }
        let sm = session.finalize().await.unwrap();
        assert_eq!(sm.total_bytes, sum.total_bytes);
        assert_eq!(sm.new_bytes, sum.new_bytes);
        assert_eq!(sm.deduped_bytes, sum.deduped_bytes);
        eprintln!("seed {seed} session: {sm:?}");
    }
}

#[cfg(feature = "verif")]
mod delayed {
    use std::collections::HashMap;
    use std::path::PathBuf;
    use std::sync::atomic::{AtomicUsize, Ordering};
    use std::sync::Arc;

    use async_trait::async_trait;
    use cas_client::{
        CasClientError, Client, LocalClient, OutputProvider, ReconstructionClient, ShardClientInterface, UploadClient,
        VerifRegistrationClient, VerifShardDedupProber,
    };
    use cas_types::FileRange;
    use mdb_shard::file_structs::MDBFileInfo;
    use mdb_shard::shard_file_reconstructor::FileReconstructor;
    use merklehash::MerkleHash;
    use utils::progress::ProgressUpdater;

    pub struct Delayed {
        pub inner: LocalClient,
        pub xorb_bytes: AtomicUsize,
        pub shard_bytes: AtomicUsize,
        pub n_put: AtomicUsize,
        pub mode: usize,
    }

    #[async_trait]
    impl UploadClient for Delayed {
        async fn put(
            &self,
            prefix: &str,
            hash: &MerkleHash,
            data: Vec<u8>,
            cb: Vec<(MerkleHash, u32)>,
        ) -> Result<usize, CasClientError> {
            let k = self.n_put.fetch_add(1, Ordering::SeqCst);
            // completion order: mode 0 -> first registered finishes last; mode 1 -> alternating; mode 2 -> long delay all
            let ms = match self.mode {
                0 => 200u64.saturating_sub(20 * k as u64),
                1 => if k % 2 == 0 { 150 } else { 0 },
                _ => 100,
            };
            tokio::time::sleep(std::time::Duration::from_millis(ms)).await;
            let n = self.inner.put(prefix, hash, data, cb).await?;
            self.xorb_bytes.fetch_add(n, Ordering::SeqCst);
            Ok(n)
        }
        async fn exists(&self, prefix: &str, hash: &MerkleHash) -> Result<bool, CasClientError> {
            self.inner.exists(prefix, hash).await
        }
    }
    #[async_trait]
    impl ReconstructionClient for Delayed {
        async fn get_file(
            &self,
            hash: &MerkleHash,
            byte_range: Option<FileRange>,
            output_provider: &OutputProvider,
            progress_updater: Option<Arc<dyn ProgressUpdater>>,
        ) -> Result<u64, CasClientError> {
            self.inner.get_file(hash, byte_range, output_provider, progress_updater).await
        }
        async fn batch_get_file(&self, files: HashMap<MerkleHash, &OutputProvider>) -> Result<u64, CasClientError> {
            self.inner.batch_get_file(files).await
        }
    }
    #[async_trait]
    impl VerifRegistrationClient for Delayed {
        async fn upload_shard(
            &self,
            prefix: &str,
            hash: &MerkleHash,
            force_sync: bool,
            shard_data: &[u8],
            salt: &[u8; 32],
        ) -> Result<bool, CasClientError> {
            self.shard_bytes.fetch_add(shard_data.len(), Ordering::SeqCst);
            self.inner.upload_shard(prefix, hash, force_sync, shard_data, salt).await
        }
    }
    #[async_trait]
    impl FileReconstructor<CasClientError> for Delayed {
        async fn get_file_reconstruction_info(
            &self,
            file_hash: &MerkleHash,
        ) -> Result<Option<(MDBFileInfo, Option<MerkleHash>)>, CasClientError> {
            self.inner.get_file_reconstruction_info(file_hash).await
        }
    }
    #[async_trait]
    impl VerifShardDedupProber for Delayed {
        async fn query_for_global_dedup_shard(
            &self,
            prefix: &str,
            chunk_hash: &MerkleHash,
            salt: &[u8; 32],
        ) -> Result<Option<PathBuf>, CasClientError> {
            self.inner.query_for_global_dedup_shard(prefix, chunk_hash, salt).await
        }
    }
    impl ShardClientInterface for Delayed {}
    impl Client for Delayed {}
}

#[cfg(feature = "verif")]
#[tokio::test(flavor = "multi_thread", worker_threads = 4)]
async fn session_metrics_delayed_uploads() {
    use std::sync::atomic::{AtomicUsize, Ordering};

    use cas_client::LocalClient;
    for mode in 0..3usize {
        for conc in [false, true] {
            let mut rng = StdRng::seed_from_u64(mode as u64);
            let tmp = TempDir::new().unwrap();
            let cas = tmp.path().join("cas");
            let config = TranslatorConfig::local_config(&cas).unwrap();
            let client = Arc::new(delayed::Delayed {
                inner: LocalClient::new(cas.join("xet/xorbs"), Some(cas.join("xet/shard-cache"))).unwrap(),
                xorb_bytes: AtomicUsize::new(0),
                shard_bytes: AtomicUsize::new(0),
                n_put: AtomicUsize::new(0),
                mode,
            });
            let session =
                FileUploadSession::new_with_client(config, ThreadPool::from_current_runtime(), None, client.clone(), false)
                    .await
                    .unwrap();
            let files: Vec<Vec<u8>> = (0..4).map(|i| rand_bytes(&mut rng, 30_000 + 7000 * i)).collect();
            let mut sum = DeduplicationMetrics::default();
            if conc {
                let mut js = JoinSet::new();
                for (i, f) in files.into_iter().enumerate() {
                    let session = session.clone();
                    js.spawn(async move {
                        let mut cl = session.start_clean(format!("f{i}"));
                        cl.add_data(&f).await.unwrap();
                        cl.finish().await.unwrap().1
                    });
                }
                while let Some(r) = js.join_next().await {
                    sum.merge_in(&r.unwrap());
                }
            } else {
                for (i, f) in files.into_iter().enumerate() {
                    let mut cl = session.start_clean(format!("f{i}"));
                    cl.add_data(&f).await.unwrap();
                    sum.merge_in(&cl.finish().await.unwrap().1);
                }
            }
            let sm = session.finalize().await.unwrap();
            eprintln!("mode {mode} conc {conc}: puts {} {sm:?}", client.n_put.load(Ordering::SeqCst));
            assert_eq!(sm.xorb_bytes_uploaded, client.xorb_bytes.load(Ordering::SeqCst), "xorb bytes");
            assert_eq!(sm.shard_bytes_uploaded, client.shard_bytes.load(Ordering::SeqCst), "shard bytes");
            assert_eq!(sm.total_bytes_uploaded, sm.xorb_bytes_uploaded + sm.shard_bytes_uploaded);
            assert_eq!(sm.total_bytes, sum.total_bytes);
            assert_eq!(sm.new_bytes, sum.new_bytes);
        }
    }
}

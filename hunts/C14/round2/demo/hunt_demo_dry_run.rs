// C14 probe: in a dry-run session nothing is handed to the shard store, yet finalize() reports
// shard_bytes_uploaded > 0 (and includes it in total_bytes_uploaded).
use std::path::Path;

use data::configurations::TranslatorConfig;
use data::FileUploadSession;
use tempfile::TempDir;
use xet_threadpool::ThreadPool;

fn dir_size(p: &Path) -> usize {
    let mut n = 0;
    if let Ok(rd) = std::fs::read_dir(p) {
        for e in rd {
            let e = e.unwrap();
            let md = e.metadata().unwrap();
            if md.is_file() {
                n += md.len() as usize;
            } else if md.is_dir() {
                n += dir_size(&e.path());
            }
        }
    }
    n
}

#[tokio::test(flavor = "multi_thread", worker_threads = 2)]
async fn dry_run_reports_shard_bytes_that_were_never_handed_to_the_store() {
    let tmp = TempDir::new().unwrap();
    let cas = tmp.path().join("cas");
    let config = TranslatorConfig::local_config(&cas).unwrap();
    let session = FileUploadSession::dry_run(config, ThreadPool::from_current_runtime(), None).await.unwrap();

    let data: Vec<u8> = (0..200_000u32).map(|i| (i.wrapping_mul(2654435761) >> 13) as u8).collect();
    let mut cl = session.start_clean("f".to_owned());
    cl.add_data(&data).await.unwrap();
    let (pf, m) = cl.finish().await.unwrap();
    assert_eq!(pf.filesize() as usize, data.len());
    assert_eq!(m.total_bytes, data.len());

    let sm = session.finalize().await.unwrap();

    let shards_in_store = dir_size(&cas.join("xet/xorbs/shards"));
    let xorbs_in_store = dir_size(&cas.join("xet/xorbs/xorbs"));
    eprintln!("session metrics: {sm:?}");
    eprintln!("bytes in the store's shard dir: {shards_in_store}; xorb dir: {xorbs_in_store}");

    assert_eq!(sm.xorb_bytes_uploaded, xorbs_in_store, "xorb bytes reported vs handed to the store");
    assert_eq!(
        sm.shard_bytes_uploaded, shards_in_store,
        "shard bytes reported as uploaded vs bytes actually handed to the store"
    );
}

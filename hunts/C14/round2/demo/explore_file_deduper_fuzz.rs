// Exploration harness (not a demo): random fragmented dedup patterns against FileDeduper with a mock
// data interface backed by a real in-memory shard.
use std::collections::HashMap;
use std::future::Future;
use std::pin::pin;
use std::sync::{Arc, Mutex};
use std::task::{Context, Poll, Wake, Waker};

use async_trait::async_trait;
use deduplication::{Chunk, DeduplicationDataInterface, DeduplicationMetrics, FileDeduper, RawXorbData};
use mdb_shard::file_structs::FileDataSequenceEntry;
use mdb_shard::shard_in_memory::MDBInMemoryShard;
use merklehash::{compute_data_hash, MerkleHash};
use rand::rngs::StdRng;
use rand::{Rng, SeedableRng};

struct NoopWake;
impl Wake for NoopWake {
    fn wake(self: Arc<Self>) {}
}
fn block_on<F: Future>(f: F) -> F::Output {
    let waker = Waker::from(Arc::new(NoopWake));
    let mut cx = Context::from_waker(&waker);
    let mut f = pin!(f);
    loop {
        if let Poll::Ready(v) = f.as_mut().poll(&mut cx) {
            return v;
        }
    }
}

#[derive(Default)]
struct Shared {
    shard: MDBInMemoryShard,
    // xorb hash -> chunk list
    xorbs: HashMap<MerkleHash, Vec<Chunk>>,
    pending_arrivals: Vec<Vec<Chunk>>,
    registered_bytes: usize,
    n_queries: usize,
}

struct Mock {
    s: Arc<Mutex<Shared>>,
}

fn add_xorb(s: &mut Shared, chunks: &[Chunk]) {
    let x = RawXorbData::from_chunks(chunks);
    s.xorbs.insert(x.hash(), chunks.to_vec());
    s.shard.add_cas_block(x.cas_info.clone()).unwrap();
}

#[async_trait]
impl DeduplicationDataInterface for Mock {
    type ErrorType = String;
    async fn chunk_hash_dedup_query(
        &self,
        query_hashes: &[MerkleHash],
    ) -> Result<Option<(usize, FileDataSequenceEntry)>, String> {
        Ok(self.s.lock().unwrap().shard.chunk_hash_dedup_query(query_hashes))
    }
    async fn register_global_dedup_query(&mut self, _h: MerkleHash) -> Result<(), String> {
        self.s.lock().unwrap().n_queries += 1;
        Ok(())
    }
    async fn complete_global_dedup_queries(&mut self) -> Result<bool, String> {
        let mut s = self.s.lock().unwrap();
        if s.pending_arrivals.is_empty() {
            return Ok(false);
        }
        let arr = std::mem::take(&mut s.pending_arrivals);
        for a in arr {
            add_xorb(&mut s, &a);
        }
        Ok(true)
    }
    async fn register_new_xorb(&mut self, xorb: RawXorbData) -> Result<(), String> {
        let mut s = self.s.lock().unwrap();
        s.registered_bytes += xorb.num_bytes();
        let chunks: Vec<Chunk> = xorb
            .cas_info
            .chunks
            .iter()
            .zip(xorb.data.iter())
            .map(|(c, d)| Chunk {
                hash: c.chunk_hash,
                data: d.clone(),
            })
            .collect();
        s.xorbs.insert(xorb.hash(), chunks);
        s.shard.add_cas_block(xorb.cas_info.clone()).unwrap();
        Ok(())
    }
}

fn mk_chunk(rng: &mut StdRng) -> Chunk {
    let n = rng.random_range(1..40usize);
    let mut d = vec![0u8; n];
    rng.fill(&mut d[..]);
    Chunk {
        hash: compute_data_hash(&d),
        data: d.into(),
    }
}

fn check_block(m: &DeduplicationMetrics, fed_bytes: usize, fed_chunks: usize, ctx: &str) {
    assert_eq!(m.total_bytes, fed_bytes, "{ctx}: total_bytes");
    assert_eq!(m.total_chunks, fed_chunks, "{ctx}: total_chunks");
    assert_eq!(m.new_bytes + m.deduped_bytes, m.total_bytes, "{ctx}: bytes conservation");
    assert_eq!(m.new_chunks + m.deduped_chunks, m.total_chunks, "{ctx}: chunk conservation");
    assert!(m.defrag_prevented_dedup_bytes <= m.new_bytes, "{ctx}: withheld bytes");
    assert!(m.defrag_prevented_dedup_chunks <= m.new_chunks, "{ctx}: withheld chunks");
}

static STAT_DEFRAG: std::sync::atomic::AtomicUsize = std::sync::atomic::AtomicUsize::new(0);
static STAT_GLOBAL: std::sync::atomic::AtomicUsize = std::sync::atomic::AtomicUsize::new(0);
static STAT_DEDUP: std::sync::atomic::AtomicUsize = std::sync::atomic::AtomicUsize::new(0);
static STAT_XORBS: std::sync::atomic::AtomicUsize = std::sync::atomic::AtomicUsize::new(0);
fn run_one(seed: u64) {
    let mut rng = StdRng::seed_from_u64(seed);
    let shared = Arc::new(Mutex::new(Shared::default()));

    // Known xorbs.
    let mut known: Vec<Vec<Chunk>> = Vec::new();
    for _ in 0..rng.random_range(1..6) {
        let n = rng.random_range(1..7);
        let mut v: Vec<Chunk> = (0..n).map(|_| mk_chunk(&mut rng)).collect();
        // sometimes repeat a chunk inside the xorb
        if n > 2 && rng.random_bool(0.3) {
            let c = v[0].clone();
            let p = rng.random_range(1..n);
            v[p] = c;
        }
        add_xorb(&mut shared.lock().unwrap(), &v);
        known.push(v);
    }
    // xorbs that arrive later through global dedup
    let mut later: Vec<Vec<Chunk>> = Vec::new();
    for _ in 0..rng.random_range(0..3) {
        let n = rng.random_range(1..7);
        later.push((0..n).map(|_| mk_chunk(&mut rng)).collect());
    }

    let mut deduper = FileDeduper::new(Mock { s: shared.clone() });

    let mut file_chunks: Vec<Chunk> = Vec::new();
    let mut cum = DeduplicationMetrics::default();
    let n_blocks = rng.random_range(1..12);
    for b in 0..n_blocks {
        let mut block: Vec<Chunk> = Vec::new();
        let n_items = rng.random_range(0..25);
        for _ in 0..n_items {
            match rng.random_range(0..10) {
                0..=3 => {
                    // short run out of a known xorb
                    let x = &known[rng.random_range(0..known.len())];
                    let s = rng.random_range(0..x.len());
                    let l = rng.random_range(1..=3.min(x.len() - s));
                    block.extend_from_slice(&x[s..s + l]);
                },
                4 => {
                    // long run out of a known xorb
                    let x = &known[rng.random_range(0..known.len())];
                    let s = rng.random_range(0..x.len());
                    block.extend_from_slice(&x[s..]);
                },
                5..=6 => block.push(mk_chunk(&mut rng)),
                7 => {
                    // repeat of an earlier part of this file
                    let all: Vec<Chunk> = file_chunks.iter().chain(block.iter()).cloned().collect();
                    if !all.is_empty() {
                        let s = rng.random_range(0..all.len());
                        let l = rng.random_range(1..=4.min(all.len() - s));
                        block.extend_from_slice(&all[s..s + l]);
                    }
                },
                8 => {
                    if !later.is_empty() {
                        let x = &later[rng.random_range(0..later.len())];
                        let s = rng.random_range(0..x.len());
                        let l = rng.random_range(1..=3.min(x.len() - s));
                        block.extend_from_slice(&x[s..s + l]);
                    }
                },
                _ => {
                    let c = mk_chunk(&mut rng);
                    let k = rng.random_range(1..4);
                    for _ in 0..k {
                        block.push(c.clone());
                    }
                },
            }
        }
        if rng.random_bool(0.2) && !later.is_empty() {
            let a = later[rng.random_range(0..later.len())].clone();
            shared.lock().unwrap().pending_arrivals.push(a);
        }
        let fed_bytes: usize = block.iter().map(|c| c.data.len()).sum();
        let m = block_on(deduper.process_chunks(&block)).unwrap();
        check_block(&m, fed_bytes, block.len(), &format!("seed {seed} block {b}"));
        cum.merge_in(&m);
        file_chunks.extend(block);
    }

    let (_h, agg, m, _xorbs) = deduper.finalize([0u8; 32], None);
    let fed_bytes: usize = file_chunks.iter().map(|c| c.data.len()).sum();
    check_block(&m, fed_bytes, file_chunks.len(), &format!("seed {seed} final"));
    assert_eq!(m.total_bytes, cum.total_bytes);
    assert_eq!(m.new_bytes, cum.new_bytes);
    assert_eq!(m.defrag_prevented_dedup_bytes, cum.defrag_prevented_dedup_bytes);

    use std::sync::atomic::Ordering::Relaxed;
    STAT_DEFRAG.fetch_add(m.defrag_prevented_dedup_chunks, Relaxed);
    STAT_GLOBAL.fetch_add(m.deduped_chunks_by_global_dedup, Relaxed);
    STAT_DEDUP.fetch_add(m.deduped_chunks, Relaxed);
    STAT_XORBS.fetch_add(_xorbs.len(), Relaxed);
    let s = shared.lock().unwrap();
    let remaining: usize = agg.num_bytes();
    assert_eq!(s.registered_bytes + remaining, m.new_bytes, "seed {seed}: new bytes vs xorb contents");

    assert_eq!(agg.pending_file_info.len(), 1);
    let fi = &agg.pending_file_info[0].0;
    assert_eq!(fi.file_size(), fed_bytes, "seed {seed}: file_size");
    // reconstruct
    let mut pos = 0;
    for seg in fi.segments.iter() {
        let src: &[Chunk] = if seg.cas_hash == MerkleHash::default() {
            &agg.chunks
        } else {
            s.xorbs.get(&seg.cas_hash).expect("unknown xorb")
        };
        let mut nb = 0;
        for i in seg.chunk_index_start..seg.chunk_index_end {
            assert_eq!(src[i as usize].hash, file_chunks[pos].hash, "seed {seed}: reconstruction");
            nb += src[i as usize].data.len();
            pos += 1;
        }
        assert_eq!(nb, seg.unpacked_segment_bytes as usize, "seed {seed}: segment bytes");
    }
    assert_eq!(pos, file_chunks.len());
}

#[test]
fn fuzz() {
    let n: u64 = std::env::var("HUNT_N").ok().and_then(|s| s.parse().ok()).unwrap_or(2000);
    for seed in 0..n {
        run_one(seed);
    }
    use std::sync::atomic::Ordering::Relaxed;
    eprintln!("defrag {} global {} dedup {} xorbs {}", STAT_DEFRAG.load(Relaxed), STAT_GLOBAL.load(Relaxed), STAT_DEDUP.load(Relaxed), STAT_XORBS.load(Relaxed));
}

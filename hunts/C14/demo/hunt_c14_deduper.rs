//! C14 hunt: FileDeduper metrics under fragmentation prevention, with dedup information that only
//! becomes available through a global dedup query (second pass of process_chunks).
//!
//! Runs against the unmodified sources through the public API of the `deduplication` crate:
//! a `DeduplicationDataInterface` mock plays the role of the session (shard lookups, global dedup
//! query, xorb registration).
//!
//! Run:  cargo test --offline -p data --test hunt_c14_deduper -- --nocapture

use std::sync::{Arc, Mutex};

use async_trait::async_trait;
use deduplication::{Chunk, DeduplicationDataInterface, DeduplicationMetrics, FileDeduper, RawXorbData};
use mdb_shard::file_structs::FileDataSequenceEntry;
use merklehash::{compute_data_hash, MerkleHash};
use rand::rngs::StdRng;
use rand::{Rng, RngCore, SeedableRng};

/// One xorb known to the "store": its hash and the (hash, len) of its chunks.
#[derive(Clone)]
struct KnownXorb {
    hash: MerkleHash,
    chunks: Vec<(MerkleHash, usize)>,
}

#[derive(Default)]
struct State {
    /// Visible to chunk_hash_dedup_query now (local shard cache / session shards).
    visible: Vec<KnownXorb>,
    /// Becomes visible when a global dedup query completes (a shard downloaded from the server).
    behind_global_dedup: Vec<KnownXorb>,
    query_registered: bool,
    /// (bytes, chunks) of every xorb handed over by the deduper.
    registered_xorbs: Vec<(usize, usize)>,
}

#[derive(Clone, Default)]
struct Mock(Arc<Mutex<State>>);

#[async_trait]
impl DeduplicationDataInterface for Mock {
    type ErrorType = std::io::Error;

    async fn chunk_hash_dedup_query(
        &self,
        q: &[MerkleHash],
    ) -> Result<Option<(usize, FileDataSequenceEntry)>, Self::ErrorType> {
        let st = self.0.lock().unwrap();
        for x in st.visible.iter() {
            if let Some(p) = x.chunks.iter().position(|(h, _)| *h == q[0]) {
                let mut n = 0;
                let mut bytes = 0;
                while n < q.len() && p + n < x.chunks.len() && x.chunks[p + n].0 == q[n] {
                    bytes += x.chunks[p + n].1;
                    n += 1;
                }
                return Ok(Some((n, FileDataSequenceEntry::new(x.hash, bytes, p, p + n))));
            }
        }
        Ok(None)
    }

    async fn register_global_dedup_query(&mut self, _h: MerkleHash) -> Result<(), Self::ErrorType> {
        self.0.lock().unwrap().query_registered = true;
        Ok(())
    }

    async fn complete_global_dedup_queries(&mut self) -> Result<bool, Self::ErrorType> {
        let mut st = self.0.lock().unwrap();
        if st.query_registered && !st.behind_global_dedup.is_empty() {
            let mut v = std::mem::take(&mut st.behind_global_dedup);
            st.visible.append(&mut v);
            st.query_registered = false;
            return Ok(true);
        }
        st.query_registered = false;
        Ok(false)
    }

    async fn register_new_xorb(&mut self, xorb: RawXorbData) -> Result<(), Self::ErrorType> {
        let mut st = self.0.lock().unwrap();
        st.registered_xorbs.push((xorb.num_bytes(), xorb.data.len()));
        // like the session shard: later chunks can dedup against it
        st.visible.push(KnownXorb {
            hash: xorb.hash(),
            chunks: xorb
                .cas_info
                .chunks
                .iter()
                .map(|c| (c.chunk_hash, c.unpacked_segment_bytes as usize))
                .collect(),
        });
        Ok(())
    }
}

fn mk_chunk(rng: &mut StdRng) -> Chunk {
    let n = rng.gen_range(16..48usize);
    let mut d = vec![0u8; n];
    rng.fill_bytes(&mut d);
    Chunk {
        hash: compute_data_hash(&d),
        data: Arc::from(d),
    }
}

fn mk_known_xorb(rng: &mut StdRng, n: usize) -> (KnownXorb, Vec<Chunk>) {
    let chunks: Vec<Chunk> = (0..n).map(|_| mk_chunk(rng)).collect();
    let mut h = [0u8; 32];
    rng.fill_bytes(&mut h);
    let hash = compute_data_hash(&h);
    (
        KnownXorb {
            hash,
            chunks: chunks.iter().map(|c| (c.hash, c.data.len())).collect(),
        },
        chunks,
    )
}

fn set_small_defrag_window() {
    // debug builds: configurable constants are read from HF_XET_<NAME> on first use.
    std::env::set_var("HF_XET_NRANGES_IN_STREAMING_FRAGMENTATION_ESTIMATOR", "8");
}

fn check_core(m: &DeduplicationMetrics, fed_bytes: usize, fed_chunks: usize, what: &str) {
    assert_eq!(m.total_bytes, fed_bytes, "{what}: total_bytes vs bytes fed");
    assert_eq!(m.total_chunks, fed_chunks, "{what}: total_chunks vs chunks fed");
    assert_eq!(m.new_bytes + m.deduped_bytes, m.total_bytes, "{what}: new+deduped bytes");
    assert_eq!(m.new_chunks + m.deduped_chunks, m.total_chunks, "{what}: new+deduped chunks");
    assert!(m.defrag_prevented_dedup_bytes <= m.new_bytes, "{what}: withheld bytes subset of new");
    assert!(m.defrag_prevented_dedup_chunks <= m.new_chunks, "{what}: withheld chunks subset of new");
}

/// The file "U U K U U K ..." : two fresh chunks, then one chunk of a xorb that is only known through the
/// shard the global dedup query brings in.  The K chunks are taken from every second position of that xorb so
/// that no K run continues the previous one.  Heavily fragmented => fragmentation prevention refuses most K.
#[tokio::test]
async fn global_dedup_counters_exceed_accepted_dedup_under_defrag() {
    set_small_defrag_window();
    let mut rng = StdRng::seed_from_u64(14);

    let (known, known_chunks) = mk_known_xorb(&mut rng, 400);
    let mock = Mock::default();
    mock.0.lock().unwrap().behind_global_dedup.push(known);

    let mut file = Vec::new();
    for i in 0..150 {
        file.push(mk_chunk(&mut rng));
        file.push(mk_chunk(&mut rng));
        file.push(known_chunks[2 * i].clone());
    }
    let fed_bytes: usize = file.iter().map(|c| c.data.len()).sum();

    let mut deduper = FileDeduper::new(mock.clone());
    let block = deduper.process_chunks(&file).await.unwrap();
    let (_h, remaining, m, _x) = deduper.finalize([0u8; 32], None);

    eprintln!("block metrics: {block:?}");
    eprintln!("file  metrics: {m:?}");

    // the stated core of C14 does hold here
    check_core(&m, fed_bytes, file.len(), "file");
    assert!(m.defrag_prevented_dedup_chunks > 0, "scenario must trigger fragmentation prevention");
    let xorb_bytes: usize = mock.0.lock().unwrap().registered_xorbs.iter().map(|x| x.0).sum();
    assert_eq!(xorb_bytes + remaining.num_bytes(), m.new_bytes, "new bytes == bytes that go into xorbs");

    // ... but the global-dedup share of the deduplicated bytes is not conserved:
    // it counts runs that fragmentation prevention refused and that were stored (and counted) as NEW data.
    assert!(
        m.deduped_chunks_by_global_dedup <= m.deduped_chunks,
        "deduped_chunks_by_global_dedup = {} > deduped_chunks = {} (withheld = {})",
        m.deduped_chunks_by_global_dedup,
        m.deduped_chunks,
        m.defrag_prevented_dedup_chunks
    );
    assert!(
        m.deduped_bytes_by_global_dedup <= m.deduped_bytes,
        "deduped_bytes_by_global_dedup = {} > deduped_bytes = {}",
        m.deduped_bytes_by_global_dedup,
        m.deduped_bytes
    );
}

/// Randomised model run: random mix of fresh chunks, repeats of earlier chunks of the same file, runs of
/// chunks known to the store (directly visible or only via global dedup), fed in random block sizes, with
/// small xorb limits.  Checks only the invariants stated in C14.
#[tokio::test]
async fn randomized_core_invariants() {
    set_small_defrag_window();
    std::env::set_var("HF_XET_MAX_XORB_CHUNKS", "7");

    for seed in 0..300u64 {
        let mut rng = StdRng::seed_from_u64(1000 + seed);
        let mock = Mock::default();
        let (k1, k1c) = mk_known_xorb(&mut rng, 60);
        let (k2, k2c) = mk_known_xorb(&mut rng, 60);
        mock.0.lock().unwrap().visible.push(k1);
        mock.0.lock().unwrap().behind_global_dedup.push(k2);

        let mut file: Vec<Chunk> = Vec::new();
        let n_steps = rng.gen_range(1..120);
        for _ in 0..n_steps {
            match rng.gen_range(0..6) {
                0 | 1 => file.push(mk_chunk(&mut rng)),
                2 if !file.is_empty() => {
                    // repeat a run of earlier chunks of this file
                    let s = rng.gen_range(0..file.len());
                    let e = (s + rng.gen_range(1..4)).min(file.len());
                    let run: Vec<_> = file[s..e].to_vec();
                    file.extend(run);
                },
                3 | 4 => {
                    let src = if rng.gen_bool(0.5) { &k1c } else { &k2c };
                    let s = rng.gen_range(0..src.len());
                    let e = (s + rng.gen_range(1..3)).min(src.len());
                    file.extend_from_slice(&src[s..e]);
                },
                _ => file.push(mk_chunk(&mut rng)),
            }
        }

        let mut deduper = FileDeduper::new(mock.clone());
        let mut pos = 0;
        let mut sum = DeduplicationMetrics::default();
        while pos < file.len() {
            let e = (pos + rng.gen_range(1..20)).min(file.len());
            let bm = deduper.process_chunks(&file[pos..e]).await.unwrap();
            let b: usize = file[pos..e].iter().map(|c| c.data.len()).sum();
            check_core(&bm, b, e - pos, &format!("seed {seed} block {pos}..{e}"));
            sum.merge_in(&bm);
            pos = e;
        }
        let fed_bytes: usize = file.iter().map(|c| c.data.len()).sum();
        let (_h, remaining, m, _x) = deduper.finalize([0u8; 32], None);
        check_core(&m, fed_bytes, file.len(), &format!("seed {seed} file"));
        assert_eq!(sum.total_bytes, m.total_bytes);
        assert_eq!(sum.new_bytes, m.new_bytes);
        assert_eq!(remaining.pending_file_info[0].0.file_size(), fed_bytes, "seed {seed}: segment sizes");
        let xorb_bytes: usize = mock.0.lock().unwrap().registered_xorbs.iter().map(|x| x.0).sum();
        assert_eq!(xorb_bytes + remaining.num_bytes(), m.new_bytes, "seed {seed}: new bytes == xorb bytes");
    }
}

//! C14 hunt, end to end: a second upload session with an empty local shard cache ("fresh clone") uploads a
//! file that shares every third chunk with a file already in the store.  The shard describing the old file
//! arrives through the global dedup query for the first chunk, so all shared chunks are found on the second
//! pass of FileDeduper::process_chunks.  The file is heavily fragmented, so fragmentation prevention refuses
//! nearly all of these one-chunk dedup runs and stores them as new data -- but they have already been
//! counted in deduped_{chunks,bytes}_by_global_dedup.
//!
//! Observed at SingleFileCleaner::finish and FileUploadSession::finalize (unmodified sources; the `verif`
//! feature is only needed for FileUploadSession::new_with_client, because the stock constructor builds the
//! LocalClient without a shard cache directory and thereby disables global dedup for local endpoints).
//!
//! Run:  cargo test --offline -p data --features verif --test hunt_c14_global_dedup_session -- --nocapture
#![cfg(feature = "verif")]

use std::sync::Arc;

use cas_client::LocalClient;
use data::configurations::TranslatorConfig;
use data::FileUploadSession;
use deduplication::constants::TARGET_CHUNK_SIZE;
use deduplication::{Chunk, Chunker, DeduplicationMetrics};
use rand::rngs::StdRng;
use rand::{RngCore, SeedableRng};
use tempfile::TempDir;
use utils::test_set_globals;
use xet_threadpool::ThreadPool;

// Small chunks only to keep the data small (all other limits are the defaults: 128-range defrag window,
// 8 chunks/range target, 64 MiB / 8192-chunk xorbs).
test_set_globals! {
    TARGET_CHUNK_SIZE = 1024;
}

/// Whole content-defined chunks of a random stream (the EOF-cut tail chunk is dropped).  Any concatenation of
/// such chunks is re-chunked into exactly these chunks, because the chunker state is reset at every boundary.
fn whole_chunks(seed: u64, n_bytes: usize) -> Vec<Chunk> {
    let mut rng = StdRng::seed_from_u64(seed);
    let mut data = vec![0u8; n_bytes];
    rng.fill_bytes(&mut data);
    Chunker::default().next_block(&data, false)
}

fn concat(chunks: &[Chunk]) -> Vec<u8> {
    let mut v = Vec::new();
    for c in chunks {
        v.extend_from_slice(&c.data);
    }
    v
}

async fn upload(
    cfg: Arc<TranslatorConfig>,
    client: Arc<LocalClient>,
    data: &[u8],
) -> (u64, DeduplicationMetrics, DeduplicationMetrics) {
    let session = FileUploadSession::new_with_client(cfg, ThreadPool::from_current_runtime(), None, client, false)
        .await
        .unwrap();
    let mut cleaner = session.start_clean("f".to_owned());
    cleaner.add_data(data).await.unwrap();
    let (pf, file_metrics) = cleaner.finish().await.unwrap();
    let session_metrics = session.finalize().await.unwrap();
    (pf.filesize(), file_metrics, session_metrics)
}

#[tokio::test(flavor = "multi_thread", worker_threads = 2)]
async fn fragmented_file_after_global_dedup_hit() {
    let tmp = TempDir::new().unwrap();
    let cfg_a = TranslatorConfig::local_config(tmp.path().join("clone_a")).unwrap();
    let cfg_b = TranslatorConfig::local_config(tmp.path().join("clone_b")).unwrap();

    // One store; the global dedup answers are delivered into clone B's shard cache.
    std::fs::create_dir_all(&cfg_b.shard_config.cache_directory).unwrap();
    let store = Arc::new(
        LocalClient::new(tmp.path().join("store"), Some(cfg_b.shard_config.cache_directory.clone())).unwrap(),
    );

    // File 1: 1000+ chunks, uploaded from clone A.
    let old = whole_chunks(1, 1200 * 1024);
    assert!(old.len() > 900, "{}", old.len());
    let file1 = concat(&old);
    let (sz1, m1, _s1) = upload(cfg_a, store.clone(), &file1).await;
    assert_eq!(sz1 as usize, file1.len());
    assert_eq!(m1.new_bytes, file1.len());

    // File 2: old[0], then 300 x (fresh, fresh, old[2i+2]).
    let fresh = whole_chunks(2, 1000 * 1024);
    assert!(fresh.len() > 620, "{}", fresh.len());
    let mut f2 = vec![old[0].clone()];
    let mut n_shared = 1;
    for i in 0..300 {
        f2.push(fresh[2 * i].clone());
        f2.push(fresh[2 * i + 1].clone());
        f2.push(old[2 * i + 2].clone());
        n_shared += 1;
    }
    let file2 = concat(&f2);

    let (sz2, m, s) = upload(cfg_b, store.clone(), &file2).await;
    eprintln!("shared chunks in file 2: {n_shared} of {}", f2.len());
    eprintln!("file    metrics: {m:?}");
    eprintln!("session metrics: {s:?}");

    // The explicitly stated invariants hold:
    assert_eq!(sz2 as usize, file2.len());
    assert_eq!(m.total_bytes, file2.len());
    assert_eq!(m.new_bytes + m.deduped_bytes, m.total_bytes);
    assert_eq!(m.new_chunks + m.deduped_chunks, m.total_chunks);
    assert!(m.defrag_prevented_dedup_bytes <= m.new_bytes);
    assert!(m.defrag_prevented_dedup_chunks > 0, "fragmentation prevention must have kicked in");
    assert_eq!(s.total_bytes, m.total_bytes);
    assert_eq!(s.new_bytes, m.new_bytes);

    // The global dedup share of the deduplicated data is not conserved: it is larger than everything
    // that was deduplicated, i.e. the same bytes are reported as "deduplicated via global dedup" and as
    // new (withheld) bytes.
    assert!(
        m.deduped_chunks_by_global_dedup <= m.deduped_chunks && m.deduped_bytes_by_global_dedup <= m.deduped_bytes,
        "file: by_global_dedup {} chunks / {} bytes  >  deduped {} chunks / {} bytes  (withheld {} chunks / {} bytes)",
        m.deduped_chunks_by_global_dedup,
        m.deduped_bytes_by_global_dedup,
        m.deduped_chunks,
        m.deduped_bytes,
        m.defrag_prevented_dedup_chunks,
        m.defrag_prevented_dedup_bytes,
    );
    assert!(s.deduped_bytes_by_global_dedup <= s.deduped_bytes, "session");
}

//! C14 hunt: whole-session conservation check with a recording client around LocalClient
//! (random upload completion order through random delays in `put`).
//!
//! Run:  cargo test --offline -p data --features verif --test hunt_c14_session -- --nocapture
#![cfg(feature = "verif")]

use std::collections::HashMap;
use std::path::PathBuf;
use std::sync::atomic::{AtomicUsize, Ordering};
use std::sync::Arc;
use std::time::Duration;

use async_trait::async_trait;
use cas_client::{
    CasClientError, Client, LocalClient, OutputProvider, ReconstructionClient, ShardClientInterface, UploadClient,
    VerifRegistrationClient, VerifShardDedupProber,
};
use data::configurations::TranslatorConfig;
use data::FileUploadSession;
use deduplication::constants::{MAX_XORB_BYTES, MAX_XORB_CHUNKS, TARGET_CHUNK_SIZE};
use deduplication::DeduplicationMetrics;
use mdb_shard::file_structs::MDBFileInfo;
use mdb_shard::shard_file_reconstructor::FileReconstructor;
use merklehash::MerkleHash;
use rand::rngs::StdRng;
use rand::{Rng, RngCore, SeedableRng};
use tempfile::TempDir;
use tokio::task::JoinSet;
use utils::progress::ProgressUpdater;
use utils::test_set_globals;
use xet_threadpool::ThreadPool;

test_set_globals! {
    TARGET_CHUNK_SIZE = 256;
    MAX_XORB_BYTES = 40 * (*TARGET_CHUNK_SIZE);
    MAX_XORB_CHUNKS = 24;
}

#[ctor::ctor]
fn small_defrag_window() {
    std::env::set_var("HF_XET_NRANGES_IN_STREAMING_FRAGMENTATION_ESTIMATOR", "8");
    std::env::set_var("HF_XET_INGESTION_BLOCK_SIZE", "3000");
}

type CResult<T> = std::result::Result<T, CasClientError>;

struct RecordingClient {
    inner: LocalClient,
    put_raw_bytes: AtomicUsize,
    put_returned: AtomicUsize,
    shard_bytes: AtomicUsize,
    n_puts: AtomicUsize,
    seed: AtomicUsize,
}

#[async_trait]
impl UploadClient for RecordingClient {
    async fn put(
        &self,
        prefix: &str,
        hash: &MerkleHash,
        data: Vec<u8>,
        chunk_and_boundaries: Vec<(MerkleHash, u32)>,
    ) -> CResult<usize> {
        let k = self.seed.fetch_add(7919, Ordering::Relaxed);
        tokio::time::sleep(Duration::from_millis((k % 13) as u64)).await;
        let n = data.len();
        let r = self.inner.put(prefix, hash, data, chunk_and_boundaries).await?;
        self.put_raw_bytes.fetch_add(n, Ordering::Relaxed);
        self.put_returned.fetch_add(r, Ordering::Relaxed);
        self.n_puts.fetch_add(1, Ordering::Relaxed);
        Ok(r)
    }
    async fn exists(&self, prefix: &str, hash: &MerkleHash) -> CResult<bool> {
        self.inner.exists(prefix, hash).await
    }
}

#[async_trait]
impl ReconstructionClient for RecordingClient {
    async fn get_file(
        &self,
        hash: &MerkleHash,
        byte_range: Option<cas_types::FileRange>,
        output_provider: &OutputProvider,
        progress_updater: Option<Arc<dyn ProgressUpdater>>,
    ) -> CResult<u64> {
        self.inner.get_file(hash, byte_range, output_provider, progress_updater).await
    }
}

#[async_trait]
impl VerifRegistrationClient for RecordingClient {
    async fn upload_shard(
        &self,
        prefix: &str,
        hash: &MerkleHash,
        force_sync: bool,
        shard_data: &[u8],
        salt: &[u8; 32],
    ) -> CResult<bool> {
        self.shard_bytes.fetch_add(shard_data.len(), Ordering::Relaxed);
        self.inner.upload_shard(prefix, hash, force_sync, shard_data, salt).await
    }
}

#[async_trait]
impl FileReconstructor<CasClientError> for RecordingClient {
    async fn get_file_reconstruction_info(
        &self,
        file_hash: &MerkleHash,
    ) -> CResult<Option<(MDBFileInfo, Option<MerkleHash>)>> {
        self.inner.get_file_reconstruction_info(file_hash).await
    }
}

#[async_trait]
impl VerifShardDedupProber for RecordingClient {
    async fn query_for_global_dedup_shard(
        &self,
        prefix: &str,
        chunk_hash: &MerkleHash,
        salt: &[u8; 32],
    ) -> CResult<Option<PathBuf>> {
        self.inner.query_for_global_dedup_shard(prefix, chunk_hash, salt).await
    }
}
impl ShardClientInterface for RecordingClient {}
impl Client for RecordingClient {}

fn make_files(rng: &mut StdRng) -> Vec<Vec<u8>> {
    // a pool of shared content; files are spliced from pool slices and fresh bytes in small pieces.
    let mut pool = vec![0u8; 64 * 1024];
    rng.fill_bytes(&mut pool);
    let n_files = rng.gen_range(1..7);
    let mut files = Vec::new();
    for _ in 0..n_files {
        let mut f = Vec::new();
        match rng.gen_range(0..5) {
            0 => {}, // empty file
            1 => {
                // same content as pool prefix
                let n = rng.gen_range(1..pool.len());
                f.extend_from_slice(&pool[..n]);
            },
            _ => {
                let pieces = rng.gen_range(1..80);
                for _ in 0..pieces {
                    if rng.gen_bool(0.5) {
                        let s = rng.gen_range(0..pool.len() - 1);
                        let e = (s + rng.gen_range(1..1500)).min(pool.len());
                        f.extend_from_slice(&pool[s..e]);
                    } else {
                        let mut fresh = vec![0u8; rng.gen_range(1..900)];
                        rng.fill_bytes(&mut fresh);
                        f.extend_from_slice(&fresh);
                    }
                }
            },
        }
        files.push(f);
    }
    if rng.gen_bool(0.3) && !files.is_empty() {
        let dup = files[0].clone();
        files.push(dup);
    }
    files
}

fn add(a: &mut DeduplicationMetrics, b: &DeduplicationMetrics) {
    a.merge_in(b);
}

#[tokio::test(flavor = "multi_thread", worker_threads = 4)]
async fn session_metrics_are_conserved() {
    let tmp = TempDir::new().unwrap();
    // several sessions against the same store, so later sessions dedup against shards of earlier ones
    for seed in 0..40u64 {
        let mut rng = StdRng::seed_from_u64(seed);
        let cas_dir = tmp.path().join(format!("cas{}", seed / 4));
        let config = TranslatorConfig::local_config(&cas_dir).unwrap();
        let xorb_dir = cas_dir.join("xet").join("xorbs");
        let client = Arc::new(RecordingClient {
            inner: LocalClient::new(&xorb_dir, None).unwrap(),
            put_raw_bytes: Default::default(),
            put_returned: Default::default(),
            shard_bytes: Default::default(),
            n_puts: Default::default(),
            seed: AtomicUsize::new(seed as usize * 31),
        });

        let session =
            FileUploadSession::new_with_client(config, ThreadPool::from_current_runtime(), None, client.clone(), false)
                .await
                .unwrap();

        let files = make_files(&mut rng);
        let concurrent = rng.gen_bool(0.5);
        let mut per_file: HashMap<usize, DeduplicationMetrics> = HashMap::new();

        let mut js = JoinSet::new();
        for (i, f) in files.iter().cloned().enumerate() {
            let s = session.clone();
            let step = rng.gen_range(1..5000usize);
            let fut = async move {
                let mut c = s.start_clean(format!("f{i}"));
                let mut pos = 0;
                while pos < f.len() {
                    let e = (pos + step).min(f.len());
                    c.add_data(&f[pos..e]).await.unwrap();
                    pos = e;
                }
                let (pf, m) = c.finish().await.unwrap();
                (i, f.len(), pf, m)
            };
            if concurrent {
                js.spawn(fut);
            } else {
                let r = fut.await;
                js.spawn(async move { r });
            }
        }
        while let Some(r) = js.join_next().await {
            let (i, len, pf, m) = r.unwrap();
            assert_eq!(pf.filesize() as usize, len, "seed {seed} file {i}: pointer size");
            assert_eq!(m.total_bytes, len, "seed {seed} file {i}: total_bytes");
            assert_eq!(m.new_bytes + m.deduped_bytes, m.total_bytes, "seed {seed} file {i}");
            assert_eq!(m.new_chunks + m.deduped_chunks, m.total_chunks, "seed {seed} file {i}");
            assert!(m.defrag_prevented_dedup_bytes <= m.new_bytes, "seed {seed} file {i}");
            assert!(m.defrag_prevented_dedup_chunks <= m.new_chunks, "seed {seed} file {i}");
            per_file.insert(i, m);
        }

        let sm = session.finalize().await.unwrap();

        let mut sum = DeduplicationMetrics::default();
        for m in per_file.values() {
            add(&mut sum, m);
        }
        assert_eq!(sm.total_bytes, sum.total_bytes, "seed {seed}");
        assert_eq!(sm.new_bytes, sum.new_bytes, "seed {seed}");
        assert_eq!(sm.deduped_bytes, sum.deduped_bytes, "seed {seed}");
        assert_eq!(sm.defrag_prevented_dedup_bytes, sum.defrag_prevented_dedup_bytes, "seed {seed}");
        assert_eq!(sm.total_chunks, sum.total_chunks, "seed {seed}");
        assert_eq!(sm.new_chunks, sum.new_chunks, "seed {seed}");
        assert_eq!(sm.deduped_chunks, sum.deduped_chunks, "seed {seed}");
        assert_eq!(sm.defrag_prevented_dedup_chunks, sum.defrag_prevented_dedup_chunks, "seed {seed}");

        assert_eq!(sm.xorb_bytes_uploaded, client.put_returned.load(Ordering::Relaxed), "seed {seed}: xorb bytes");
        assert_eq!(sm.shard_bytes_uploaded, client.shard_bytes.load(Ordering::Relaxed), "seed {seed}: shard bytes");
        assert_eq!(sm.total_bytes_uploaded, sm.xorb_bytes_uploaded + sm.shard_bytes_uploaded, "seed {seed}");
        assert_eq!(client.put_raw_bytes.load(Ordering::Relaxed), sm.new_bytes, "seed {seed}: raw xorb bytes == new bytes");
        eprintln!(
            "seed {seed}: files {} puts {} total {} new {} dedup {} withheld {} xorb_up {} shard_up {} by_global {}",
            files.len(),
            client.n_puts.load(Ordering::Relaxed),
            sm.total_bytes,
            sm.new_bytes,
            sm.deduped_bytes,
            sm.defrag_prevented_dedup_bytes,
            sm.xorb_bytes_uploaded,
            sm.shard_bytes_uploaded,
            sm.deduped_bytes_by_global_dedup
        );
    }
}

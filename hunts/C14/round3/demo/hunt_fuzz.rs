use std::path::Path;

use data::configurations::TranslatorConfig;
use data::FileUploadSession;
use deduplication::{Chunker, DeduplicationMetrics};
use rand::rngs::StdRng;
use rand::{Rng, RngCore, SeedableRng};
use tempfile::TempDir;
use xet_threadpool::ThreadPool;

fn dir_size(p: &Path) -> (usize, usize) {
    let mut n = 0;
    let mut total = 0;
    if let Ok(rd) = std::fs::read_dir(p) {
        for e in rd {
            let e = e.unwrap();
            let md = e.metadata().unwrap();
            if md.is_file() {
                n += 1;
                total += md.len() as usize;
            } else if md.is_dir() {
                let (a, b) = dir_size(&e.path());
                n += a;
                total += b;
            }
        }
    }
    (n, total)
}

fn check_file(name: &str, m: &DeduplicationMetrics, fed: usize, ptr_size: u64) {
    assert_eq!(m.total_bytes, fed, "{name}: total_bytes {m:?}");
    assert_eq!(ptr_size as usize, fed, "{name}: pointer size");
    assert_eq!(m.new_bytes + m.deduped_bytes, m.total_bytes, "{name}: bytes {m:?}");
    assert_eq!(m.new_chunks + m.deduped_chunks, m.total_chunks, "{name}: chunks {m:?}");
    assert!(m.defrag_prevented_dedup_bytes <= m.new_bytes, "{name}: defrag bytes {m:?}");
    assert!(m.defrag_prevented_dedup_chunks <= m.new_chunks, "{name}: defrag chunks {m:?}");
}

async fn run_session(
    cas_dir: &Path,
    files: Vec<(String, Vec<u8>)>,
    rng: &mut StdRng,
    concurrent: bool,
) -> DeduplicationMetrics {
    let config = TranslatorConfig::local_config(cas_dir).unwrap();
    let xorb_dir = cas_dir.join("xet").join("xorbs").join("xorbs");
    let shard_dir = cas_dir.join("xet").join("xorbs").join("shards");
    let before = dir_size(&xorb_dir);
    let sbefore = dir_size(&shard_dir);

    let session = FileUploadSession::new(config.clone(), ThreadPool::from_current_runtime(), None)
        .await
        .unwrap();

    let mut sum = DeduplicationMetrics::default();

    if concurrent {
        let mut js = tokio::task::JoinSet::new();
        for (name, data) in files {
            let session = session.clone();
            let seed: u64 = rng.gen();
            js.spawn(async move {
                let mut rng = StdRng::seed_from_u64(seed);
                let mut cleaner = session.start_clean(name.clone());
                let mut pos = 0;
                while pos < data.len() {
                    let n = rng.gen_range(1..=5000).min(data.len() - pos);
                    cleaner.add_data(&data[pos..pos + n]).await.unwrap();
                    pos += n;
                    tokio::task::yield_now().await;
                }
                let (pf, m) = cleaner.finish().await.unwrap();
                check_file(&name, &m, data.len(), pf.filesize());
                m
            });
        }
        while let Some(r) = js.join_next().await {
            sum.merge_in(&r.unwrap());
        }
    } else {
        for (name, data) in files {
            let mut cleaner = session.start_clean(name.clone());
            let mut pos = 0;
            while pos < data.len() {
                let n = rng.gen_range(1..=20000).min(data.len() - pos);
                cleaner.add_data(&data[pos..pos + n]).await.unwrap();
                pos += n;
            }
            let (pf, m) = cleaner.finish().await.unwrap();
            check_file(&name, &m, data.len(), pf.filesize());
            sum.merge_in(&m);
        }
    }

    let sm = session.finalize().await.unwrap();
    let after = dir_size(&xorb_dir);
    let safter = dir_size(&shard_dir);
    assert_eq!(
        safter.1 - sbefore.1,
        sm.shard_bytes_uploaded,
        "shard dir grew by {} ({} files) but reported {}",
        safter.1 - sbefore.1,
        safter.0 - sbefore.0,
        sm.shard_bytes_uploaded
    );

    assert_eq!(sm.total_bytes, sum.total_bytes, "session total {sm:?} vs {sum:?}");
    assert_eq!(sm.new_bytes, sum.new_bytes);
    assert_eq!(sm.deduped_bytes, sum.deduped_bytes);
    assert_eq!(sm.total_chunks, sum.total_chunks);
    assert_eq!(sm.new_chunks, sum.new_chunks);
    assert_eq!(sm.deduped_chunks, sum.deduped_chunks);
    assert_eq!(sm.defrag_prevented_dedup_bytes, sum.defrag_prevented_dedup_bytes);
    assert_eq!(sm.defrag_prevented_dedup_chunks, sum.defrag_prevented_dedup_chunks);
    assert_eq!(sm.deduped_bytes_by_global_dedup, sum.deduped_bytes_by_global_dedup);
    assert_eq!(sm.total_bytes_uploaded, sm.xorb_bytes_uploaded + sm.shard_bytes_uploaded);
    if concurrent { assert!(after.1 - before.1 <= sm.xorb_bytes_uploaded); } else
    {assert_eq!(
        after.1 - before.1,
        sm.xorb_bytes_uploaded,
        "xorb dir grew by {} ({} files) but reported {}",
        after.1 - before.1,
        after.0 - before.0,
        sm.xorb_bytes_uploaded
    );}
    eprintln!("session: {sm:?}");
    sm
}

#[tokio::test(flavor = "multi_thread", worker_threads = 4)]
async fn fuzz() {
    let seed0: u64 = std::env::var("HUNT_SEED").ok().and_then(|s| s.parse().ok()).unwrap_or(0);
    let iters: u64 = std::env::var("HUNT_ITERS").ok().and_then(|s| s.parse().ok()).unwrap_or(10);
    for seed in seed0..seed0 + iters {
        eprintln!("==== seed {seed}");
        let mut rng = StdRng::seed_from_u64(seed);
        let tmp = TempDir::new().unwrap();
        let cas_dir = tmp.path().join("cas");

        // Base data.
        let base_len = rng.gen_range(50_000..400_000);
        let mut base = vec![0u8; base_len];
        rng.fill_bytes(&mut base);
        let base_chunks = Chunker::default().next_block(&base, true);
        eprintln!("base chunks: {}", base_chunks.len());

        let concurrent = rng.gen_bool(0.5);
        run_session(&cas_dir, vec![("base".to_string(), base.clone())], &mut rng, false).await;

        for s in 0..3 {
            let nfiles = rng.gen_range(1..5);
            let mut files = vec![];
            for f in 0..nfiles {
                let mut data = vec![];
                let nseg = rng.gen_range(1..200);
                for _ in 0..nseg {
                    match rng.gen_range(0..4) {
                        0 => {
                            // new random
                            let n = rng.gen_range(1..6000);
                            let mut v = vec![0u8; n];
                            rng.fill_bytes(&mut v);
                            data.extend_from_slice(&v);
                        },
                        1 | 2 => {
                            // short run of base chunks
                            let start = rng.gen_range(0..base_chunks.len());
                            let n = rng.gen_range(1..4).min(base_chunks.len() - start);
                            for c in &base_chunks[start..start + n] {
                                data.extend_from_slice(&c.data);
                            }
                        },
                        _ => {
                            // long run
                            let start = rng.gen_range(0..base_chunks.len());
                            let n = rng.gen_range(1..40).min(base_chunks.len() - start);
                            for c in &base_chunks[start..start + n] {
                                data.extend_from_slice(&c.data);
                            }
                        },
                    }
                }
                if std::env::var("HUNT_EMPTY").is_ok() && rng.gen_bool(0.1) {
                    data.clear();
                }
                files.push((format!("s{s}f{f}"), data));
            }
            if rng.gen_bool(0.3) && !files.is_empty() {
                let d = files[0].clone();
                files.push((format!("s{s}dup"), d.1));
            }
            run_session(&cas_dir, files, &mut rng, concurrent).await;
        }
    }
}

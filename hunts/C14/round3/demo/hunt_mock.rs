use std::sync::{Arc, Mutex};

use async_trait::async_trait;
use deduplication::{Chunk, DeduplicationDataInterface, FileDeduper, RawXorbData};
use mdb_shard::cas_structs::MDBCASInfo;
use mdb_shard::file_structs::FileDataSequenceEntry;
use mdb_shard::shard_in_memory::MDBInMemoryShard;
use merklehash::{compute_data_hash, MerkleHash};
use rand::rngs::StdRng;
use rand::{Rng, RngCore, SeedableRng};

#[derive(Default)]
struct State {
    shard: MDBInMemoryShard,
    pending: Vec<MDBCASInfo>,
    queried: bool,
    xorbs: Vec<RawXorbData>,
}

struct Mock(Arc<Mutex<State>>);

#[async_trait]
impl DeduplicationDataInterface for Mock {
    type ErrorType = String;

    async fn chunk_hash_dedup_query(
        &self,
        query_hashes: &[MerkleHash],
    ) -> Result<Option<(usize, FileDataSequenceEntry)>, String> {
        Ok(self.0.lock().unwrap().shard.chunk_hash_dedup_query(query_hashes))
    }

    async fn register_global_dedup_query(&mut self, _chunk_hash: MerkleHash) -> Result<(), String> {
        self.0.lock().unwrap().queried = true;
        Ok(())
    }

    async fn complete_global_dedup_queries(&mut self) -> Result<bool, String> {
        let mut s = self.0.lock().unwrap();
        if s.queried && !s.pending.is_empty() {
            s.queried = false;
            let p = s.pending.pop().unwrap();
            s.shard.add_cas_block(p).unwrap();
            return Ok(true);
        }
        s.queried = false;
        Ok(false)
    }

    async fn register_new_xorb(&mut self, xorb: RawXorbData) -> Result<(), String> {
        let mut s = self.0.lock().unwrap();
        s.shard.add_cas_block(xorb.cas_info.clone()).unwrap();
        s.xorbs.push(xorb);
        Ok(())
    }
}

fn mk_chunk(rng: &mut StdRng) -> Chunk {
    let n = rng.gen_range(1..300);
    let mut v = vec![0u8; n];
    rng.fill_bytes(&mut v);
    Chunk {
        hash: compute_data_hash(&v),
        data: v.into(),
    }
}

#[tokio::test]
async fn mock_fuzz() {
    let seed0: u64 = std::env::var("HUNT_SEED").ok().and_then(|s| s.parse().ok()).unwrap_or(0);
    let iters: u64 = std::env::var("HUNT_ITERS").ok().and_then(|s| s.parse().ok()).unwrap_or(200);
    for seed in seed0..seed0 + iters {
        let mut rng = StdRng::seed_from_u64(seed);
        let pool: Vec<Chunk> = (0..rng.gen_range(5..300)).map(|_| mk_chunk(&mut rng)).collect();

        let state = Arc::new(Mutex::new(State::default()));
        // Known xorbs
        {
            let mut s = state.lock().unwrap();
            for k in 0..rng.gen_range(0..12) {
                let n = rng.gen_range(1..=pool.len().min(16));
                let mut cs = vec![];
                if rng.gen_bool(0.5) {
                    let st = rng.gen_range(0..pool.len());
                    for i in 0..n {
                        cs.push(pool[(st + i) % pool.len()].clone());
                    }
                } else {
                    for _ in 0..n {
                        cs.push(pool[rng.gen_range(0..pool.len())].clone());
                    }
                }
                let x = RawXorbData::from_chunks(&cs);
                if k % 3 == 0 {
                    s.pending.push(x.cas_info);
                } else {
                    s.shard.add_cas_block(x.cas_info).unwrap();
                }
            }
        }

        // File
        let mut file: Vec<Chunk> = vec![];
        for _ in 0..rng.gen_range(0..300) {
            match rng.gen_range(0..5) {
                0 => file.push(mk_chunk(&mut rng)),
                1 => {
                    if !file.is_empty() {
                        let st = rng.gen_range(0..file.len());
                        let n = rng.gen_range(1..10).min(file.len() - st);
                        let v: Vec<_> = file[st..st + n].to_vec();
                        file.extend(v);
                    }
                },
                2 => {
                    let st = rng.gen_range(0..pool.len());
                    let n = rng.gen_range(1..30).min(pool.len() - st);
                    file.extend_from_slice(&pool[st..st + n]);
                },
                _ => {
                    let st = rng.gen_range(0..pool.len());
                    let n = rng.gen_range(1..3).min(pool.len() - st);
                    file.extend_from_slice(&pool[st..st + n]);
                },
            }
        }

        let mut d = FileDeduper::new(Mock(state.clone()));
        let mut pos = 0;
        let mut sum = deduplication::DeduplicationMetrics::default();
        while pos < file.len() {
            let n = rng.gen_range(1..60).min(file.len() - pos);
            let m = d.process_chunks(&file[pos..pos + n]).await.unwrap();
            sum.merge_in(&m);
            pos += n;
        }
        let (_h, agg, m, new_xorbs) = d.finalize([0; 32], None);

        let fed_bytes: usize = file.iter().map(|c| c.data.len()).sum();
        assert_eq!(m.total_bytes, fed_bytes, "seed {seed}");
        assert_eq!(m.total_chunks, file.len(), "seed {seed}");
        assert_eq!(m.new_bytes + m.deduped_bytes, m.total_bytes, "seed {seed}");
        assert_eq!(m.new_chunks + m.deduped_chunks, m.total_chunks, "seed {seed}");
        assert!(m.defrag_prevented_dedup_bytes <= m.new_bytes, "seed {seed}");
        assert!(m.defrag_prevented_dedup_chunks <= m.new_chunks, "seed {seed}");
        assert_eq!(sum.total_bytes, m.total_bytes);
        assert_eq!(sum.new_bytes, m.new_bytes);
        assert_eq!(sum.deduped_bytes, m.deduped_bytes);
        assert_eq!(sum.defrag_prevented_dedup_bytes, m.defrag_prevented_dedup_bytes);

        let s = state.lock().unwrap();
        assert_eq!(s.xorbs.len(), new_xorbs.len());
        let xb: usize = s.xorbs.iter().map(|x| x.num_bytes()).sum::<usize>() + agg.num_bytes();
        let xc: usize = s.xorbs.iter().map(|x| x.data.len()).sum::<usize>() + agg.num_chunks();
        assert_eq!(xb, m.new_bytes, "seed {seed}: bytes in xorbs vs new_bytes");
        assert_eq!(xc, m.new_chunks, "seed {seed}: chunks in xorbs vs new_chunks");

        let fi = &agg.pending_file_info[0].0;
        assert_eq!(fi.file_size(), fed_bytes);
        let nc: usize = fi.segments.iter().map(|s| (s.chunk_index_end - s.chunk_index_start) as usize).sum();
        assert_eq!(nc, file.len());
        if m.deduped_bytes_by_global_dedup > m.deduped_bytes {
            eprintln!("seed {seed}: (known) global {} > deduped {}", m.deduped_bytes_by_global_dedup, m.deduped_bytes);
        }
        if seed % 20 == 0 {
            eprintln!("seed {seed}: {m:?}");
        }
    }
}

// C14 demo: the session's xorb_bytes_uploaded does not account for every xorb the session hands to the
// store when the store is the LocalClient (local:// / FileSystem endpoint): a put() of a xorb whose
// hash is already present returns 0 "bytes transmitted" (cas_client/src/local_client.rs:246-249), so the
// session reports fewer uploaded xorb bytes than it handed over -- fewer even than its own new_bytes,
// although the LocalClient stores chunks uncompressed.
//
// Scenario (no special configuration besides small sizes so the test is fast):
//   one session, two files with identical content, each 0.6 * MAX_XORB_BYTES, cleaned one after the other.
//   File A is all new data and stays in the session aggregate (nothing registered in the session shard yet).
//   File B is therefore all new data as well; A+B exceed MAX_XORB_BYTES, so B's data is cut as xorb X and
//   handed to the store.  finalize() cuts A's data: the same chunk list, i.e. xorb X again, handed to the
//   store a second time.  new_bytes == 2*|F|, two put() calls with |F| raw bytes each, but only one is counted.
//
// copy to data/tests/hunt_demo.rs and run:
//   cargo test --offline -p data --test hunt_demo -- --nocapture

use std::time::Duration;

use data::configurations::TranslatorConfig;
use data::FileUploadSession;
use deduplication::constants::{MAX_XORB_BYTES, MAX_XORB_CHUNKS, TARGET_CHUNK_SIZE};
use rand::rngs::StdRng;
use rand::{RngCore, SeedableRng};
use tempfile::TempDir;
use utils::test_set_globals;
use xet_threadpool::ThreadPool;

test_set_globals! {
    TARGET_CHUNK_SIZE = 1024;
    MAX_XORB_BYTES = 64 * 1024;
    MAX_XORB_CHUNKS = 8 * 1024;
}

#[tokio::test(flavor = "multi_thread", worker_threads = 2)]
async fn xorb_bytes_uploaded_misses_a_xorb_handed_to_the_local_store() {
    let tmp = TempDir::new().unwrap();
    let config = TranslatorConfig::local_config(tmp.path().join("cas")).unwrap();

    let size = *MAX_XORB_BYTES * 6 / 10;
    let mut content = vec![0u8; size];
    StdRng::seed_from_u64(1).fill_bytes(&mut content);

    let session = FileUploadSession::new(config, ThreadPool::from_current_runtime(), None)
        .await
        .unwrap();

    let mut per_file = vec![];
    for name in ["a", "b"] {
        let mut cleaner = session.start_clean(name.to_owned());
        cleaner.add_data(&content).await.unwrap();
        let (pf, m) = cleaner.finish().await.unwrap();
        assert_eq!(pf.filesize() as usize, size);
        assert_eq!(m.total_bytes, size);
        per_file.push(m);
    }

    // Let the background upload of the first xorb complete, so the outcome does not depend on timing.
    tokio::time::sleep(Duration::from_millis(500)).await;

    let m = session.finalize().await.unwrap();
    eprintln!("per file: {per_file:#?}\nsession: {m:#?}");

    // Both files are entirely new data (nothing to dedup against), the session says so itself:
    assert_eq!(m.new_bytes, 2 * size);
    assert_eq!(m.deduped_bytes, 0);

    // Every new byte is handed to the store inside some xorb, and the local store keeps chunks
    // uncompressed (serialized xorb = chunk data + chunk headers + footer), so the bytes reported as
    // uploaded xorbs can never be less than the new bytes.
    assert!(
        m.xorb_bytes_uploaded >= m.new_bytes,
        "session handed {} new bytes to the store in xorbs, but reports only {} xorb bytes uploaded",
        m.new_bytes,
        m.xorb_bytes_uploaded
    );
}

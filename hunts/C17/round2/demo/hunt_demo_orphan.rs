// C17 demo: reconstruct_file_to_writer_parallel returns on the first failed term but leaves the
// other term tasks running. They keep writing into the destination after the call has returned,
// and so they corrupt the output of a later, fully successful reconstruction into the same path.
//
// run: cargo test --offline -p cas_client --test hunt_demo_orphan -- --nocapture
use std::collections::HashMap;
use std::sync::Arc;
use std::time::{Duration, Instant};

use cas_client::remote_client::RemoteClient;
use cas_client::{FileProvider, OutputProvider};
use cas_object::{serialize_chunk, CompressionScheme};
use cas_types::{CASReconstructionFetchInfo, CASReconstructionTerm, ChunkRange, HexMerkleHash, HttpRange};
use httpmock::prelude::*;
use merklehash::MerkleHash;
use xet_threadpool::ThreadPool;

fn ser(chunk: &[u8]) -> Vec<u8> {
    let mut v = vec![];
    serialize_chunk(chunk, &mut v, Some(CompressionScheme::None)).unwrap();
    v
}

async fn scenario(parallel: bool) -> (Vec<u8>, Vec<u8>, Vec<u8>) {
    let tp = ThreadPool::from_current_runtime();
    let tmp = tempfile::tempdir().unwrap();
    let server = MockServer::start_async().await;

    // file A = xorb A chunk 0 (100 x 0xA0) ++ xorb A chunk 1 (100 x 0xA1); one fetch range (url) per chunk
    let a_hash = MerkleHash::from([1u64, 2, 3, 4]);
    let a0 = ser(&[0xA0u8; 100]);
    let a1 = ser(&[0xA1u8; 100]);
    let (a0_len, a1_len) = (a0.len() as u32, a1.len() as u32);
    // the url of chunk 0 is refused at once (e.g. an expired pre-signed url): 403 is not retried
    server
        .mock_async(|when, then| {
            when.method(GET).path("/a").header("range", format!("bytes=0-{}", a0_len - 1));
            then.status(403);
        })
        .await;
    // the url of chunk 1 is slow but healthy
    server
        .mock_async(move |when, then| {
            when.method(GET)
                .path("/a")
                .header("range", format!("bytes={}-{}", a0_len, a0_len + a1_len - 1));
            then.status(206).delay(Duration::from_millis(1500)).body(a1);
        })
        .await;
    let a_terms = vec![
        CASReconstructionTerm {
            hash: HexMerkleHash(a_hash),
            unpacked_length: 100,
            range: ChunkRange { start: 0, end: 1 },
        },
        CASReconstructionTerm {
            hash: HexMerkleHash(a_hash),
            unpacked_length: 100,
            range: ChunkRange { start: 1, end: 2 },
        },
    ];
    let mut a_fi = HashMap::new();
    a_fi.insert(
        HexMerkleHash(a_hash),
        vec![
            CASReconstructionFetchInfo {
                range: ChunkRange { start: 0, end: 1 },
                url: server.url("/a"),
                url_range: HttpRange {
                    start: 0,
                    end: a0_len - 1,
                },
            },
            CASReconstructionFetchInfo {
                range: ChunkRange { start: 1, end: 2 },
                url: server.url("/a"),
                url_range: HttpRange {
                    start: a0_len,
                    end: a0_len + a1_len - 1,
                },
            },
        ],
    );

    // file B = one chunk, 300 x 0xBB, everything healthy
    let b_hash = MerkleHash::from([5u64, 6, 7, 8]);
    let b0 = ser(&[0xBBu8; 300]);
    let b0_len = b0.len() as u32;
    server
        .mock_async(move |when, then| {
            when.method(GET).path("/b").header("range", format!("bytes=0-{}", b0_len - 1));
            then.status(206).body(b0);
        })
        .await;
    let b_terms = vec![CASReconstructionTerm {
        hash: HexMerkleHash(b_hash),
        unpacked_length: 300,
        range: ChunkRange { start: 0, end: 1 },
    }];
    let mut b_fi = HashMap::new();
    b_fi.insert(
        HexMerkleHash(b_hash),
        vec![CASReconstructionFetchInfo {
            range: ChunkRange { start: 0, end: 1 },
            url: server.url("/b"),
            url_range: HttpRange {
                start: 0,
                end: b0_len - 1,
            },
        }],
    );

    let client = RemoteClient::new(tp, "http://localhost:1", None, &None, &None, "".into(), false);
    let dest = tmp.path().join("dest.bin");
    let out = OutputProvider::File(FileProvider::new(dest.clone()));

    // step 1: the reconstruction of A fails (term 0 is refused)
    let t0 = Instant::now();
    let r1 = if parallel {
        client
            .reconstruct_file_to_writer_parallel(a_terms, Arc::new(a_fi), 0, None, &out, None)
            .await
    } else {
        client.reconstruct_file_to_writer(a_terms, Arc::new(a_fi), 0, None, &out, None).await
    };
    assert!(r1.is_err(), "step 1 is expected to fail");
    eprintln!("step 1 returned {:?} after {:?}", r1.as_ref().err(), t0.elapsed());

    // step 2: the caller cleans up and reconstructs B into the same destination; this succeeds
    let _ = std::fs::remove_file(&dest);
    let r2 = if parallel {
        client
            .reconstruct_file_to_writer_parallel(b_terms, Arc::new(b_fi), 0, None, &out, None)
            .await
    } else {
        client.reconstruct_file_to_writer(b_terms, Arc::new(b_fi), 0, None, &out, None).await
    };
    assert_eq!(r2.unwrap(), 300);
    let right_after = std::fs::read(&dest).unwrap();

    // nobody touches the destination any more ...
    tokio::time::sleep(Duration::from_millis(2500)).await;
    let later = std::fs::read(&dest).unwrap();
    (vec![0xBBu8; 300], right_after, later)
}

#[tokio::test(flavor = "multi_thread", worker_threads = 4)]
async fn parallel_writer_leaves_writers_behind_after_an_error() {
    let (expect, right_after, later) = scenario(true).await;
    assert_eq!(right_after, expect, "output of the successful reconstruction, read when it returned");
    let first_diff = later.iter().zip(expect.iter()).position(|(a, b)| a != b);
    assert!(
        later == expect,
        "the output of the successful reconstruction of B (returned Ok(300)) was modified after the call returned: \
         len {} first differing offset {:?} byte there {:#x?} (0xa1 is chunk 1 of the FAILED reconstruction of A)",
        later.len(),
        first_diff,
        first_diff.map(|i| later[i])
    );
}

// control: the sequential writer does not leave anything behind
#[tokio::test(flavor = "multi_thread", worker_threads = 4)]
async fn control_sequential_writer() {
    let (expect, right_after, later) = scenario(false).await;
    assert_eq!(right_after, expect);
    assert_eq!(later, expect);
}

// C17 demo: with a chunk cache that is at capacity (every put evicts), ONE fault-free call of
// reconstruct_file_to_writer_parallel fails with ChunkCache(IO(NotFound)) / ChunkCache(IO(AlreadyExists)),
// depending on the order in which its own term tasks run. Nothing is injected: the server answers
// every request correctly, the disk is healthy. The sequential writer succeeds on the same plans.
//
// Mechanism: the term tasks of one call run concurrently on the thread pool and each one ends in
// cache.put(..)? (remote_client.rs:568). DiskCache::put_impl creates its temp file / renames it / stats it
// (file_utils SafeFileCreator + create_file) OUTSIDE the state lock, while the evicting put of a sibling task
// removes item files and tidies now-empty key directories (check_remove_dir), also outside the lock:
//   - create_dir_all(key_dir) ... metadata(key_dir)/open(tmp)   vs.  rmdir(key_dir) of the sibling   -> NotFound
//   - mkdir(key_dir)=EEXIST ... is_dir(key_dir)                 vs.  rmdir(key_dir)                 -> AlreadyExists
//   - rename(tmp, item); exists(item); metadata(item)           vs.  unlink(item) (same range put twice, evicted) -> NotFound
// The put error is propagated with `?`, so the reconstruction is aborted although all bytes were downloaded.
//
// run: cargo test --offline -p cas_client --test hunt_demo_cache_race -- --nocapture
// (schedule dependent; each round fails with probability of about 3%, 400 rounds are run:
//  in 10 out of 10 runs there were between 5 and 13 failing rounds)
use std::collections::HashMap;
use std::sync::Arc;

use cas_client::remote_client::RemoteClient;
use cas_client::{CacheConfig, FileProvider, OutputProvider};
use cas_object::{serialize_chunk, CompressionScheme};
use cas_types::{CASReconstructionFetchInfo, CASReconstructionTerm, ChunkRange, HexMerkleHash, HttpRange};
use httpmock::prelude::*;
use merklehash::MerkleHash;
use rand::rngs::StdRng;
use rand::{Rng, SeedableRng};
use xet_threadpool::ThreadPool;

const ROUNDS: usize = 400;
// holds about 9 of the 24 cache items (216 bytes each) the six xorbs are fetched as
const CACHE_BYTES: u64 = 2000;

async fn run(parallel: bool) -> Vec<String> {
    let mut rng = StdRng::seed_from_u64(1);
    let tp = ThreadPool::from_current_runtime();
    let tmp = tempfile::tempdir().unwrap();
    let server = MockServer::start_async().await;

    // 6 xorbs of 8 chunks of 100 bytes; every xorb is fetched as 4 ranges of 2 chunks
    let nx = 6;
    let mut fetch_info: HashMap<HexMerkleHash, Vec<CASReconstructionFetchInfo>> = HashMap::new();
    let mut xdata: Vec<(MerkleHash, Vec<Vec<u8>>)> = vec![];
    for i in 0..nx {
        let hash = MerkleHash::from([rng.gen::<u64>(), i as u64, 0, 0]);
        let mut ser = vec![];
        let mut offs = vec![0u32];
        let mut chunks = vec![];
        for _ in 0..8 {
            let c: Vec<u8> = (0..100).map(|_| rng.gen::<u8>()).collect();
            serialize_chunk(&c, &mut ser, Some(CompressionScheme::None)).unwrap();
            offs.push(ser.len() as u32);
            chunks.push(c);
        }
        let mut v = vec![];
        for s in (0..8).step_by(2) {
            let e = s + 2;
            let (bs, be) = (offs[s], offs[e] - 1);
            let path = format!("/x/{}", hash.hex());
            let body = ser[bs as usize..=be as usize].to_vec();
            let hdr = format!("bytes={bs}-{be}");
            let p2 = path.clone();
            server
                .mock_async(move |when, then| {
                    when.method(GET).path(p2).header("range", hdr);
                    then.status(206).body(body);
                })
                .await;
            v.push(CASReconstructionFetchInfo {
                range: ChunkRange {
                    start: s as u32,
                    end: e as u32,
                },
                url: server.url(path),
                url_range: HttpRange { start: bs, end: be },
            });
        }
        fetch_info.insert(HexMerkleHash(hash), v);
        xdata.push((hash, chunks));
    }
    let fetch_info = Arc::new(fetch_info);
    let cache = Some(CacheConfig {
        cache_directory: tmp.path().join(if parallel { "cache_par" } else { "cache_seq" }),
        cache_size: CACHE_BYTES,
    });
    let client = RemoteClient::new(tp, "http://localhost:1", None, &None, &cache, "".into(), false);

    let mut failures = vec![];
    for round in 0..ROUNDS {
        // one reconstruction at a time; plan: 24 terms of one or two chunks (repeated xorbs, fetch
        // ranges larger than terms)
        let mut terms = vec![];
        let mut expect = vec![];
        for _ in 0..24 {
            let xi = rng.gen_range(0..nx);
            let s = rng.gen_range(0..8);
            let e = if s % 2 == 0 && rng.gen_bool(0.5) { s + 2 } else { s + 1 };
            let d = xdata[xi].1[s..e].concat();
            terms.push(CASReconstructionTerm {
                hash: HexMerkleHash(xdata[xi].0),
                unpacked_length: d.len() as u32,
                range: ChunkRange {
                    start: s as u32,
                    end: e as u32,
                },
            });
            expect.extend_from_slice(&d);
        }
        let out = tmp.path().join(format!("out_{round}"));
        let provider = OutputProvider::File(FileProvider::new(out.clone()));
        let r = if parallel {
            client
                .reconstruct_file_to_writer_parallel(terms, fetch_info.clone(), 0, None, &provider, None)
                .await
        } else {
            client
                .reconstruct_file_to_writer(terms, fetch_info.clone(), 0, None, &provider, None)
                .await
        };
        match r {
            Err(e) => failures.push(format!("round {round}: Err({e:?})")),
            Ok(n) => {
                let got = std::fs::read(&out).unwrap();
                if n as usize != expect.len() || got != expect {
                    failures.push(format!("round {round}: wrong output, returned {n}, expected {} bytes", expect.len()));
                }
            },
        }
        let _ = std::fs::remove_file(&out);
    }
    failures
}

#[tokio::test(flavor = "multi_thread", worker_threads = 8)]
async fn parallel_writer_with_full_chunk_cache() {
    let failures = run(true).await;
    for f in &failures {
        eprintln!("{f}");
    }
    assert!(
        failures.is_empty(),
        "{} of {ROUNDS} fault-free parallel reconstructions failed (first: {})",
        failures.len(),
        failures[0]
    );
}

// control: same plans, same cache size, sequential writer
#[tokio::test(flavor = "multi_thread", worker_threads = 8)]
async fn control_sequential_writer_with_full_chunk_cache() {
    let failures = run(false).await;
    assert!(failures.is_empty(), "{failures:?}");
}

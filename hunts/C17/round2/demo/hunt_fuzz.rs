// differential fuzz of RemoteClient::{reconstruct_file_to_writer, reconstruct_file_to_writer_parallel}
use std::collections::HashMap;
use std::sync::Arc;

use cas_client::remote_client::RemoteClient;
use cas_client::{CacheConfig, FileProvider, OutputProvider};
use cas_object::{serialize_chunk, CompressionScheme};
use cas_types::{CASReconstructionFetchInfo, CASReconstructionTerm, ChunkRange, FileRange, HexMerkleHash, HttpRange};
use httpmock::prelude::*;
use merklehash::MerkleHash;
use rand::rngs::StdRng;
use rand::{Rng, SeedableRng};
use xet_threadpool::ThreadPool;

struct Xorb {
    hash: MerkleHash,
    chunks: Vec<Vec<u8>>,
    ser_offsets: Vec<u32>, // n+1
    ser: Vec<u8>,
}

fn make_xorb(rng: &mut StdRng, id: u64, n: usize) -> Xorb {
    let mut chunks = vec![];
    let mut ser = vec![];
    let mut ser_offsets = vec![0u32];
    for _ in 0..n {
        let len = rng.gen_range(1..std::env::var("MAXLEN").ok().and_then(|s| s.parse().ok()).unwrap_or(60usize));
        let compressible = rng.gen_bool(0.5);
        let c: Vec<u8> = if compressible {
            let b = rng.gen::<u8>();
            vec![b; len]
        } else {
            (0..len).map(|_| rng.gen::<u8>()).collect()
        };
        let scheme = if rng.gen_bool(0.5) {
            CompressionScheme::LZ4
        } else {
            CompressionScheme::None
        };
        serialize_chunk(&c, &mut ser, Some(scheme)).unwrap();
        ser_offsets.push(ser.len() as u32);
        chunks.push(c);
    }
    let mut h = [0u64; 4];
    h[0] = id + 1;
    h[1] = rng.gen();
    Xorb {
        hash: MerkleHash::from(h),
        chunks,
        ser_offsets,
        ser,
    }
}

#[tokio::test(flavor = "multi_thread", worker_threads = 4)]
async fn fuzz() {
    let seed: u64 = std::env::var("SEED").ok().and_then(|s| s.parse().ok()).unwrap_or(1);
    let iters: usize = std::env::var("ITERS").ok().and_then(|s| s.parse().ok()).unwrap_or(30);
    let mut rng = StdRng::seed_from_u64(seed);
    let tp = ThreadPool::from_current_runtime();
    let tmp = tempfile::tempdir().unwrap();

    for it in 0..iters {
        let server = MockServer::start_async().await;
        let nx = rng.gen_range(1..4);
        let xorbs: Vec<Xorb> = (0..nx)
            .map(|i| {
                let n = rng.gen_range(1..12);
                make_xorb(&mut rng, (it * 10 + i) as u64, n)
            })
            .collect();

        // terms
        let nt = rng.gen_range(1..std::env::var("MAXTERMS").ok().and_then(|s| s.parse().ok()).unwrap_or(8usize));
        let mut terms = vec![];
        let mut term_data: Vec<Vec<u8>> = vec![];
        for _ in 0..nt {
            let xi = rng.gen_range(0..nx);
            let x = &xorbs[xi];
            let s = rng.gen_range(0..x.chunks.len());
            let e = rng.gen_range(s + 1..=x.chunks.len());
            let d: Vec<u8> = x.chunks[s..e].concat();
            terms.push((
                xi,
                CASReconstructionTerm {
                    hash: HexMerkleHash(x.hash),
                    unpacked_length: d.len() as u32,
                    range: ChunkRange {
                        start: s as u32,
                        end: e as u32,
                    },
                },
            ));
            term_data.push(d);
        }
        // fetch info: per xorb, merge overlapping/adjacent term ranges, randomly extend
        let mut fetch_info: HashMap<HexMerkleHash, Vec<CASReconstructionFetchInfo>> = HashMap::new();
        for (xi, x) in xorbs.iter().enumerate() {
            let mut rs: Vec<(usize, usize)> = terms
                .iter()
                .filter(|(i, _)| *i == xi)
                .map(|(_, t)| (t.range.start as usize, t.range.end as usize))
                .collect();
            if rs.is_empty() {
                continue;
            }
            rs.sort();
            let mode = rng.gen_range(0..3);
            let mut merged: Vec<(usize, usize)> = vec![];
            for r in rs {
                let mut r = r;
                if mode == 2 {
                    // extend
                    r.0 = rng.gen_range(0..=r.0);
                    r.1 = rng.gen_range(r.1..=x.chunks.len());
                }
                if let Some(l) = merged.last_mut() {
                    let join = if mode == 0 { r.0 < l.1 } else { r.0 <= l.1 };
                    if join || (r.0 >= l.0 && r.1 <= l.1) {
                        l.1 = l.1.max(r.1);
                        l.0 = l.0.min(r.0);
                        continue;
                    }
                }
                merged.push(r);
            }
            merged.sort();
            // re-merge in case extension made overlaps going backwards
            let mut m2: Vec<(usize, usize)> = vec![];
            for r in merged {
                if let Some(l) = m2.last_mut() {
                    if r.0 < l.1 {
                        l.1 = l.1.max(r.1);
                        continue;
                    }
                }
                m2.push(r);
            }
            let mut v = vec![];
            for (s, e) in m2 {
                let bs = x.ser_offsets[s];
                let be = x.ser_offsets[e] - 1;
                let path = format!("/x/{}", x.hash.hex());
                let body = x.ser[bs as usize..=be as usize].to_vec();
                let hdr = format!("bytes={bs}-{be}");
                let p2 = path.clone();
                server
                    .mock_async(move |when, then| {
                        when.method(GET).path(p2).header("range", hdr);
                        then.status(206).body(body);
                    })
                    .await;
                v.push(CASReconstructionFetchInfo {
                    range: ChunkRange {
                        start: s as u32,
                        end: e as u32,
                    },
                    url: server.url(path),
                    url_range: HttpRange { start: bs, end: be },
                });
            }
            fetch_info.insert(HexMerkleHash(x.hash), v);
        }
        let fetch_info = Arc::new(fetch_info);
        let full: Vec<u8> = term_data.concat();

        // choose ranges
        let mut ranges: Vec<Option<(u64, u64)>> = vec![None];
        for _ in 0..4 {
            let a = rng.gen_range(0..full.len());
            let b = rng.gen_range(a + 1..=full.len());
            ranges.push(Some((a as u64, b as u64)));
        }
        ranges.push(Some((0, 1)));
        ranges.push(Some((full.len() as u64 - 1, full.len() as u64)));
        ranges.push(Some((0, full.len() as u64)));

        let cache_dir = tmp.path().join(format!("cache{it}"));
        let small_cache_dir = tmp.path().join(format!("scache{it}"));
        for (ri, r) in ranges.iter().enumerate() {
            // compute server view
            let (sub_terms, off, expect): (Vec<CASReconstructionTerm>, u64, Vec<u8>) = match r {
                None => (terms.iter().map(|t| t.1.clone()).collect(), 0, full.clone()),
                Some((a, b)) => {
                    let mut pos = 0u64;
                    let mut st = vec![];
                    let mut off = 0;
                    for (i, (_, t)) in terms.iter().enumerate() {
                        let l = term_data[i].len() as u64;
                        let (ts, te) = (pos, pos + l);
                        if te > *a && ts < *b {
                            if st.is_empty() {
                                off = a - ts;
                            }
                            st.push(t.clone());
                        }
                        pos = te;
                    }
                    (st, off, full[*a as usize..*b as usize].to_vec())
                },
            };
            for mode in 0..8 {
                let par = mode & 1 == 1;
                let cache = match mode >> 1 {
                    0 => None,
                    1 | 2 => Some(CacheConfig {
                        cache_directory: cache_dir.clone(),
                        cache_size: 1 << 30,
                    }),
                    _ => Some(CacheConfig {
                        cache_directory: small_cache_dir.clone(),
                        cache_size: 300,
                    }),
                };
                let client =
                    RemoteClient::new(tp.clone(), "http://localhost:1", None, &None, &cache, "".into(), false);
                let out = tmp.path().join(format!("out_{it}_{ri}_{mode}"));
                let provider = OutputProvider::File(FileProvider::new(out.clone()));
                let br = r.map(|(a, b)| FileRange { start: a, end: b });
                let res = if par {
                    client
                        .reconstruct_file_to_writer_parallel(sub_terms.clone(), fetch_info.clone(), off, br, &provider, None)
                        .await
                } else {
                    client
                        .reconstruct_file_to_writer(sub_terms.clone(), fetch_info.clone(), off, br, &provider, None)
                        .await
                };
                let n = match res {
                    Ok(n) => n,
                    Err(e) => panic!("seed {seed} it {it} range {r:?} mode {mode}: error {e:?}\nterms {sub_terms:?}\nfi {fetch_info:?}"),
                };
                let got = std::fs::read(&out).unwrap();
                assert_eq!(n as usize, expect.len(), "seed {seed} it {it} range {r:?} mode {mode}: len");
                assert_eq!(got, expect, "seed {seed} it {it} range {r:?} mode {mode}: bytes\nterms {sub_terms:?}\nfi {fetch_info:?}");
                std::fs::remove_file(&out).unwrap();
            }
        }
    }
}

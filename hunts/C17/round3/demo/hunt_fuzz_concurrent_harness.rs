// differential fuzz for C17 (scratch)
use std::collections::HashMap;
use std::path::PathBuf;
use std::sync::{Arc, Mutex};

use cas_client::{CacheConfig, FileProvider, OutputProvider, RemoteClient};
use cas_types::{CASReconstructionFetchInfo, CASReconstructionTerm, ChunkRange, FileRange, HexMerkleHash, HttpRange};
use merklehash::MerkleHash;
use rand::rngs::StdRng;
use rand::{Rng, SeedableRng};
use tokio::io::{AsyncReadExt, AsyncWriteExt};
use xet_threadpool::ThreadPool;

type Blobs = Arc<Mutex<HashMap<String, Arc<Vec<u8>>>>>;

async fn serve(listener: tokio::net::TcpListener, blobs: Blobs) {
    loop {
        let Ok((mut sock, _)) = listener.accept().await else { return };
        let blobs = blobs.clone();
        tokio::spawn(async move {
            let mut buf = Vec::new();
            loop {
                // read one request
                let mut tmp = [0u8; 4096];
                let pos;
                loop {
                    if let Some(p) = buf.windows(4).position(|w| w == b"\r\n\r\n") {
                        pos = p;
                        break;
                    }
                    match sock.read(&mut tmp).await {
                        Ok(0) | Err(_) => return,
                        Ok(n) => buf.extend_from_slice(&tmp[..n]),
                    }
                }
                let head = String::from_utf8_lossy(&buf[..pos]).to_string();
                buf.drain(..pos + 4);
                let mut lines = head.lines();
                let first = lines.next().unwrap_or("");
                let path = first.split_whitespace().nth(1).unwrap_or("").to_string();
                let mut range: Option<(usize, usize)> = None;
                for l in lines {
                    let ll = l.to_ascii_lowercase();
                    if let Some(v) = ll.strip_prefix("range:") {
                        let v = v.trim().trim_start_matches("bytes=");
                        let (a, b) = v.split_once('-').unwrap();
                        range = Some((a.parse().unwrap(), b.parse().unwrap()));
                    }
                }
                let blob = blobs.lock().unwrap().get(&path).cloned();
                let resp = match (blob, range) {
                    (Some(b), Some((s, e))) if e < b.len() && s <= e => {
                        let body = &b[s..=e];
                        let mut r = format!(
                            "HTTP/1.1 206 Partial Content\r\nContent-Length: {}\r\nContent-Range: bytes {}-{}/{}\r\n\r\n",
                            body.len(),
                            s,
                            e,
                            b.len()
                        )
                        .into_bytes();
                        r.extend_from_slice(body);
                        r
                    },
                    _ => b"HTTP/1.1 404 Not Found\r\nContent-Length: 0\r\n\r\n".to_vec(),
                };
                if sock.write_all(&resp).await.is_err() {
                    return;
                }
            }
        });
    }
}

struct Xorb {
    hash: MerkleHash,
    chunks: Vec<Vec<u8>>,
    ser_offsets: Vec<u32>, // serialized byte offset of each chunk start, plus end
}

fn make_xorb(rng: &mut StdRng, id: u64) -> (Xorb, Vec<u8>) {
    let n = rng.gen_range(1..12usize);
    let mut chunks = Vec::new();
    let mut ser = Vec::new();
    let mut offs = vec![0u32];
    for _ in 0..n {
        let len = rng.gen_range(1..300usize);
        let compressible = rng.gen_bool(0.5);
        let c: Vec<u8> = if compressible {
            let b: u8 = rng.gen();
            (0..len).map(|i| b.wrapping_add((i / 7) as u8)).collect()
        } else {
            (0..len).map(|_| rng.gen()).collect()
        };
        let scheme = match rng.gen_range(0..3) {
            0 => None,
            1 => Some(cas_object::CompressionScheme::LZ4),
            _ => Some(cas_object::CompressionScheme::None),
        };
        cas_object::serialize_chunk(&c, &mut ser, scheme).unwrap();
        offs.push(ser.len() as u32);
        chunks.push(c);
    }
    let mut h = [0u8; 32];
    h[..8].copy_from_slice(&id.to_le_bytes());
    h[8] = 0xaa;
    let hash = MerkleHash::from_slice(&h).unwrap();
    (
        Xorb {
            hash,
            chunks,
            ser_offsets: offs,
        },
        ser,
    )
}

#[test]
fn fuzz_differential() {
    let seed: u64 = std::env::var("SEED").ok().and_then(|s| s.parse().ok()).unwrap_or(1);
    let iters: usize = std::env::var("ITERS").ok().and_then(|s| s.parse().ok()).unwrap_or(150);
    let mut rng = StdRng::seed_from_u64(seed);
    let threadpool = Arc::new(ThreadPool::new().unwrap());
    let blobs: Blobs = Arc::new(Mutex::new(HashMap::new()));

    let b2 = blobs.clone();
    let addr = threadpool
        .external_run_async_task(async move {
            let l = tokio::net::TcpListener::bind("127.0.0.1:0").await.unwrap();
            let a = l.local_addr().unwrap();
            tokio::spawn(serve(l, b2));
            a
        })
        .unwrap();
    let base = format!("http://{addr}");

    let tmp = tempfile::tempdir().unwrap();
    let cache_dir_big = tmp.path().join("cache_big");
    let cache_dir_small = tmp.path().join("cache_small");

    let mk = |cfg: Option<CacheConfig>| {
        Arc::new(RemoteClient::new(threadpool.clone(), "http://unused", None, &None, &cfg, PathBuf::new(), false))
    };
    let clients = vec![
        ("nocache", mk(None)),
        (
            "bigcache",
            mk(Some(CacheConfig {
                cache_directory: cache_dir_big,
                cache_size: 1 << 30,
            })),
        ),
        (
            "smallcache",
            mk(Some(CacheConfig {
                cache_directory: cache_dir_small,
                cache_size: 3000,
            })),
        ),
    ];

    // a pool of xorbs shared between iterations so that the cache gets warm
    let mut xorbs = Vec::new();
    for id in 0..6u64 {
        let (x, ser) = make_xorb(&mut rng, id);
        blobs.lock().unwrap().insert(format!("/x/{}", x.hash.hex()), Arc::new(ser));
        xorbs.push(x);
    }

    let mut failures = Vec::new();
    for it in 0..iters {
        // plan
        let nterms = rng.gen_range(1..8usize);
        let mut all_terms: Vec<(usize, ChunkRange)> = Vec::new();
        for _ in 0..nterms {
            let xi = rng.gen_range(0..xorbs.len());
            let n = xorbs[xi].chunks.len() as u32;
            let s = rng.gen_range(0..n);
            let e = rng.gen_range(s + 1..=n);
            all_terms.push((xi, ChunkRange { start: s, end: e }));
        }
        let term_bytes = |xi: usize, r: &ChunkRange| -> Vec<u8> {
            xorbs[xi].chunks[r.start as usize..r.end as usize].concat()
        };
        let file: Vec<u8> = all_terms.iter().flat_map(|(xi, r)| term_bytes(*xi, r)).collect();
        // byte range
        let byte_range: Option<FileRange> = match rng.gen_range(0..4) {
            0 => None,
            1 => {
                let a = rng.gen_range(0..file.len() as u64);
                Some(FileRange { start: a, end: a + 1 })
            },
            2 => Some(FileRange {
                start: 0,
                end: file.len() as u64,
            }),
            _ => {
                let a = rng.gen_range(0..file.len() as u64);
                let b = rng.gen_range(a + 1..=file.len() as u64);
                Some(FileRange { start: a, end: b })
            },
        };
        // server-side: select terms for the range
        let (terms_sel, offset_into_first) = {
            let mut sel = Vec::new();
            let mut off_first = 0u64;
            let (a, b) = byte_range.map(|r| (r.start, r.end)).unwrap_or((0, file.len() as u64));
            let mut pos = 0u64;
            for (xi, r) in &all_terms {
                let l = term_bytes(*xi, r).len() as u64;
                let (ts, te) = (pos, pos + l);
                if te > a && ts < b {
                    if sel.is_empty() {
                        off_first = a - ts;
                    }
                    sel.push((*xi, *r, l as u32));
                }
                pos = te;
            }
            (sel, off_first)
        };
        let expected: Vec<u8> = match byte_range {
            None => file.clone(),
            Some(r) => file[r.start as usize..r.end as usize].to_vec(),
        };
        // fetch info: for every selected term a fetch range containing it (randomly widened), deduped
        let mut fetch_info: HashMap<HexMerkleHash, Vec<CASReconstructionFetchInfo>> = HashMap::new();
        for (xi, r, _) in &terms_sel {
            let x = &xorbs[*xi];
            let n = x.chunks.len() as u32;
            let e = fetch_info.entry(x.hash.into()).or_default();
            if e.iter().any(|f| f.range.start <= r.start && f.range.end >= r.end) && rng.gen_bool(0.7) {
                continue;
            }
            let fs = rng.gen_range(0..=r.start);
            let fe = rng.gen_range(r.end..=n);
            let fi = CASReconstructionFetchInfo {
                range: ChunkRange { start: fs, end: fe },
                url: format!("{base}/x/{}", x.hash.hex()),
                url_range: HttpRange {
                    start: x.ser_offsets[fs as usize],
                    end: x.ser_offsets[fe as usize] - 1,
                },
            };
            if !e.contains(&fi) {
                if rng.gen_bool(0.5) {
                    e.push(fi);
                } else {
                    e.insert(0, fi);
                }
            }
        }
        let terms: Vec<CASReconstructionTerm> = terms_sel
            .iter()
            .map(|(xi, r, l)| CASReconstructionTerm {
                hash: xorbs[*xi].hash.into(),
                unpacked_length: *l,
                range: *r,
            })
            .collect();
        let fetch_info = Arc::new(fetch_info);

        {
            // concurrent: all client/mode combos x2 at once
            let mut jobs = Vec::new();
            for (cname, client) in &clients {
                if *cname == "smallcache" && std::env::var("NOSMALL").is_ok() { continue; }
                for parallel in [false, true] {
                    for rep in 0..3 {
                        let out = tmp.path().join(format!("out_{it}_{cname}_{parallel}_{rep}"));
                        jobs.push((cname.to_string(), client.clone(), parallel, out));
                    }
                }
            }
            let terms2 = terms.clone();
            let fi2 = fetch_info.clone();
            let results = threadpool
                .external_run_async_task(async move {
                    let mut hs = Vec::new();
                    for (cname, client, parallel, out) in jobs {
                        let terms = terms2.clone();
                        let fi = fi2.clone();
                        hs.push(tokio::spawn(async move {
                            let provider = OutputProvider::File(FileProvider::new(out.clone()));
                            let r = if parallel {
                                client
                                    .reconstruct_file_to_writer_parallel(terms, fi, offset_into_first, byte_range, &provider, None)
                                    .await
                            } else {
                                client
                                    .reconstruct_file_to_writer(terms, fi, offset_into_first, byte_range, &provider, None)
                                    .await
                            };
                            (cname, parallel, out, r.map_err(|e| format!("{e:?}")))
                        }));
                    }
                    let mut v = Vec::new();
                    for h in hs {
                        v.push(h.await.unwrap());
                    }
                    v
                })
                .unwrap();
            for (cname, parallel, out, res) in results {
                let got = std::fs::read(&out).unwrap_or_default();
                let _ = std::fs::remove_file(&out);
                match res {
                    Ok(n) => {
                        if n != expected.len() as u64 || got != expected {
                            failures.push(format!(
                                "it {it} {cname} parallel={parallel}: len ret {n} file {} expected {} equal={}",
                                got.len(),
                                expected.len(),
                                got == expected
                            ));
                        }
                    },
                    Err(e) => failures.push(format!("it {it} {cname} parallel={parallel}: error {e}")),
                }
            }
        }
    }
    for f in &failures {
        eprintln!("{f}");
    }
    assert!(failures.is_empty(), "{} failures", failures.len());
}

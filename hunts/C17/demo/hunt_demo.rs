//! Demonstrations for property C17 (file reconstruction writes exactly the requested bytes).
//! Every test here states the behaviour the property requires and FAILS on the current source.
//!
//! Run (from the repository root):
//!   cargo test --offline -p cas_client --test hunt_demo -- --test-threads=1

use std::collections::HashMap;
use std::io::{Read, Write};
use std::net::TcpListener;
use std::path::Path;
use std::sync::Arc;
use std::time::Duration;

use cas_client::{CacheConfig, FileProvider, OutputProvider, RemoteClient};
use cas_object::{serialize_chunk, CompressionScheme};
use cas_types::{
    CASReconstructionFetchInfo, CASReconstructionTerm, ChunkRange, FileRange, HexMerkleHash, HttpRange,
};
use httpmock::prelude::*;
use merklehash::compute_data_hash;
use xet_threadpool::ThreadPool;

const CHUNK_LEN: usize = 10;

/// A serialized xorb chunk stream plus the byte offset of every serialized chunk.
struct Xorb {
    hash: HexMerkleHash,
    chunks: Vec<Vec<u8>>,
    serialized: Vec<u8>,
    /// serialized byte offset of chunk i (n_chunks + 1 entries)
    offsets: Vec<usize>,
}

impl Xorb {
    /// chunk i is CHUNK_LEN bytes of value (tag + i)
    fn new(name: &str, tag: u8, n_chunks: usize) -> Self {
        let mut serialized = Vec::new();
        let mut offsets = vec![0usize];
        let mut chunks = Vec::new();
        for i in 0..n_chunks {
            let chunk = vec![tag + i as u8; CHUNK_LEN];
            serialize_chunk(&chunk, &mut serialized, Some(CompressionScheme::None)).unwrap();
            offsets.push(serialized.len());
            chunks.push(chunk);
        }
        Self {
            hash: HexMerkleHash(compute_data_hash(name.as_bytes())),
            chunks,
            serialized,
            offsets,
        }
    }

    /// inclusive-end http byte range covering the chunk range
    fn url_range(&self, r: std::ops::Range<usize>) -> HttpRange {
        HttpRange {
            start: self.offsets[r.start] as u32,
            end: self.offsets[r.end] as u32 - 1,
        }
    }

    fn body(&self, r: std::ops::Range<usize>) -> Vec<u8> {
        self.serialized[self.offsets[r.start]..self.offsets[r.end]].to_vec()
    }

    fn data(&self, r: std::ops::Range<usize>) -> Vec<u8> {
        self.chunks[r].concat()
    }

    fn term(&self, r: std::ops::Range<usize>) -> CASReconstructionTerm {
        CASReconstructionTerm {
            hash: self.hash,
            unpacked_length: (r.len() * CHUNK_LEN) as u32,
            range: ChunkRange {
                start: r.start as u32,
                end: r.end as u32,
            },
        }
    }

    fn fetch(&self, r: std::ops::Range<usize>, url: String) -> CASReconstructionFetchInfo {
        CASReconstructionFetchInfo {
            range: ChunkRange {
                start: r.start as u32,
                end: r.end as u32,
            },
            url,
            url_range: self.url_range(r),
        }
    }
}

fn range_hdr(r: &HttpRange) -> String {
    format!("bytes={}-{}", r.start, r.end)
}

fn client(cache_dir: Option<&Path>) -> RemoteClient {
    let cache = cache_dir.map(|d| CacheConfig {
        cache_directory: d.to_path_buf(),
        cache_size: 1 << 20,
    });
    RemoteClient::new(ThreadPool::from_current_runtime(), "http://localhost:1", None, &None, &cache, "".into(), false)
}

#[derive(Clone, Copy, Debug, PartialEq)]
enum Mode {
    Sequential,
    Parallel,
}

async fn reconstruct(
    client: &RemoteClient,
    mode: Mode,
    terms: Vec<CASReconstructionTerm>,
    fetch_info: HashMap<HexMerkleHash, Vec<CASReconstructionFetchInfo>>,
    offset_into_first_range: u64,
    byte_range: Option<FileRange>,
    out: &Path,
) -> Result<u64, cas_client::CasClientError> {
    let provider = OutputProvider::File(FileProvider::new(out.to_path_buf()));
    match mode {
        Mode::Sequential => {
            client
                .reconstruct_file_to_writer(terms, Arc::new(fetch_info), offset_into_first_range, byte_range, &provider, None)
                .await
        },
        Mode::Parallel => {
            client
                .reconstruct_file_to_writer_parallel(
                    terms,
                    Arc::new(fetch_info),
                    offset_into_first_range,
                    byte_range,
                    &provider,
                    None,
                )
                .await
        },
    }
}

// ---------------------------------------------------------------------------------------------
// Finding 1: the download single-flight is keyed on the fetch URL only, not on (URL, url_range).
// Two fetch_info entries of the same xorb that share the blob URL but address different byte
// ranges are collapsed into one download when they are in flight together; the second term
// silently receives the FIRST range's bytes (the length check passes when both terms unpack to
// the same length) and the wrong bytes are additionally stored in the chunk cache under the
// second range, so later warm reads are wrong too.
// ---------------------------------------------------------------------------------------------

/// plan: file = xorb[0,1) ++ xorb[2,3); two fetch ranges, one blob URL, different url_range.
fn same_url_plan(
    x: &Xorb,
    url: String,
) -> (Vec<CASReconstructionTerm>, HashMap<HexMerkleHash, Vec<CASReconstructionFetchInfo>>, Vec<u8>) {
    let terms = vec![x.term(0..1), x.term(2..3)];
    let fetch_info = HashMap::from([(x.hash, vec![x.fetch(0..1, url.clone()), x.fetch(2..3, url)])]);
    let expected = [x.data(0..1), x.data(2..3)].concat();
    (terms, fetch_info, expected)
}

fn same_url_server(x: &Xorb, delay_ms: u64) -> MockServer {
    let server = MockServer::start();
    for r in [0..1usize, 2..3usize] {
        let hdr = range_hdr(&x.url_range(r.clone()));
        let body = x.body(r);
        server.mock(|when, then| {
            when.method(GET).path("/blob/xorb1").header("range", hdr.as_str());
            then.status(206).body(body).delay(Duration::from_millis(delay_ms));
        });
    }
    server
}

async fn f1_same_url_two_ranges(mode: Mode) {
    let x = Xorb::new("xorb1", 0x10, 4);
    let server = same_url_server(&x, 300);
    let (terms, fetch_info, expected) = same_url_plan(&x, server.url("/blob/xorb1"));

    let dir = tempfile::tempdir().unwrap();
    let out = dir.path().join("out.bin");
    let c = client(None);
    let n = reconstruct(&c, mode, terms, fetch_info, 0, None, &out).await.unwrap();
    let got = std::fs::read(&out).unwrap();
    assert_eq!(n, expected.len() as u64);
    assert_eq!(
        got, expected,
        "{mode:?}: output differs from the concatenated term data (second term got the bytes of the other url_range)"
    );
}

#[tokio::test(flavor = "multi_thread", worker_threads = 4)]
async fn f1a_same_url_two_ranges_sequential() {
    f1_same_url_two_ranges(Mode::Sequential).await;
}

#[tokio::test(flavor = "multi_thread", worker_threads = 4)]
async fn f1b_same_url_two_ranges_parallel() {
    f1_same_url_two_ranges(Mode::Parallel).await;
}

/// the wrong bytes are stored in the chunk cache: a later, completely serial (no two downloads
/// in flight) warm read of the same plan is still wrong, and differs from a cold read without cache.
#[tokio::test(flavor = "multi_thread", worker_threads = 4)]
async fn f1c_same_url_poisons_chunk_cache() {
    let x = Xorb::new("xorb1", 0x10, 4);
    let server = same_url_server(&x, 300);
    let url = server.url("/blob/xorb1");
    let dir = tempfile::tempdir().unwrap();
    let cache_dir = dir.path().join("cache");
    std::fs::create_dir_all(&cache_dir).unwrap();

    // run 1: cold, cache on (result ignored here, f1a shows it is wrong)
    let (terms, fetch_info, expected) = same_url_plan(&x, url.clone());
    let c = client(Some(&cache_dir));
    let _ = reconstruct(&c, Mode::Sequential, terms, fetch_info, 0, None, &dir.path().join("out1.bin")).await;

    // run 2: warm, one term at a time (second term only): nothing concurrent any more
    let terms = vec![x.term(2..3)];
    let fetch_info = HashMap::from([(x.hash, vec![x.fetch(2..3, url)])]);
    let out2 = dir.path().join("out2.bin");
    let n = reconstruct(&c, Mode::Sequential, terms, fetch_info, 0, None, &out2).await.unwrap();
    assert_eq!(n, CHUNK_LEN as u64);
    assert_eq!(
        std::fs::read(&out2).unwrap(),
        expected[CHUNK_LEN..].to_vec(),
        "warm (chunk cache) read of xorb chunk [2,3) returns the bytes of chunk [0,1)"
    );
}

// ---------------------------------------------------------------------------------------------
// Finding 2: neither writer truncates / sizes the output file. The output is opened with
// create(true).truncate(false) and only the reconstructed bytes are overwritten, so when the
// destination already exists and is longer (re-download of a file that became shorter, the
// normal `hf_xet download_files` flow writes straight to the destination path) the output file
// is the reconstructed bytes FOLLOWED BY the stale tail; the returned length says otherwise.
// ---------------------------------------------------------------------------------------------
async fn f2_stale_tail(mode: Mode) {
    let x = Xorb::new("xorb2", 0x20, 2);
    let server = MockServer::start();
    let hdr = range_hdr(&x.url_range(0..2));
    let body = x.body(0..2);
    server.mock(|when, then| {
        when.method(GET).path("/blob/xorb2").header("range", hdr.as_str());
        then.status(206).body(body);
    });
    let terms = vec![x.term(0..2)];
    let fetch_info = HashMap::from([(x.hash, vec![x.fetch(0..2, server.url("/blob/xorb2"))])]);
    let expected = x.data(0..2);

    let dir = tempfile::tempdir().unwrap();
    let out = dir.path().join("out.bin");
    // an older, longer version of the file is already at the destination
    std::fs::File::create(&out).unwrap().write_all(&[0xEE; 100]).unwrap();

    let c = client(None);
    let n = reconstruct(&c, mode, terms, fetch_info, 0, None, &out).await.unwrap();
    let got = std::fs::read(&out).unwrap();
    assert_eq!(n, expected.len() as u64);
    assert_eq!(got.len(), expected.len(), "{mode:?}: reported {n} bytes but the output file has {} bytes", got.len());
    assert_eq!(got, expected);
}

#[tokio::test(flavor = "multi_thread", worker_threads = 4)]
async fn f2a_stale_tail_sequential() {
    f2_stale_tail(Mode::Sequential).await;
}

#[tokio::test(flavor = "multi_thread", worker_threads = 4)]
async fn f2b_stale_tail_parallel() {
    f2_stale_tail(Mode::Parallel).await;
}

// ---------------------------------------------------------------------------------------------
// Finding 3: the sequential writer reports `byte_range.end - byte_range.start` instead of the
// bytes it wrote, the parallel writer reports the bytes written. They disagree (and the
// sequential one is wrong) as soon as the plan holds fewer bytes than the range asks for
// (range end past the end of the file, which the server clamps).
// ---------------------------------------------------------------------------------------------
#[tokio::test(flavor = "multi_thread", worker_threads = 4)]
async fn f3_sequential_reports_range_len_not_bytes_written() {
    let x = Xorb::new("xorb3", 0x30, 2);
    let server = MockServer::start();
    let hdr = range_hdr(&x.url_range(0..2));
    let body = x.body(0..2);
    server.mock(|when, then| {
        when.method(GET).path("/blob/xorb3").header("range", hdr.as_str());
        then.status(206).body(body);
    });
    // file is 20 bytes; caller asks for bytes [5, 50): server answers with the one term and offset 5
    let mk = || {
        (
            vec![x.term(0..2)],
            HashMap::from([(x.hash, vec![x.fetch(0..2, server.url("/blob/xorb3"))])]),
        )
    };
    let expected = x.data(0..2)[5..].to_vec();
    let dir = tempfile::tempdir().unwrap();
    let c = client(None);

    let (terms, fi) = mk();
    let out_p = dir.path().join("par.bin");
    let n_par = reconstruct(&c, Mode::Parallel, terms, fi, 5, Some(FileRange { start: 5, end: 50 }), &out_p)
        .await
        .unwrap();
    let (terms, fi) = mk();
    let out_s = dir.path().join("seq.bin");
    let n_seq = reconstruct(&c, Mode::Sequential, terms, fi, 5, Some(FileRange { start: 5, end: 50 }), &out_s)
        .await
        .unwrap();

    assert_eq!(std::fs::read(&out_p).unwrap(), expected);
    assert_eq!(std::fs::read(&out_s).unwrap(), expected);
    assert_eq!(n_par, expected.len() as u64);
    assert_eq!(n_seq, expected.len() as u64, "sequential writer reported {n_seq} bytes but wrote {}", expected.len());
}

// ---------------------------------------------------------------------------------------------
// Finding 4: state left over after an error in the sequential writer. When a term fails, the
// function returns and drops the still-buffered term futures. A dropped future that OWNED a
// single-flight download never removes its entry from the single-flight map (the detached owner
// task still completes the Call). The finished Call, with whatever result it got, stays in the
// RemoteClient forever: every later reconstruction that needs that URL is answered from the
// stale Call without any request being sent. Here the stale result is a transient 404.
// ---------------------------------------------------------------------------------------------
#[tokio::test(flavor = "multi_thread", worker_threads = 4)]
async fn f4_stale_singleflight_entry_after_sequential_error() {
    let a = Xorb::new("xorb4a", 0x40, 1);
    let u = Xorb::new("xorb4u", 0x50, 1);
    let missing = Xorb::new("xorb4-missing", 0x60, 1);
    let server = MockServer::start();
    let a_hdr = range_hdr(&a.url_range(0..1));
    let a_body = a.body(0..1);
    server.mock(|when, then| {
        when.method(GET).path("/blob/a").header("range", a_hdr.as_str());
        then.status(206).body(a_body).delay(Duration::from_millis(100));
    });
    // transient failure of the blob store for /blob/u, answered slowly
    let mut u_fail = server.mock(|when, then| {
        when.method(GET).path("/blob/u");
        then.status(404).delay(Duration::from_millis(400));
    });

    let c = client(None);
    let dir = tempfile::tempdir().unwrap();

    // call 1: term 0 fine, term 1 has no fetch_info (fails at once), term 2 in flight on /blob/u
    let terms = vec![a.term(0..1), missing.term(0..1), u.term(0..1)];
    let fetch_info = HashMap::from([
        (a.hash, vec![a.fetch(0..1, server.url("/blob/a"))]),
        (u.hash, vec![u.fetch(0..1, server.url("/blob/u"))]),
    ]);
    let r1 = reconstruct(&c, Mode::Sequential, terms, fetch_info, 0, None, &dir.path().join("o1.bin")).await;
    assert!(r1.is_err(), "call 1 is expected to fail (bad plan)");

    // let the detached download finish, then the blob store recovers
    tokio::time::sleep(Duration::from_millis(900)).await;
    u_fail.delete();
    let u_hdr = range_hdr(&u.url_range(0..1));
    let u_body = u.body(0..1);
    let u_ok = server.mock(|when, then| {
        when.method(GET).path("/blob/u").header("range", u_hdr.as_str());
        then.status(206).body(u_body);
    });

    // call 2: a perfectly valid one-term plan against a healthy server
    let terms = vec![u.term(0..1)];
    let fetch_info = HashMap::from([(u.hash, vec![u.fetch(0..1, server.url("/blob/u"))])]);
    let out2 = dir.path().join("o2.bin");
    let r2 = reconstruct(&c, Mode::Sequential, terms, fetch_info, 0, None, &out2).await;
    let hits = u_ok.hits();
    assert!(
        r2.is_ok(),
        "call 2 failed with {:?} although the server is healthy; requests sent for it: {hits}",
        r2.as_ref().err()
    );
    assert_eq!(std::fs::read(&out2).unwrap(), u.data(0..1));
}

// ---------------------------------------------------------------------------------------------
// Finding 5: a blob response that ends early but cleanly (no Content-Length, e.g. chunked
// transfer through a proxy) is accepted as "fewer chunks" by the chunk deserializer
// (UnexpectedEof == end of stream). When the term is a sub-range of the fetch range the trim
// step indexes chunk_byte_indices past its end and PANICS instead of returning the length /
// range error the other paths return. In the sequential writer the panic unwinds into the caller.
// ---------------------------------------------------------------------------------------------
fn chunked_server(body: Vec<u8>) -> String {
    let listener = TcpListener::bind("127.0.0.1:0").unwrap();
    let addr = listener.local_addr().unwrap();
    std::thread::spawn(move || {
        for stream in listener.incoming() {
            let Ok(mut s) = stream else { continue };
            let mut buf = [0u8; 4096];
            let mut req = Vec::new();
            while !req.windows(4).any(|w| w == b"\r\n\r\n") {
                match s.read(&mut buf) {
                    Ok(0) | Err(_) => break,
                    Ok(n) => req.extend_from_slice(&buf[..n]),
                }
            }
            let mut resp = Vec::new();
            resp.extend_from_slice(b"HTTP/1.1 206 Partial Content\r\nTransfer-Encoding: chunked\r\nConnection: close\r\n\r\n");
            resp.extend_from_slice(format!("{:x}\r\n", body.len()).as_bytes());
            resp.extend_from_slice(&body);
            resp.extend_from_slice(b"\r\n0\r\n\r\n");
            let _ = s.write_all(&resp);
            let _ = s.flush();
        }
    });
    format!("http://{addr}/blob/xorb5")
}

#[tokio::test(flavor = "multi_thread", worker_threads = 4)]
async fn f5_short_blob_response_panics_in_trim() {
    let x = Xorb::new("xorb5", 0x70, 4);
    // the fetch range claims chunks [0,4) but the body carries chunks [0,2) and half of chunk 2
    let mut body = x.body(0..2);
    body.extend_from_slice(&x.body(2..3)[..9]);
    let url = chunked_server(body);

    let terms = vec![x.term(2..4)];
    let fetch_info = HashMap::from([(x.hash, vec![x.fetch(0..4, url)])]);
    let dir = tempfile::tempdir().unwrap();
    let out = dir.path().join("out.bin");
    let c = Arc::new(client(None));
    let c2 = c.clone();
    // run in a task so that the panic is observable as a JoinError instead of killing the test
    let joined = tokio::spawn(async move {
        reconstruct(&c2, Mode::Sequential, terms, fetch_info, 0, None, &out).await.map_err(|e| format!("{e:?}"))
    })
    .await;
    match joined {
        Ok(Err(e)) => println!("returned an error as it should: {e}"),
        Ok(Ok(n)) => panic!("truncated blob accepted, {n} bytes reported"),
        Err(join_err) => panic!("reconstruct_file_to_writer panicked instead of returning an error: {join_err}"),
    }
}

// ---------------------------------------------------------------------------------------------
// Controls (these PASS): the harness itself is sound and the failures above are caused by the
// specific trigger of each finding, not by the mock server / plan construction.
// ---------------------------------------------------------------------------------------------

/// same plan as finding 1 but every fetch range has its own URL: correct in both modes.
#[tokio::test(flavor = "multi_thread", worker_threads = 4)]
async fn control_f1_distinct_urls_are_fine() {
    let x = Xorb::new("xorb1", 0x10, 4);
    let server = MockServer::start();
    for (i, r) in [0..1usize, 2..3usize].into_iter().enumerate() {
        let hdr = range_hdr(&x.url_range(r.clone()));
        let body = x.body(r);
        server.mock(|when, then| {
            when.method(GET).path(format!("/blob/xorb1/{i}")).header("range", hdr.as_str());
            then.status(206).body(body).delay(Duration::from_millis(300));
        });
    }
    for mode in [Mode::Sequential, Mode::Parallel] {
        let terms = vec![x.term(0..1), x.term(2..3)];
        let fetch_info = HashMap::from([(
            x.hash,
            vec![x.fetch(0..1, server.url("/blob/xorb1/0")), x.fetch(2..3, server.url("/blob/xorb1/1"))],
        )]);
        let expected = [x.data(0..1), x.data(2..3)].concat();
        let dir = tempfile::tempdir().unwrap();
        let out = dir.path().join("out.bin");
        let c = client(None);
        let n = reconstruct(&c, mode, terms, fetch_info, 0, None, &out).await.unwrap();
        assert_eq!(n, expected.len() as u64);
        assert_eq!(std::fs::read(&out).unwrap(), expected);
    }
}

/// finding 4 control: the recovered server answers a FRESH client correctly (the stale state lives in the client).
#[tokio::test(flavor = "multi_thread", worker_threads = 4)]
async fn control_f4_fresh_client_is_fine() {
    let u = Xorb::new("xorb4u", 0x50, 1);
    let server = MockServer::start();
    let u_hdr = range_hdr(&u.url_range(0..1));
    let u_body = u.body(0..1);
    server.mock(|when, then| {
        when.method(GET).path("/blob/u").header("range", u_hdr.as_str());
        then.status(206).body(u_body);
    });
    let dir = tempfile::tempdir().unwrap();
    let out = dir.path().join("o.bin");
    let terms = vec![u.term(0..1)];
    let fetch_info = HashMap::from([(u.hash, vec![u.fetch(0..1, server.url("/blob/u"))])]);
    let c = client(None);
    reconstruct(&c, Mode::Sequential, terms, fetch_info, 0, None, &out).await.unwrap();
    assert_eq!(std::fs::read(&out).unwrap(), u.data(0..1));
}

/// finding 5 control: the same chunked server with the complete body works.
#[tokio::test(flavor = "multi_thread", worker_threads = 4)]
async fn control_f5_complete_chunked_body_is_fine() {
    let x = Xorb::new("xorb5", 0x70, 4);
    let url = chunked_server(x.body(0..4));
    let terms = vec![x.term(2..4)];
    let fetch_info = HashMap::from([(x.hash, vec![x.fetch(0..4, url)])]);
    let dir = tempfile::tempdir().unwrap();
    let out = dir.path().join("out.bin");
    let c = client(None);
    let n = reconstruct(&c, Mode::Sequential, terms, fetch_info, 0, None, &out).await.unwrap();
    assert_eq!(n, 20);
    assert_eq!(std::fs::read(&out).unwrap(), x.data(2..4));
}

/// Randomised differential exploration (PASSES): distinct URL per fetch range, fresh output file,
/// ranges inside the file. modes x cache(off / cold / warm) all agree with the model.
#[tokio::test(flavor = "multi_thread", worker_threads = 4)]
async fn control_random_plans_agree_with_model() {
    use rand::rngs::StdRng;
    use rand::{Rng, SeedableRng};
    let mut rng = StdRng::seed_from_u64(17);
    let server = MockServer::start();
    for iter in 0..25 {
        // 1..3 xorbs with 3..8 chunks of differing sizes
        let n_xorbs = rng.gen_range(1..=3);
        let mut xorbs = Vec::new();
        for xi in 0..n_xorbs {
            let n_chunks = rng.gen_range(3..=8);
            let mut serialized = Vec::new();
            let mut offsets = vec![0usize];
            let mut chunks = Vec::new();
            for _ in 0..n_chunks {
                let len = rng.gen_range(1..=40);
                let chunk: Vec<u8> = (0..len).map(|_| rng.gen()).collect();
                serialize_chunk(&chunk, &mut serialized, Some(CompressionScheme::None)).unwrap();
                offsets.push(serialized.len());
                chunks.push(chunk);
            }
            xorbs.push(Xorb {
                hash: HexMerkleHash(compute_data_hash(format!("rand-{iter}-{xi}").as_bytes())),
                chunks,
                serialized,
                offsets,
            });
        }
        // fetch ranges: partition each xorb's chunks in 1..3 consecutive fetch ranges
        let mut fetch_info: HashMap<HexMerkleHash, Vec<CASReconstructionFetchInfo>> = HashMap::new();
        let mut fetch_ranges: Vec<Vec<std::ops::Range<usize>>> = Vec::new();
        for (xi, x) in xorbs.iter().enumerate() {
            let n = x.chunks.len();
            let cut1 = rng.gen_range(1..n);
            let parts = if rng.gen_bool(0.5) { vec![0..n] } else { vec![0..cut1, cut1..n] };
            let mut v = Vec::new();
            for (pi, p) in parts.iter().enumerate() {
                let path = format!("/r/{iter}/{xi}/{pi}");
                let hdr = range_hdr(&x.url_range(p.clone()));
                let body = x.body(p.clone());
                let delay = rng.gen_range(0..30);
                let path2 = path.clone();
                server.mock(|when, then| {
                    when.method(GET).path(path2).header("range", hdr.as_str());
                    then.status(206).body(body).delay(Duration::from_millis(delay));
                });
                v.push(x.fetch(p.clone(), server.url(path)));
            }
            fetch_info.insert(x.hash, v);
            fetch_ranges.push(parts);
        }
        // terms: 1..6 terms, each a sub-range of some fetch range (repeats allowed)
        let n_terms = rng.gen_range(1..=6);
        let mut terms = Vec::new();
        let mut full = Vec::new();
        for _ in 0..n_terms {
            let xi = rng.gen_range(0..n_xorbs);
            let parts = &fetch_ranges[xi];
            let p = parts[rng.gen_range(0..parts.len())].clone();
            let s = rng.gen_range(p.start..p.end);
            let e = rng.gen_range(s + 1..=p.end);
            let x = &xorbs[xi];
            let data = x.data(s..e);
            terms.push(CASReconstructionTerm {
                hash: x.hash,
                unpacked_length: data.len() as u32,
                range: ChunkRange { start: s as u32, end: e as u32 },
            });
            full.push(data);
        }
        // byte range: None or [a,b) inside the file; server drops terms outside and reports the offset
        let file: Vec<u8> = full.concat();
        let (plan_terms, offset, byte_range, expected) = if rng.gen_bool(0.3) {
            (terms.clone(), 0u64, None, file.clone())
        } else {
            let a = rng.gen_range(0..file.len());
            let b = match rng.gen_range(0..3) {
                0 => a + 1,
                1 => file.len(),
                _ => rng.gen_range(a + 1..=file.len()),
            };
            let mut pos = 0usize;
            let mut kept = Vec::new();
            let mut off = 0u64;
            for (t, d) in terms.iter().zip(full.iter()) {
                let (ts, te) = (pos, pos + d.len());
                if te > a && ts < b {
                    if kept.is_empty() {
                        off = (a - ts) as u64;
                    }
                    kept.push(t.clone());
                }
                pos = te;
            }
            (kept, off, Some(FileRange { start: a as u64, end: b as u64 }), file[a..b].to_vec())
        };

        let dir = tempfile::tempdir().unwrap();
        let cache_dir = dir.path().join("cache");
        std::fs::create_dir_all(&cache_dir).unwrap();
        let fi = fetch_info;
        for mode in [Mode::Sequential, Mode::Parallel] {
            // cache off
            let out = dir.path().join(format!("off-{mode:?}.bin"));
            let c = client(None);
            let n = reconstruct(&c, mode, plan_terms.clone(), fi.clone(), offset, byte_range, &out).await.unwrap();
            assert_eq!(n, expected.len() as u64, "iter {iter} {mode:?} off");
            assert_eq!(std::fs::read(&out).unwrap(), expected, "iter {iter} {mode:?} off");
            // cache cold then warm
            let c = client(Some(&cache_dir));
            for pass in ["cold", "warm"] {
                let out = dir.path().join(format!("{pass}-{mode:?}.bin"));
                let n = reconstruct(&c, mode, plan_terms.clone(), fi.clone(), offset, byte_range, &out).await.unwrap();
                assert_eq!(n, expected.len() as u64, "iter {iter} {mode:?} {pass}");
                assert_eq!(std::fs::read(&out).unwrap(), expected, "iter {iter} {mode:?} {pass}");
            }
        }
    }
}

// ---------------------------------------------------------------------------------------------
// Finding 6: the chunk cache is best-effort on the read side (a failing cache.get is logged and
// the term is downloaded) but a failing cache.put aborts the whole reconstruction although the
// term bytes were downloaded correctly. With an unusable cache volume "cache on" fails where
// "cache off" produces the file. (The cache volume failure is injected by replacing the cache
// root directory with a regular file after the client was built.)
// ---------------------------------------------------------------------------------------------
#[tokio::test(flavor = "multi_thread", worker_threads = 4)]
async fn f6_cache_put_failure_fails_the_download() {
    let x = Xorb::new("xorb6", 0x80, 2);
    let server = MockServer::start();
    let hdr = range_hdr(&x.url_range(0..2));
    let body = x.body(0..2);
    server.mock(|when, then| {
        when.method(GET).path("/blob/xorb6").header("range", hdr.as_str());
        then.status(206).body(body);
    });
    let mk = || {
        (
            vec![x.term(0..2)],
            HashMap::from([(x.hash, vec![x.fetch(0..2, server.url("/blob/xorb6"))])]),
        )
    };
    let dir = tempfile::tempdir().unwrap();

    // cache off: fine
    let (terms, fi) = mk();
    let out_off = dir.path().join("off.bin");
    reconstruct(&client(None), Mode::Sequential, terms, fi, 0, None, &out_off).await.unwrap();
    assert_eq!(std::fs::read(&out_off).unwrap(), x.data(0..2));

    // cache on, cache volume becomes unusable after start-up
    let cache_dir = dir.path().join("cache");
    std::fs::create_dir_all(&cache_dir).unwrap();
    let c = client(Some(&cache_dir));
    std::fs::remove_dir(&cache_dir).unwrap();
    std::fs::write(&cache_dir, b"not a directory").unwrap();

    for mode in [Mode::Sequential, Mode::Parallel] {
        let (terms, fi) = mk();
        let out_on = dir.path().join(format!("on-{mode:?}.bin"));
        let r = reconstruct(&c, mode, terms, fi, 0, None, &out_on).await;
        assert!(r.is_ok(), "{mode:?}: cache on failed with {:?}; cache off produced the file", r.err());
        assert_eq!(std::fs::read(&out_on).unwrap(), x.data(0..2));
    }
}

// ---------------------------------------------------------------------------------------------
// Note (outside the stated domain "1..many terms"): for a plan with no terms (empty file) the
// sequential writer creates an empty output file, the parallel writer creates nothing at all.
// ---------------------------------------------------------------------------------------------
#[tokio::test(flavor = "multi_thread", worker_threads = 4)]
async fn note_empty_plan_parallel_creates_no_file() {
    let dir = tempfile::tempdir().unwrap();
    let c = client(None);
    let out_s = dir.path().join("seq.bin");
    let out_p = dir.path().join("par.bin");
    assert_eq!(reconstruct(&c, Mode::Sequential, vec![], HashMap::new(), 0, None, &out_s).await.unwrap(), 0);
    assert_eq!(reconstruct(&c, Mode::Parallel, vec![], HashMap::new(), 0, None, &out_p).await.unwrap(), 0);
    assert!(out_s.exists(), "sequential writer created no file");
    assert!(out_p.exists(), "parallel writer created no output file for an empty plan (sequential did)");
}

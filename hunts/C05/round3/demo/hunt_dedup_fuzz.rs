// Fuzz FileDeduper: every file segment must point at chunks that really are the file's chunks.
use std::collections::HashMap;
use std::future::Future;
use std::pin::pin;
use std::sync::{Arc, Mutex};
use std::task::{Context, Poll, Waker};

use async_trait::async_trait;
use deduplication::{Chunk, DeduplicationDataInterface, FileDeduper, RawXorbData};
use mdb_shard::file_structs::FileDataSequenceEntry;
use mdb_shard::shard_in_memory::MDBInMemoryShard;
use merklehash::MerkleHash;
use rand::prelude::*;

fn block_on<F: Future>(f: F) -> F::Output {
    let mut f = pin!(f);
    let mut cx = Context::from_waker(Waker::noop());
    loop {
        if let Poll::Ready(v) = f.as_mut().poll(&mut cx) {
            return v;
        }
    }
}

#[derive(Default)]
struct State {
    shard: MDBInMemoryShard,
    xorbs: HashMap<MerkleHash, Vec<(MerkleHash, usize)>>,
    // a shard that shows up after a global dedup query
    pending: Vec<RawXorbData>,
    queried: bool,
}

#[derive(Clone)]
struct Mock(Arc<Mutex<State>>);

#[async_trait]
impl DeduplicationDataInterface for Mock {
    type ErrorType = String;

    async fn chunk_hash_dedup_query(
        &self,
        query_hashes: &[MerkleHash],
    ) -> Result<Option<(usize, FileDataSequenceEntry)>, String> {
        Ok(self.0.lock().unwrap().shard.chunk_hash_dedup_query(query_hashes))
    }
    async fn register_global_dedup_query(&mut self, _h: MerkleHash) -> Result<(), String> {
        self.0.lock().unwrap().queried = true;
        Ok(())
    }
    async fn complete_global_dedup_queries(&mut self) -> Result<bool, String> {
        let mut s = self.0.lock().unwrap();
        if s.queried && !s.pending.is_empty() {
            s.queried = false;
            let x = s.pending.pop().unwrap();
            s.xorbs
                .insert(x.hash(), x.cas_info.chunks.iter().map(|c| (c.chunk_hash, c.unpacked_segment_bytes as usize)).collect());
            s.shard.add_cas_block(x.cas_info.clone()).unwrap();
            return Ok(true);
        }
        s.queried = false;
        Ok(false)
    }
    async fn register_new_xorb(&mut self, x: RawXorbData) -> Result<(), String> {
        let mut s = self.0.lock().unwrap();
        s.xorbs
            .insert(x.hash(), x.cas_info.chunks.iter().map(|c| (c.chunk_hash, c.unpacked_segment_bytes as usize)).collect());
        s.shard.add_cas_block(x.cas_info.clone()).unwrap();
        Ok(())
    }
}

fn mk_chunk(id: u32) -> Chunk {
    let len = 1 + (id as usize * 7) % 13;
    let data: Vec<u8> = (0..len).map(|i| (id as u8).wrapping_add(i as u8)).collect();
    Chunk {
        hash: merklehash::compute_data_hash(&[&id.to_le_bytes()[..], &data[..]].concat()),
        data: Arc::from(data),
    }
}

fn run(seed: u64) {
    let mut rng = StdRng::seed_from_u64(seed);
    let alphabet = rng.random_range(3..40u32);
    let st = Arc::new(Mutex::new(State::default()));
    // Pre-populate known xorbs
    {
        let mut s = st.lock().unwrap();
        for _ in 0..rng.random_range(0..4) {
            let n = if std::env::var("HF_XET_MAX_XORB_BYTES").is_ok() { rng.random_range(1..3) } else { rng.random_range(1..7) };
            let cs: Vec<Chunk> = (0..n).map(|_| mk_chunk(rng.random_range(0..alphabet))).collect();
            let x = RawXorbData::from_chunks(&cs);
            if rng.random_bool(0.5) {
                s.xorbs
                    .insert(x.hash(), x.cas_info.chunks.iter().map(|c| (c.chunk_hash, c.unpacked_segment_bytes as usize)).collect());
                s.shard.add_cas_block(x.cas_info.clone()).unwrap();
            } else {
                s.pending.push(x);
            }
        }
    }

    let mut dd = FileDeduper::new(Mock(st.clone()));
    let mut file: Vec<Chunk> = vec![];
    let nbatches = rng.random_range(1..8);
    for _ in 0..nbatches {
        let n = rng.random_range(0..30);
        let mut batch: Vec<Chunk> = vec![];
        while batch.len() < n {
            if !file.is_empty() && rng.random_bool(0.3) {
                // repeat a run of earlier data
                let s = rng.random_range(0..file.len());
                let l = rng.random_range(1..10);
                for c in file[s..(s + l).min(file.len())].to_vec() {
                    batch.push(c);
                }
            } else {
                batch.push(mk_chunk(rng.random_range(0..alphabet)));
            }
        }
        block_on(dd.process_chunks(&batch)).unwrap();
        file.extend(batch);
    }
    let (_fh, agg, _m, _new) = dd.finalize([0u8; 32], None);
    let (xorb, fis) = agg.finalize();
    {
        let mut s = st.lock().unwrap();
        s.xorbs
            .insert(xorb.hash(), xorb.cas_info.chunks.iter().map(|c| (c.chunk_hash, c.unpacked_segment_bytes as usize)).collect());
    }
    assert_eq!(fis.len(), 1);
    let fi = &fis[0];
    let s = st.lock().unwrap();
    let mut pos = 0;
    for (si, seg) in fi.segments.iter().enumerate() {
        let x = s.xorbs.get(&seg.cas_hash).unwrap_or_else(|| panic!("seed {seed}: seg {si} unknown xorb"));
        let mut bytes = 0;
        assert!(seg.chunk_index_end as usize <= x.len(), "seed {seed}: seg {si} past xorb end");
        assert!(seg.chunk_index_start < seg.chunk_index_end, "seed {seed}: seg {si} empty");
        for j in seg.chunk_index_start..seg.chunk_index_end {
            assert!(pos < file.len(), "seed {seed}: segments longer than file");
            assert_eq!(x[j as usize].0, file[pos].hash, "seed {seed}: seg {si} chunk {j} is not the file's chunk {pos}");
            bytes += x[j as usize].1;
            pos += 1;
        }
        assert_eq!(bytes as u32, seg.unpacked_segment_bytes, "seed {seed}: seg {si} byte count");
    }
    assert_eq!(pos, file.len(), "seed {seed}: segments do not cover the file");
}

#[test]
fn fuzz_deduper() {
    std::env::set_var("HF_XET_MAX_XORB_CHUNKS", "6");
    std::env::set_var("HF_XET_NRANGES_IN_STREAMING_FRAGMENTATION_ESTIMATOR", "3");
    std::env::set_var("HF_XET_MDB_SHARD_GLOBAL_DEDUP_CHUNK_MODULUS", "2");
    for seed in 0..3000 {
        run(seed);
    }
}

// Differential fuzz: every positive dedup answer must be truthful against a model.
use std::collections::HashMap;
use std::io::Cursor;
use std::time::Duration;

use mdb_shard::cas_structs::{CASChunkSequenceEntry, CASChunkSequenceHeader, MDBCASInfo};
use mdb_shard::file_structs::FileDataSequenceEntry;
use mdb_shard::session_directory::consolidate_shards_in_directory;
use mdb_shard::shard_in_memory::MDBInMemoryShard;
use mdb_shard::streaming_shard::MDBMinimalShard;
use mdb_shard::{MDBShardFile, MDBShardInfo, ShardFileManager};
use merklehash::MerkleHash;
use rand::prelude::*;
use tempdir::TempDir;

type Model = HashMap<MerkleHash, Vec<(MerkleHash, u32)>>;

fn gen_hash(rng: &mut StdRng, prefixes: &[u64]) -> MerkleHash {
    let p = if rng.gen_bool(0.6) {
        prefixes[rng.gen_range(0..prefixes.len())]
    } else {
        rng.gen()
    };
    // small space for the rest to get full duplicates too
    MerkleHash::from([p, rng.gen_range(0..6), 0, rng.gen_range(0..2)])
}

fn check(
    tag: &str,
    model: &Model,
    q: &[MerkleHash],
    ans: Option<(usize, FileDataSequenceEntry)>,
    key: Option<MerkleHash>,
) -> bool {
    let Some((n, fse)) = ans else { return false };
    assert!(n >= 1 && n <= q.len(), "{tag}: n={n} q.len={}", q.len());
    let x = model.get(&fse.cas_hash).unwrap_or_else(|| panic!("{tag}: unknown xorb {:?}", fse.cas_hash));
    let (a, b) = (fse.chunk_index_start as usize, fse.chunk_index_end as usize);
    assert_eq!(b - a, n, "{tag}: range/n mismatch");
    assert!(b <= x.len(), "{tag}: range past end");
    let mut bytes = 0u32;
    for i in 0..n {
        let _ = key;
        assert_eq!(x[a + i].0, q[i], "{tag}: hash mismatch at {i}");
        bytes += x[a + i].1;
    }
    assert_eq!(bytes, fse.unpacked_segment_bytes, "{tag}: bytes mismatch");
    true
}

fn gen_queries(rng: &mut StdRng, model: &Model, prefixes: &[u64], nq: usize) -> Vec<Vec<MerkleHash>> {
    let xs: Vec<_> = model.values().filter(|v| !v.is_empty()).collect();
    let mut out = vec![];
    for _ in 0..nq {
        let mut q = vec![];
        if !xs.is_empty() && rng.gen_bool(0.8) {
            let x = xs[rng.gen_range(0..xs.len())];
            let s = rng.gen_range(0..x.len());
            let l = rng.gen_range(1..=8);
            for i in s..(s + l).min(x.len()) {
                q.push(x[i].0);
            }
            // continue into something else (past xorb end / mismatch)
            for _ in 0..rng.gen_range(0..3) {
                if rng.gen_bool(0.5) {
                    let y = xs[rng.gen_range(0..xs.len())];
                    q.push(y[rng.gen_range(0..y.len())].0);
                } else {
                    q.push(gen_hash(rng, prefixes));
                }
            }
        } else {
            for _ in 0..rng.gen_range(1..4) {
                q.push(gen_hash(rng, prefixes));
            }
        }
        out.push(q);
    }
    out
}

fn gen_xorb(rng: &mut StdRng, prefixes: &[u64], model: &Model, xid: u64, max_chunks: usize) -> MDBCASInfo {
    let n = if rng.gen_bool(0.05) { 0 } else { rng.gen_range(1..=max_chunks) };
    let mut chunks = vec![];
    let mut pos = 0u32;
    let donors: Vec<_> = model.values().filter(|v| !v.is_empty()).collect();
    while chunks.len() < n {
        if !donors.is_empty() && rng.gen_bool(0.2) {
            // copy a run from another xorb
            let d = donors[rng.gen_range(0..donors.len())];
            let s = rng.gen_range(0..d.len());
            let l = rng.gen_range(1..5);
            for i in s..(s + l).min(d.len()) {
                if chunks.len() < n {
                    chunks.push(CASChunkSequenceEntry::new(d[i].0, d[i].1, pos));
                    pos += d[i].1;
                }
            }
        } else {
            let len = rng.gen_range(1..1000u32);
            chunks.push(CASChunkSequenceEntry::new(gen_hash(rng, prefixes), len, pos));
            pos += len;
        }
    }
    // A chunk hash determines its length in reality; normalise.
    let mut lens: HashMap<MerkleHash, u32> = HashMap::new();
    for v in model.values() {
        for (h, l) in v {
            lens.insert(*h, *l);
        }
    }
    let mut pos = 0;
    for c in chunks.iter_mut() {
        let l = *lens.entry(c.chunk_hash).or_insert(c.unpacked_segment_bytes);
        c.unpacked_segment_bytes = l;
        c.chunk_byte_range_start = pos;
        pos += l;
    }
    MDBCASInfo {
        metadata: CASChunkSequenceHeader::new(MerkleHash::from([rng.gen(), xid, 7, 7]), chunks.len(), pos),
        chunks,
    }
}

fn add_model(model: &mut Model, x: &MDBCASInfo) {
    model.insert(x.metadata.cas_hash, x.chunks.iter().map(|c| (c.chunk_hash, c.unpacked_segment_bytes)).collect());
}

#[test]
fn fuzz_single_shard() {
    for seed in 0..300u64 {
        let mut rng = StdRng::seed_from_u64(seed);
        let prefixes: Vec<u64> = vec![0, 1, u64::MAX, u64::MAX - 1, rng.gen(), rng.gen(), 1 << 63];
        let mut model = Model::new();
        let mut mem = MDBInMemoryShard::default();
        let nx = rng.gen_range(0..12);
        let big = rng.gen_bool(0.2);
        for xid in 0..nx {
            let x = gen_xorb(&mut rng, &prefixes, &model, xid, if big { 400 } else { 12 });
            add_model(&mut model, &x);
            mem.add_cas_block(x).unwrap();
        }
        let mut buf = Vec::new();
        MDBShardInfo::serialize_from(&mut buf, &mem).unwrap();
        let si = MDBShardInfo::load_from_reader(&mut Cursor::new(&buf)).unwrap();

        // keyed export
        let key = MerkleHash::from([rng.gen(), rng.gen(), 3, 4]);
        let mut kbuf = Vec::new();
        si.export_as_keyed_shard(&mut Cursor::new(&buf), &mut kbuf, key, Duration::from_secs(100), rng.gen(), rng.gen(), true)
            .unwrap();
        let ksi = MDBShardInfo::load_from_reader(&mut Cursor::new(&kbuf)).unwrap();

        for q in gen_queries(&mut rng, &model, &prefixes, 200) {
            check("mem", &model, &q, mem.chunk_hash_dedup_query(&q), None);
            check("disk", &model, &q, si.chunk_hash_dedup_query(&mut Cursor::new(&buf), &q).unwrap(), None);
            check("keyed", &model, &q, ksi.chunk_hash_dedup_query(&mut Cursor::new(&kbuf), &q).unwrap(), None);
        }
    }
}

#[tokio::test]
async fn fuzz_manager() {
    for seed in 0..40u64 {
        let mut rng = StdRng::seed_from_u64(1000 + seed);
        let prefixes: Vec<u64> = vec![0, 1, u64::MAX, rng.gen(), rng.gen()];
        let mut model = Model::new();
        let dir = TempDir::new("hunt_c05").unwrap();
        let kdir = TempDir::new("hunt_c05k").unwrap();
        let mgr = ShardFileManager::new_in_session_directory(dir.path()).await.unwrap();
        let mut xid = 0;
        let nsteps = rng.gen_range(5..40);
        for _ in 0..nsteps {
            match rng.gen_range(0..10) {
                0..=5 => {
                    let x = if rng.gen_bool(0.1) && !model.is_empty() {
                        // re-add an existing xorb
                        let k = *model.keys().next().unwrap();
                        let v = &model[&k];
                        let mut pos = 0;
                        let chunks: Vec<_> = v
                            .iter()
                            .map(|(h, l)| {
                                let c = CASChunkSequenceEntry::new(*h, *l, pos);
                                pos += l;
                                c
                            })
                            .collect();
                        MDBCASInfo {
                            metadata: CASChunkSequenceHeader::new(k, chunks.len(), pos),
                            chunks,
                        }
                    } else {
                        gen_xorb(&mut rng, &prefixes, &model, xid, 20)
                    };
                    xid += 1;
                    add_model(&mut model, &x);
                    mgr.add_cas_block(x).await.unwrap();
                },
                6..=7 => {
                    mgr.flush().await.unwrap();
                },
                8 => {
                    mgr.flush().await.unwrap();
                    let t = rng.gen_range(500..20000);
                    consolidate_shards_in_directory(dir.path(), t).unwrap();
                    mgr.refresh_shard_dir().await.unwrap();
                },
                _ => {
                    // fresh manager on the same dir
                    let m2 = ShardFileManager::new_in_session_directory(dir.path()).await.unwrap();
                    for q in gen_queries(&mut rng, &model, &prefixes, 50) {
                        check("mgr2", &model, &q, m2.chunk_hash_dedup_query(&q).await.unwrap(), None);
                    }
                },
            }
            for q in gen_queries(&mut rng, &model, &prefixes, 30) {
                check("mgr", &model, &q, mgr.chunk_hash_dedup_query(&q).await.unwrap(), None);
            }
        }
        mgr.flush().await.unwrap();
        // Export all as keyed shards / minimal shards into kdir.
        for (i, s) in MDBShardFile::load_all_valid(dir.path()).unwrap().into_iter().enumerate() {
            match i % 3 {
                0 => {
                    let key = if rng.gen_bool(0.5) {
                        MerkleHash::from([5, 5, 5, 5])
                    } else {
                        MerkleHash::from([rng.gen(), 1, 2, 3])
                    };
                    s.export_as_keyed_shard(kdir.path(), key, Duration::from_secs(1000), rng.gen(), rng.gen(), rng.gen())
                        .unwrap();
                },
                1 => {
                    let ms = MDBMinimalShard::from_reader(&mut s.get_reader().unwrap(), rng.gen(), true).unwrap();
                    let mut b = Vec::new();
                    ms.serialize(&mut b).unwrap();
                    MDBShardFile::write_out_from_reader(kdir.path(), &mut Cursor::new(&b)).unwrap();
                },
                _ => {
                    s.export_with_expiration(kdir.path(), Duration::from_secs(1000)).unwrap();
                },
            }
        }
        let km = ShardFileManager::new_in_session_directory(kdir.path()).await.unwrap();
        let mut hits = 0;
        for q in gen_queries(&mut rng, &model, &prefixes, 300) {
            if check("kmgr", &model, &q, km.chunk_hash_dedup_query(&q).await.unwrap(), None) {
                hits += 1;
            }
        }
        eprintln!("seed {seed}: keyed-dir hits {hits}/300");
    }
}

#[tokio::test(flavor = "multi_thread", worker_threads = 8)]
async fn fuzz_concurrent() {
    use std::sync::{Arc, Mutex};
    for seed in 0..10u64 {
        let mut rng = StdRng::seed_from_u64(5000 + seed);
        let prefixes: Vec<u64> = vec![0, 1, u64::MAX, rng.gen(), rng.gen()];
        let mut model = Model::new();
        let mut xs = vec![];
        for xid in 0..60 {
            let x = gen_xorb(&mut rng, &prefixes, &model, xid, 20);
            add_model(&mut model, &x);
            xs.push(x);
        }
        let model = Arc::new(model);
        let dir = TempDir::new("hunt_c05c").unwrap();
        let mgr = ShardFileManager::new_in_session_directory(dir.path()).await.unwrap();
        let xs = Arc::new(Mutex::new(xs));
        let mut hs = vec![];
        for t in 0..6u64 {
            let mgr = mgr.clone();
            let xs = xs.clone();
            let model = model.clone();
            let prefixes = prefixes.clone();
            let dirp = dir.path().to_path_buf();
            hs.push(tokio::spawn(async move {
                let mut rng = StdRng::seed_from_u64(seed * 100 + t);
                loop {
                    let x = xs.lock().unwrap().pop();
                    let Some(x) = x else { break };
                    mgr.add_cas_block(x).await.unwrap();
                    if rng.gen_bool(0.3) {
                        mgr.flush().await.unwrap();
                    }
                    if t == 0 && rng.gen_bool(0.2) {
                        let _ = consolidate_shards_in_directory(&dirp, 5000);
                        let _ = mgr.refresh_shard_dir().await;
                    }
                    for q in gen_queries(&mut rng, &model, &prefixes, 20) {
                        check("conc", &model, &q, mgr.chunk_hash_dedup_query(&q).await.unwrap(), None);
                    }
                }
            }));
        }
        for h in hs {
            h.await.unwrap();
        }
    }
}

// Randomised differential check of C05 (dedup answers are truthful) against a brute-force oracle.
use std::collections::HashMap;
use std::io::Cursor;
use std::time::Duration;

use mdb_shard::cas_structs::*;
use mdb_shard::file_structs::FileDataSequenceEntry;
use mdb_shard::session_directory::consolidate_shards_in_directory;
use mdb_shard::shard_in_memory::MDBInMemoryShard;
use mdb_shard::{MDBShardFile, MDBShardInfo, ShardFileManager};
use merklehash::MerkleHash;
use rand::prelude::*;
use tempdir::TempDir;

type Oracle = HashMap<MerkleHash, Vec<(MerkleHash, u32)>>;

fn chunk_hash(rng: &mut StdRng, n_prefix: u64, n_rest: u64) -> MerkleHash {
    let w0 = match rng.gen_range(0..10) {
        0 => 0u64,
        1 => u64::MAX,
        _ => rng.gen_range(0..n_prefix).wrapping_mul(0x9E37_79B9_7F4A_7C15),
    };
    [w0, rng.gen_range(0..n_rest), 7, 9].into()
}

fn gen_xorb(rng: &mut StdRng, id: u64, n_prefix: u64, n_rest: u64, max_chunks: usize) -> MDBCASInfo {
    let n = rng.gen_range(1..=max_chunks);
    let mut chunks = Vec::new();
    let mut pos = 0u32;
    for _ in 0..n {
        let len = rng.gen_range(1..1000u32);
        chunks.push(CASChunkSequenceEntry::new(chunk_hash(rng, n_prefix, n_rest), len, pos));
        pos += len;
    }
    let cas_hash: MerkleHash = [rng.gen(), id, 1, 2].into();
    MDBCASInfo {
        metadata: CASChunkSequenceHeader::new(cas_hash, n, pos),
        chunks,
    }
}

fn check(oracle: &Oracle, query: &[MerkleHash], ans: Option<(usize, FileDataSequenceEntry)>, what: &str) {
    let Some((n, fse)) = ans else { return };
    assert!(n >= 1 && n <= query.len(), "{what}: n={n} qlen={}", query.len());
    let rec = oracle
        .get(&fse.cas_hash)
        .unwrap_or_else(|| panic!("{what}: answer names unknown xorb {:?}", fse.cas_hash));
    let (a, b) = (fse.chunk_index_start as usize, fse.chunk_index_end as usize);
    assert_eq!(b - a, n, "{what}: range {a}..{b} vs n={n}");
    assert!(b <= rec.len(), "{what}: range {a}..{b} past xorb end {}", rec.len());
    let mut bytes = 0u32;
    for i in 0..n {
        assert_eq!(rec[a + i].0, query[i], "{what}: hash mismatch at {i}");
        bytes += rec[a + i].1;
    }
    assert_eq!(bytes, fse.unpacked_segment_bytes, "{what}: byte count");
}

fn gen_query(rng: &mut StdRng, oracle: &Oracle, keys: &[MerkleHash], n_prefix: u64, n_rest: u64) -> Vec<MerkleHash> {
    let mut q = Vec::new();
    if keys.is_empty() || rng.gen_range(0..6) == 0 {
        for _ in 0..rng.gen_range(1..6) {
            q.push(chunk_hash(rng, n_prefix, n_rest));
        }
        return q;
    }
    let x = &oracle[&keys[rng.gen_range(0..keys.len())]];
    let s = rng.gen_range(0..x.len());
    let e = rng.gen_range(s + 1..=x.len());
    q.extend(x[s..e].iter().map(|c| c.0));
    match rng.gen_range(0..5) {
        0 => {
            // run past the end
            for _ in 0..rng.gen_range(1..4) {
                q.push(chunk_hash(rng, n_prefix, n_rest));
            }
        },
        1 => {
            let i = rng.gen_range(0..q.len());
            q[i] = chunk_hash(rng, n_prefix, n_rest);
        },
        2 => {
            // splice a run from another xorb
            let y = &oracle[&keys[rng.gen_range(0..keys.len())]];
            let s = rng.gen_range(0..y.len());
            q.extend(y[s..].iter().map(|c| c.0));
        },
        _ => {},
    }
    q
}

#[tokio::test(flavor = "multi_thread")]
async fn fuzz_truthful() {
    let seeds: u64 = std::env::var("HUNT_SEEDS").ok().and_then(|s| s.parse().ok()).unwrap_or(40);
    for seed in 0..seeds {
        let mut rng = StdRng::seed_from_u64(seed);
        let n_prefix = rng.gen_range(1..12);
        let n_rest = rng.gen_range(1..8);
        let max_chunks = *[3usize, 8, 40, 400].choose(&mut rng).unwrap();
        let dir = TempDir::new("hunt").unwrap();
        let keyed_dir = TempDir::new("huntk").unwrap();
        let mut mgr = ShardFileManager::new_in_session_directory(dir.path()).await.unwrap();
        let kmgr = ShardFileManager::new_in_session_directory(keyed_dir.path()).await.unwrap();
        let mut mem = MDBInMemoryShard::default();
        let mut oracle = Oracle::new();
        let mut keys = Vec::new();
        let n_steps = rng.gen_range(5..60);
        for step in 0..n_steps {
            match rng.gen_range(0..12) {
                0..=5 => {
                    let x = gen_xorb(&mut rng, step, n_prefix, n_rest, max_chunks);
                    oracle.insert(
                        x.metadata.cas_hash,
                        x.chunks.iter().map(|c| (c.chunk_hash, c.unpacked_segment_bytes)).collect(),
                    );
                    keys.push(x.metadata.cas_hash);
                    mgr.add_cas_block(x.clone()).await.unwrap();
                    mem.add_cas_block(x).unwrap();
                },
                6 | 7 => {
                    mgr.flush().await.unwrap();
                },
                8 => {
                    // export every on-disk shard as keyed shard, random table inclusion, register in kmgr
                    for s in MDBShardFile::load_all_valid(dir.path()).unwrap() {
                        let key: MerkleHash = [rng.gen_range(0..3u64), 5, 5, 5].into();
                        let ks = s
                            .export_as_keyed_shard(
                                keyed_dir.path(),
                                key,
                                Duration::from_secs(1000),
                                rng.gen(),
                                rng.gen(),
                                rng.gen(),
                            )
                            .unwrap();
                        kmgr.register_shards(&[ks]).await.unwrap();
                    }
                },
                9 => {
                    mgr.flush().await.unwrap();
                    consolidate_shards_in_directory(dir.path(), rng.gen_range(500..200_000)).unwrap();
                    mgr = ShardFileManager::new_in_session_directory(dir.path()).await.unwrap();
                },
                _ => {},
            }
            for _ in 0..20 {
                let q = gen_query(&mut rng, &oracle, &keys, n_prefix, n_rest);
                check(&oracle, &q, mgr.chunk_hash_dedup_query(&q).await.unwrap(), &format!("seed {seed} mgr"));
                check(&oracle, &q, kmgr.chunk_hash_dedup_query(&q).await.unwrap(), &format!("seed {seed} kmgr"));
                check(&oracle, &q, mem.chunk_hash_dedup_query(&q), &format!("seed {seed} mem"));
            }
        }
        // on-disk single shard checks
        let mut buf = Vec::new();
        let info = MDBShardInfo::serialize_from(&mut buf, &mem).unwrap();
        let mut all: Vec<_> = MDBShardFile::load_all_valid(dir.path()).unwrap();
        all.extend(MDBShardFile::load_all_valid(keyed_dir.path()).unwrap());
        for _ in 0..300 {
            let q = gen_query(&mut rng, &oracle, &keys, n_prefix, n_rest);
            check(
                &oracle,
                &q,
                info.chunk_hash_dedup_query(&mut Cursor::new(&buf), &q).unwrap(),
                &format!("seed {seed} disk"),
            );
            for s in all.iter() {
                check(&oracle, &q, s.chunk_hash_dedup_query(&q).unwrap(), &format!("seed {seed} file"));
            }
        }
    }
}

// C05 hunt demos.  Run with:
//   cargo test -p mdb_shard --offline --test hunt_demo -- --nocapture
//
// Demo 1: ShardFileManager stores the index of a shard inside its keyed collection as `u16`
// (`shard_index as u16`, shard_file_manager.rs:262).  With more than 65536 shards registered in one
// collection (e.g. a shard cache directory that accumulated many small session shards), the index wraps and
// the (cas_start_index, chunk_offset) location taken from shard #65536 is looked up in shard #0.  If the
// queried chunk happens to sit at the same absolute entry position in shard #0 (in another xorb), the full hash
// comparison passes and the answer names the wrong xorb with a chunk range that does not exist in it.
//
// Demo 2: ShardFileManager::chunk_hash_dedup_query panics on an empty query (query_hashes[0]) whereas the
// in-memory and the on-disk single-shard queries return None.

use std::sync::Arc;

use mdb_shard::cas_structs::*;
use mdb_shard::shard_in_memory::MDBInMemoryShard;
use mdb_shard::{MDBShardFile, ShardFileManager};
use merklehash::MerkleHash;
use tempdir::TempDir;

fn h(a: u64, b: u64) -> MerkleHash {
    [a, b, 0x1111, 0x2222].into()
}

fn xorb(cas_hash: MerkleHash, chunks: &[(MerkleHash, u32)]) -> MDBCASInfo {
    let mut pos = 0u32;
    let mut v = Vec::new();
    for (ch, len) in chunks {
        v.push(CASChunkSequenceEntry::new(*ch, *len, pos));
        pos += *len;
    }
    MDBCASInfo {
        metadata: CASChunkSequenceHeader::new(cas_hash, chunks.len(), pos),
        chunks: v,
    }
}

fn write_shard(dir: &std::path::Path, xorbs: &[MDBCASInfo]) -> Arc<MDBShardFile> {
    let mut m = MDBInMemoryShard::default();
    for x in xorbs {
        m.add_cas_block(x.clone()).unwrap();
    }
    let p = m.write_to_directory(dir).unwrap();
    MDBShardFile::load_from_file(&p).unwrap()
}

#[tokio::test(flavor = "multi_thread")]
async fn shard_index_u16_wraparound_gives_false_dedup_answer() {
    let tmp = TempDir::new("hunt_c05").unwrap();
    let dir = tmp.path();

    // The two chunks that get queried.
    let c = h(0xC0, 1);
    let d = h(0xD0, 2);

    // Shard A: xorb X1 = [p, q, r]  (entries 0..=3), xorb X2 = [c, d] (entries 4..=6).
    let x1 = xorb(h(1, 100), &[(h(0xA1, 0), 10), (h(0xA2, 0), 20), (h(0xA3, 0), 30)]);
    let x2 = xorb(h(2, 100), &[(c, 1000), (d, 2000)]);
    // Shard B: xorb Y = [s, t, u, v, c, d, w]; c is chunk 4 of Y, i.e. entry 5 of the shard -- the same absolute
    // entry position that c has in shard A.
    let y = xorb(
        h(3, 100),
        &[(h(0xB1, 0), 1), (h(0xB2, 0), 2), (h(0xB3, 0), 3), (h(0xB4, 0), 4), (c, 1000), (d, 2000), (h(0xB5, 0), 5)],
    );

    let mgr = ShardFileManager::new_in_session_directory(dir).await.unwrap();

    let shard_a = write_shard(dir, &[x1.clone(), x2.clone()]);
    mgr.register_shards(&[shard_a.clone()]).await.unwrap(); // index 0 of the un-keyed collection

    // Sanity: with only shard A registered the answer is the truth: X2[0..2).
    let (n, fse) = mgr.chunk_hash_dedup_query(&[c, d]).await.unwrap().unwrap();
    assert_eq!((n, fse.cas_hash, fse.chunk_index_start, fse.chunk_index_end), (2, x2.metadata.cas_hash, 0, 2));

    // 65535 small, unrelated shards: indices 1 ..= 65535.
    let t0 = std::time::Instant::now();
    let mut fillers = Vec::with_capacity(65535);
    for i in 0..65535u64 {
        fillers.push(write_shard(dir, &[xorb(h(1000 + i, 7), &[(h(0xF000_0000 + i, 9), 5)])]));
    }
    mgr.register_shards(&fillers).await.unwrap();
    eprintln!("registered 65535 filler shards in {:?}", t0.elapsed());

    // Shard B becomes shard number 65536 of the collection; `65536 as u16 == 0`.
    let shard_b = write_shard(dir, &[y.clone()]);
    mgr.register_shards(&[shard_b.clone()]).await.unwrap();

    // On its own shard B answers truthfully: Y[4..6).
    let (n, fse) = shard_b.chunk_hash_dedup_query(&[c, d]).unwrap().unwrap();
    assert_eq!((n, fse.cas_hash, fse.chunk_index_start, fse.chunk_index_end), (2, y.metadata.cas_hash, 4, 6));

    // Shard C becomes shard number 65537 (wraps to 1, a tiny filler shard).  Its chunk z is chunk 300 of a xorb.
    let z = h(0xEE, 3);
    let mut big: Vec<(MerkleHash, u32)> = (0..400u64).map(|i| (h(0x5000_0000 + i, 4), 7)).collect();
    big[300] = (z, 77);
    let w = xorb(h(4, 100), &big);
    let shard_c = write_shard(dir, &[w.clone()]);
    mgr.register_shards(&[shard_c.clone()]).await.unwrap();

    let mut failures = Vec::new();

    // Now the manager.
    let (n, fse) = mgr.chunk_hash_dedup_query(&[c, d]).await.unwrap().expect("c,d are stored, some answer expected");
    eprintln!("manager answer for [c,d]: n={n} {fse:?}");

    // Oracle: the answer must name a xorb whose recorded chunks at [start, start+n) are the queried hashes.
    let all = [x1.clone(), x2.clone(), y.clone()];
    let named = all
        .iter()
        .find(|x| x.metadata.cas_hash == fse.cas_hash)
        .expect("answer names a xorb that exists");
    let (a, b) = (fse.chunk_index_start as usize, fse.chunk_index_end as usize);
    assert_eq!(b - a, n);
    if b > named.chunks.len() || (0..n).any(|i| named.chunks[a + i].chunk_hash != [c, d][i]) {
        failures.push(format!(
            "UNTRUTHFUL ANSWER: dedup query says chunks [{a},{b}) of xorb {:?}, but that xorb has only {} chunks \
             (the queried chunks really live in {:?}[0,2) and {:?}[4,6))",
            fse.cas_hash,
            named.chunks.len(),
            x2.metadata.cas_hash,
            y.metadata.cas_hash
        ));
    }

    // Second consequence of the same wrap-around: the location from shard C is read in a tiny filler shard,
    // which runs past the end of that file; the whole query fails instead of answering W[300..301) (or None).
    match mgr.chunk_hash_dedup_query(&[z]).await {
        Ok(Some((n, fse))) => {
            assert_eq!((n, fse.cas_hash, fse.chunk_index_start, fse.chunk_index_end), (1, w.metadata.cas_hash, 300, 301));
        },
        Ok(None) => eprintln!("query [z]: None (false negative only)"),
        Err(e) => failures.push(format!("query for a stored chunk fails with an error instead of an answer: {e:?}")),
    }

    assert!(failures.is_empty(), "\n{}", failures.join("\n"));
}

#[tokio::test(flavor = "multi_thread")]
async fn manager_empty_query_panics() {
    let tmp = TempDir::new("hunt_c05_empty").unwrap();
    let mgr = ShardFileManager::new_in_session_directory(tmp.path()).await.unwrap();

    // Both single-shard observables return None for an empty query.
    assert!(MDBInMemoryShard::default().chunk_hash_dedup_query(&[]).is_none());

    // The manager indexes query_hashes[0] unconditionally -> panic (index out of bounds).
    let r = mgr.chunk_hash_dedup_query(&[]).await.unwrap();
    assert!(r.is_none());
}

use std::collections::HashMap;
use std::sync::Arc;
use std::time::Duration;

use mdb_shard::cas_structs::{CASChunkSequenceEntry, CASChunkSequenceHeader, MDBCASInfo};
use mdb_shard::file_structs::FileDataSequenceEntry;
use mdb_shard::session_directory::consolidate_shards_in_directory;
use mdb_shard::{MDBShardFile, ShardFileManager};
use merklehash::{compute_data_hash, HMACKey, MerkleHash};
use rand::prelude::*;

type Truth = HashMap<MerkleHash, Vec<(MerkleHash, u32)>>;

fn check(what: &str, truth: &Truth, q: &[MerkleHash], res: &Option<(usize, FileDataSequenceEntry)>) {
    let Some((n, fse)) = res else { return };
    let n = *n;
    assert!(n >= 1 && n <= q.len(), "{what}: bad n {n}");
    let cas = truth.get(&fse.cas_hash).unwrap_or_else(|| panic!("{what}: unknown xorb {:?}", fse.cas_hash));
    let (a, b) = (fse.chunk_index_start as usize, fse.chunk_index_end as usize);
    assert_eq!(b - a, n, "{what}: range len != n");
    assert!(b <= cas.len(), "{what}: range past xorb end");
    let mut bytes = 0u64;
    for i in 0..n {
        assert_eq!(cas[a + i].0, q[i], "{what}: chunk {i} mismatch (a={a}, n={n})");
        bytes += cas[a + i].1 as u64;
    }
    assert_eq!(bytes, fse.unpacked_segment_bytes as u64, "{what}: bytes mismatch");
}

fn mk_xorb(chunks: &[(MerkleHash, u32)]) -> MDBCASInfo {
    let mut bytes = vec![];
    for (h, l) in chunks {
        bytes.extend_from_slice(h.as_bytes());
        bytes.extend_from_slice(&l.to_le_bytes());
    }
    let ch = compute_data_hash(&bytes);
    let mut pos = 0u32;
    let mut cs = vec![];
    for (h, l) in chunks {
        cs.push(CASChunkSequenceEntry::new(*h, *l, pos));
        pos += l;
    }
    MDBCASInfo {
        metadata: CASChunkSequenceHeader::new(ch, cs.len(), pos),
        chunks: cs,
    }
}

#[tokio::test(flavor = "multi_thread", worker_threads = 2)]
async fn fuzz_histories() {
    for seed in 0..40u64 {
        let mut rng = StdRng::seed_from_u64(seed);
        let dir = tempdir::TempDir::new("hunth").unwrap();
        let sess = dir.path().join("s");
        let cache = dir.path().join("c");
        std::fs::create_dir_all(&sess).unwrap();
        std::fs::create_dir_all(&cache).unwrap();

        let prefixes: Vec<u64> = vec![0, u64::MAX, 77, rng.gen()];
        let pool: Vec<(MerkleHash, u32)> = (0..rng.gen_range(5..200))
            .map(|i| {
                let p = if rng.gen_bool(0.6) { prefixes[rng.gen_range(0..prefixes.len())] } else { rng.gen() };
                (MerkleHash::from([p, i as u64, rng.gen(), rng.gen()]), rng.gen_range(1..100000u32))
            })
            .collect();

        let mut truth = Truth::new();
        let mut m: Arc<ShardFileManager> = ShardFileManager::new_in_session_directory(&sess).await.unwrap();
        let mut mc: Arc<ShardFileManager> = ShardFileManager::new_in_session_directory(&cache).await.unwrap();
        let keys: Vec<HMACKey> = (0..3).map(|_| MerkleHash::from([rng.gen(), rng.gen(), rng.gen(), rng.gen()])).collect();
        let mut xorbs: Vec<Vec<(MerkleHash, u32)>> = vec![];

        for step in 0..150 {
            match rng.gen_range(0..12) {
                0..=4 => {
                    // add a xorb (sometimes an exact repeat, sometimes sharing a run with an earlier one)
                    let cs: Vec<(MerkleHash, u32)> = if !xorbs.is_empty() && rng.gen_bool(0.15) {
                        xorbs[rng.gen_range(0..xorbs.len())].clone()
                    } else {
                        let n = rng.gen_range(1..40);
                        let mut v: Vec<_> = (0..n).map(|_| pool[rng.gen_range(0..pool.len())]).collect();
                        if !xorbs.is_empty() && rng.gen_bool(0.4) {
                            let o = &xorbs[rng.gen_range(0..xorbs.len())];
                            let a = rng.gen_range(0..o.len());
                            v.extend_from_slice(&o[a..(a + 6).min(o.len())]);
                        }
                        v
                    };
                    let x = mk_xorb(&cs);
                    truth.insert(x.metadata.cas_hash, cs.clone());
                    xorbs.push(cs);
                    m.add_cas_block(x).await.unwrap();
                },
                5 => {
                    m.flush().await.unwrap();
                },
                6 => {
                    let target = *[1u64, 2000, 10000, 1 << 30].choose(&mut rng).unwrap();
                    consolidate_shards_in_directory(&sess, target).unwrap();
                },
                7 => {
                    m.refresh_shard_dir().await.unwrap();
                },
                8 => {
                    m.flush().await.unwrap();
                    m = ShardFileManager::new_in_session_directory(&sess).await.unwrap();
                },
                9 => {
                    // export one of the session shards to the cache dir, keyed or with expiry
                    let shards = MDBShardFile::load_all_valid(&sess).unwrap();
                    if let Some(s) = shards.choose(&mut rng) {
                        let exported = match rng.gen_range(0..3) {
                            0 => s.export_with_expiration(&cache, Duration::from_secs(1000)).unwrap(),
                            1 => s
                                .export_as_keyed_shard(
                                    &cache,
                                    *keys.choose(&mut rng).unwrap(),
                                    Duration::from_secs(1000),
                                    rng.gen(),
                                    rng.gen(),
                                    rng.gen(),
                                )
                                .unwrap(),
                            _ => s
                                .export_as_keyed_shard(&cache, HMACKey::default(), Duration::from_secs(1000), false, false, true)
                                .unwrap(),
                        };
                        if rng.gen() {
                            mc.register_shards(&[exported]).await.unwrap();
                        } else {
                            mc.refresh_shard_dir().await.unwrap();
                        }
                    }
                },
                10 => {
                    mc = ShardFileManager::new_in_session_directory(&cache).await.unwrap();
                },
                _ => {},
            }

            // queries
            if xorbs.is_empty() {
                continue;
            }
            for _ in 0..20 {
                let x = &xorbs[rng.gen_range(0..xorbs.len())];
                let a = rng.gen_range(0..x.len());
                let l = rng.gen_range(1..=10usize);
                let mut q: Vec<MerkleHash> = x[a..(a + l).min(x.len())].iter().map(|c| c.0).collect();
                match rng.gen_range(0..4) {
                    0 => {
                        let y = &xorbs[rng.gen_range(0..xorbs.len())];
                        q.extend(y.iter().take(3).map(|c| c.0));
                    },
                    1 => {
                        let i = rng.gen_range(0..q.len());
                        let mut h = q[i];
                        h[2] ^= 1;
                        q[i] = h;
                    },
                    _ => {},
                }
                let r = m.chunk_hash_dedup_query(&q).await.unwrap();
                check(&format!("seed {seed} step {step} session"), &truth, &q, &r);
                let r = mc.chunk_hash_dedup_query(&q).await.unwrap();
                check(&format!("seed {seed} step {step} cache"), &truth, &q, &r);
            }
        }
    }
}

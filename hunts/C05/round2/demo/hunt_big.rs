use mdb_shard::cas_structs::{CASChunkSequenceEntry, CASChunkSequenceHeader, MDBCASInfo};
use mdb_shard::shard_in_memory::MDBInMemoryShard;
use mdb_shard::ShardFileManager;
use merklehash::MerkleHash;

#[tokio::test]
async fn big_xorb_offsets() {
    let n = 65540usize;
    let mut hs: Vec<MerkleHash> = (0..n).map(|i| MerkleHash::from([i as u64 * 7919 + 1, 1, 2, 3])).collect();
    hs[65537] = hs[3];
    hs[65538] = hs[4];
    let mut chunks = vec![];
    let mut pos = 0u32;
    for (i, h) in hs.iter().enumerate() {
        let l = 1 + (i as u32 % 5);
        chunks.push(CASChunkSequenceEntry::new(*h, l, pos));
        pos += l;
    }
    let ch = MerkleHash::from([9, 9, 9, 9]);
    let mut s = MDBInMemoryShard::default();
    s.add_cas_block(MDBCASInfo {
        metadata: CASChunkSequenceHeader::new(ch, n, pos),
        chunks: chunks.clone(),
    })
    .unwrap();
    let d = tempdir::TempDir::new("big").unwrap();
    s.write_to_directory(d.path()).unwrap();
    let m = ShardFileManager::new_in_session_directory(d.path()).await.unwrap();
    for a in [0usize, 3, 65533, 65534, 65535, 65536, 65537, 65538, 65539] {
        let q: Vec<MerkleHash> = hs[a..(a + 4).min(n)].to_vec();
        for (name, r) in [("mgr", m.chunk_hash_dedup_query(&q).await.unwrap()), ("mem", s.chunk_hash_dedup_query(&q))] {
            eprintln!("{name} a={a}: {r:?}");
            if let Some((k, f)) = r {
                let (st, en) = (f.chunk_index_start as usize, f.chunk_index_end as usize);
                assert_eq!(en - st, k);
                let mut b = 0;
                for i in 0..k {
                    assert_eq!(hs[st + i], q[i]);
                    b += chunks[st + i].unpacked_segment_bytes;
                }
                assert_eq!(b, f.unpacked_segment_bytes);
            }
        }
    }
}

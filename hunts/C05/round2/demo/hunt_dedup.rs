use std::collections::HashMap;
use std::future::Future;
use std::pin::pin;
use std::sync::{Arc, Mutex};
use std::task::{Context, Poll, RawWaker, RawWakerVTable, Waker};

use async_trait::async_trait;
use deduplication::{Chunk, DeduplicationDataInterface, FileDeduper, RawXorbData};
use mdb_shard::file_structs::FileDataSequenceEntry;
use mdb_shard::shard_in_memory::MDBInMemoryShard;
use merklehash::{compute_data_hash, MerkleHash};
use rand::prelude::*;

fn block_on<F: Future>(f: F) -> F::Output {
    fn noop(_: *const ()) {}
    fn clone(_: *const ()) -> RawWaker {
        RawWaker::new(std::ptr::null(), &VT)
    }
    static VT: RawWakerVTable = RawWakerVTable::new(clone, noop, noop, noop);
    let w = unsafe { Waker::from_raw(RawWaker::new(std::ptr::null(), &VT)) };
    let mut cx = Context::from_waker(&w);
    let mut f = pin!(f);
    loop {
        if let Poll::Ready(v) = f.as_mut().poll(&mut cx) {
            return v;
        }
    }
}

#[derive(Default)]
struct Store {
    shard: MDBInMemoryShard,
    xorbs: HashMap<MerkleHash, Vec<(MerkleHash, usize)>>,
}

struct Iface(Arc<Mutex<Store>>);

#[async_trait]
impl DeduplicationDataInterface for Iface {
    type ErrorType = String;
    async fn chunk_hash_dedup_query(
        &self,
        q: &[MerkleHash],
    ) -> Result<Option<(usize, FileDataSequenceEntry)>, String> {
        Ok(self.0.lock().unwrap().shard.chunk_hash_dedup_query(q))
    }
    async fn register_global_dedup_query(&mut self, _h: MerkleHash) -> Result<(), String> {
        Ok(())
    }
    async fn complete_global_dedup_queries(&mut self) -> Result<bool, String> {
        Ok(false)
    }
    async fn register_new_xorb(&mut self, xorb: RawXorbData) -> Result<(), String> {
        let mut s = self.0.lock().unwrap();
        s.xorbs.insert(
            xorb.hash(),
            xorb.cas_info.chunks.iter().map(|c| (c.chunk_hash, c.unpacked_segment_bytes as usize)).collect(),
        );
        s.shard.add_cas_block(xorb.cas_info).unwrap();
        Ok(())
    }
}

#[test]
fn fuzz_deduper() {
    for seed in 0..300u64 {
        let mut rng = StdRng::seed_from_u64(seed);
        let store = Arc::new(Mutex::new(Store::default()));
        let npool = rng.random_range(2..30);
        let pool: Vec<Chunk> = (0..npool)
            .map(|i| {
                let len = rng.random_range(1..50usize);
                let mut d = vec![0u8; len];
                rng.fill_bytes(&mut d);
                d.push(i as u8);
                Chunk {
                    hash: compute_data_hash(&d),
                    data: Arc::from(d),
                }
            })
            .collect();

        for _file in 0..rng.random_range(1..5) {
            let mut dd = FileDeduper::new(Iface(store.clone()));
            let n = rng.random_range(0..400usize);
            let mut file: Vec<Chunk> = vec![];
            while file.len() < n {
                if !file.is_empty() && rng.random_bool(0.3) {
                    // repeat a run
                    let a = rng.random_range(0..file.len());
                    let l = rng.random_range(1..20usize);
                    let run: Vec<Chunk> = file[a..(a + l).min(file.len())].to_vec();
                    file.extend(run);
                } else {
                    file.push(pool[rng.random_range(0..pool.len())].clone());
                }
            }
            let mut i = 0;
            while i < file.len() {
                let b = rng.random_range(1..60usize).min(file.len() - i);
                block_on(dd.process_chunks(&file[i..i + b])).unwrap();
                i += b;
            }
            let (_fh, agg, _m, _x) = dd.finalize([0u8; 32], None);
            let (xorb, fis) = agg.finalize();
            let fi = &fis[0];
            block_on(Iface(store.clone()).register_new_xorb(xorb)).unwrap();

            // verify truthfulness of every segment
            let s = store.lock().unwrap();
            let mut pos = 0usize;
            for seg in &fi.segments {
                let x = s.xorbs.get(&seg.cas_hash).unwrap_or_else(|| panic!("seed {seed}: unknown xorb"));
                let mut bytes = 0;
                for k in seg.chunk_index_start..seg.chunk_index_end {
                    let (h, l) = x[k as usize];
                    assert_eq!(h, file[pos].hash, "seed {seed}: segment chunk mismatch at file chunk {pos}");
                    assert_eq!(l, file[pos].data.len());
                    bytes += l;
                    pos += 1;
                }
                assert_eq!(bytes, seg.unpacked_segment_bytes as usize, "seed {seed}: bytes");
            }
            assert_eq!(pos, file.len(), "seed {seed}: file length");
        }
    }
}

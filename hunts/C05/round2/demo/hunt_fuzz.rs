use std::collections::HashMap;
use std::io::Cursor;
use std::time::Duration;

use mdb_shard::cas_structs::{CASChunkSequenceEntry, CASChunkSequenceHeader, MDBCASInfo};
use mdb_shard::file_structs::FileDataSequenceEntry;
use mdb_shard::shard_in_memory::MDBInMemoryShard;
use mdb_shard::{MDBShardFile, MDBShardInfo, ShardFileManager};
use merklehash::{HMACKey, MerkleHash};
use rand::prelude::*;

type Truth = HashMap<MerkleHash, Vec<(MerkleHash, u32)>>;

fn check(
    what: &str,
    truth: &Truth,
    key: Option<HMACKey>,
    q: &[MerkleHash],
    res: &Option<(usize, FileDataSequenceEntry)>,
) {
    let Some((n, fse)) = res else { return };
    let n = *n;
    assert!(n >= 1, "{what}: n == 0 reported: {fse:?}");
    assert!(n <= q.len(), "{what}: n > query len");
    let cas = truth.get(&fse.cas_hash).unwrap_or_else(|| panic!("{what}: unknown xorb {:?}", fse.cas_hash));
    let (a, b) = (fse.chunk_index_start as usize, fse.chunk_index_end as usize);
    assert_eq!(b - a, n, "{what}: range len != n");
    assert!(b <= cas.len(), "{what}: range past xorb end");
    let mut bytes = 0u64;
    for i in 0..n {
        let _ = key;
        assert_eq!(cas[a + i].0, q[i], "{what}: chunk {i} mismatch (a={a}, n={n})");
        bytes += cas[a + i].1 as u64;
    }
    assert_eq!(bytes, fse.unpacked_segment_bytes as u64, "{what}: bytes mismatch");
}

fn gen(rng: &mut StdRng, n_xorbs: usize, max_chunks: usize, n_prefixes: usize, pool: usize) -> (MDBInMemoryShard, Truth) {
    let mut prefixes: Vec<u64> = vec![0, 1, u64::MAX, u64::MAX - 1, 1 << 63];
    while prefixes.len() < n_prefixes.max(5) {
        prefixes.push(rng.gen());
    }
    prefixes.truncate(n_prefixes.max(1));
    let pool_hashes: Vec<MerkleHash> = (0..pool)
        .map(|i| {
            let p = if rng.gen_bool(0.7) { prefixes[rng.gen_range(0..prefixes.len())] } else { rng.gen() };
            MerkleHash::from([p, i as u64 + 7, rng.gen(), rng.gen()])
        })
        .collect();
    let mut shard = MDBInMemoryShard::default();
    let mut truth = Truth::new();
    for x in 0..n_xorbs {
        let nc = if max_chunks == 0 { 0 } else { rng.gen_range(1..=max_chunks) };
        let mut chunks = vec![];
        let mut pos = 0u32;
        let mut t = vec![];
        // sometimes copy a run from an earlier xorb
        for _ in 0..nc {
            let h = pool_hashes[rng.gen_range(0..pool_hashes.len())];
            let len = rng.gen_range(1..70000u32);
            chunks.push(CASChunkSequenceEntry::new(h, len, pos));
            t.push((h, len));
            pos += len;
        }
        let ch = MerkleHash::from([prefixes[x % prefixes.len()], 1_000_000 + x as u64, rng.gen(), rng.gen()]);
        shard
            .add_cas_block(MDBCASInfo {
                metadata: CASChunkSequenceHeader::new(ch, nc, pos),
                chunks,
            })
            .unwrap();
        truth.insert(ch, t);
    }
    (shard, truth)
}

fn queries(rng: &mut StdRng, truth: &Truth, count: usize) -> Vec<Vec<MerkleHash>> {
    let xs: Vec<&Vec<(MerkleHash, u32)>> = truth.values().filter(|v| !v.is_empty()).collect();
    let mut out = vec![];
    if xs.is_empty() {
        out.push(vec![MerkleHash::from([0, 0, 0, 1])]);
        return out;
    }
    for _ in 0..count {
        let x = xs[rng.gen_range(0..xs.len())];
        let a = rng.gen_range(0..x.len());
        let l = rng.gen_range(1..=8usize);
        let mut q: Vec<MerkleHash> = x[a..(a + l).min(x.len())].iter().map(|c| c.0).collect();
        match rng.gen_range(0..5) {
            0 => {
                // run past the end with chunks of another xorb
                let y = xs[rng.gen_range(0..xs.len())];
                q.extend(y.iter().take(3).map(|c| c.0));
            },
            1 => {
                let i = rng.gen_range(0..q.len());
                let mut h = q[i];
                h[3] ^= 1; // same prefix, different hash
                q[i] = h;
            },
            2 => {
                q.push(MerkleHash::from([rng.gen(), 0, 0, 0]));
            },
            _ => {},
        }
        out.push(q);
    }
    out
}

#[tokio::test]
async fn fuzz_dedup_truth() {
    for seed in 0..60u64 {
        let mut rng = StdRng::seed_from_u64(seed);
        let (n_xorbs, max_chunks, n_pref, pool) = match seed % 6 {
            0 => (0, 0, 1, 1),
            1 => (3, 4, 1, 3),
            2 => (40, 30, 2, 50),
            3 => (20, 400, 3, 100000),
            4 => (300, 10, 1, 20),
            _ => (10, 1500, 6, 3000),
        };
        let (shard, truth) = gen(&mut rng, n_xorbs, max_chunks, n_pref, pool);
        let qs = queries(&mut rng, &truth, 400);

        // in memory
        for q in &qs {
            let r = shard.chunk_hash_dedup_query(q);
            check("mem", &truth, None, q, &r);
        }

        // on disk
        let mut buf = Vec::new();
        let info = MDBShardInfo::serialize_from(&mut buf, &shard).unwrap();
        for q in &qs {
            let r = info.chunk_hash_dedup_query(&mut Cursor::new(&buf), q).unwrap();
            check("disk", &truth, None, q, &r);
            // completeness sanity: first hash present => in-memory finds
        }

        // keyed
        let key: HMACKey = MerkleHash::from([rng.gen(), rng.gen(), rng.gen(), rng.gen()]);
        let keyed_truth: Truth = truth.clone();
        let mut kbuf = Vec::new();
        info.export_as_keyed_shard(&mut Cursor::new(&buf), &mut kbuf, key, Duration::from_secs(1000), true, true, true)
            .unwrap();
        let kinfo = MDBShardInfo::load_from_reader(&mut Cursor::new(&kbuf)).unwrap();
        for q in &qs {
            let r = kinfo.chunk_hash_dedup_query(&mut Cursor::new(&kbuf), q).unwrap();
            check("keyed", &keyed_truth, Some(key), q, &r);
        }

        // manager with plain + keyed + keyed without tables
        let dir = tempdir::TempDir::new("hunt").unwrap();
        let d1 = dir.path().join("a");
        std::fs::create_dir_all(&d1).unwrap();
        let p = shard.write_to_directory(&d1).unwrap();
        let sf = MDBShardFile::load_from_file(&p).unwrap();
        let d2 = dir.path().join("b");
        std::fs::create_dir_all(&d2).unwrap();
        sf.export_as_keyed_shard(&d2, key, Duration::from_secs(1000), false, false, false).unwrap();
        let key2: HMACKey = MerkleHash::from([rng.gen(), rng.gen(), rng.gen(), rng.gen()]);
        sf.export_as_keyed_shard(&d2, key2, Duration::from_secs(1000), true, true, true).unwrap();
        let m = ShardFileManager::new_in_session_directory(&d2).await.unwrap();
        let mut hits = 0;
        for q in &qs {
            let r = m.chunk_hash_dedup_query(q).await.unwrap();
            if r.is_some() {
                hits += 1;
            }
            check("mgr", &truth, None, q, &r);
        }
        let m1 = ShardFileManager::new_in_session_directory(&d1).await.unwrap();
        for q in &qs {
            let r = m1.chunk_hash_dedup_query(q).await.unwrap();
            check("mgr1", &truth, None, q, &r);
        }
        eprintln!("seed {seed}: xorbs {} hits {hits}/{}", truth.len(), qs.len());
    }
}

use std::io::Cursor;

use mdb_shard::interpolation_search::search_on_sorted_u64s;
use rand::prelude::*;
use utils::serialization_utils::*;

#[test]
fn fuzz_search() {
    let mut bad = 0;
    for seed in 0..3000u64 {
        let mut rng = StdRng::seed_from_u64(seed);
        let n = match seed % 5 {
            0 => rng.gen_range(0..10),
            1 => rng.gen_range(200..300),
            2 => rng.gen_range(250..2000),
            3 => rng.gen_range(1000..6000),
            _ => rng.gen_range(0..600),
        };
        let style = rng.gen_range(0..6);
        let mut keys: Vec<u64> = Vec::new();
        while keys.len() < n {
            let k: u64 = match style {
                0 => rng.gen(),
                1 => *[0u64, 1, u64::MAX, u64::MAX - 1].choose(&mut rng).unwrap(),
                2 => rng.gen_range(0..8),
                3 => u64::MAX - rng.gen_range(0..8u64),
                4 => (rng.gen::<u64>() >> 40) << 40,
                _ => {
                    if rng.gen_bool(0.5) {
                        rng.gen()
                    } else {
                        1 << 62
                    }
                },
            };
            let rep = if rng.gen_bool(0.2) { rng.gen_range(1..600) } else { 1 };
            for _ in 0..rep {
                if keys.len() < n {
                    keys.push(k);
                }
            }
        }
        keys.sort_unstable();
        let mut data = Vec::new();
        for (i, k) in keys.iter().enumerate() {
            write_u64(&mut data, *k).unwrap();
            write_u64(&mut data, i as u64).unwrap();
        }
        let mut qs: Vec<u64> = vec![0, 1, u64::MAX, u64::MAX - 1, rng.gen()];
        for _ in 0..20 {
            if !keys.is_empty() {
                qs.push(keys[rng.gen_range(0..keys.len())]);
                qs.push(keys[rng.gen_range(0..keys.len())].wrapping_add(1));
                qs.push(keys[rng.gen_range(0..keys.len())].wrapping_sub(1));
            }
        }
        for q in qs {
            let mut dest = [0u64; 8];
            let c = search_on_sorted_u64s(
                &mut Cursor::new(&data),
                0,
                keys.len() as u64,
                q,
                read_u64::<Cursor<&Vec<u8>>>,
                &mut dest,
            )
            .unwrap();
            let truth = keys.iter().filter(|k| **k == q).count();
            for v in &dest[..c] {
                assert_eq!(keys[*v as usize], q, "seed {seed}: value for wrong key");
            }
            let mut d = dest[..c].to_vec();
            d.sort();
            d.dedup();
            if d.len() != c || c != truth.min(8) {
                bad += 1;
                if bad < 10 {
                    eprintln!("seed {seed} n {n} q {q}: got {c} (distinct {}) truth {truth}", d.len());
                }
            }
        }
    }
    assert_eq!(bad, 0);
}

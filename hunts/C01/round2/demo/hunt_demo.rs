//! C01 hunt demo: a ranged download whose start lies past the end of the file panics inside
//! LocalClient::get_file (cas_client/src/local_client.rs:413-420) instead of returning the (empty)
//! intersection of the range with the file, or an error.  The end of the range is clamped to the file
//! length, the start is not, so `&file_vec[start..end]` is evaluated with start > end.
//!
//! Install: cp OUT/demo/hunt_demo.rs data/tests/hunt_demo.rs
//! Run:     cargo test --offline -p data --test hunt_demo

use cas_client::{FileProvider, OutputProvider};
use cas_types::FileRange;
use data::configurations::TranslatorConfig;
use data::{FileDownloader, FileUploadSession, PointerFile};
use tempfile::TempDir;
use xet_threadpool::ThreadPool;

#[tokio::test(flavor = "multi_thread", worker_threads = 2)]
async fn ranged_download_starting_past_eof() {
    let tmp = TempDir::new().unwrap();
    let config = TranslatorConfig::local_config(tmp.path().join("cas")).unwrap();

    // Upload a 1000 byte file.
    let data: Vec<u8> = (0..1000u32).map(|i| (i * 7 + 3) as u8).collect();
    let session = FileUploadSession::new(config.clone(), ThreadPool::from_current_runtime(), None)
        .await
        .unwrap();
    let mut cleaner = session.start_clean("f".to_owned());
    cleaner.add_data(&data).await.unwrap();
    let (pf, _) = cleaner.finish().await.unwrap();
    session.finalize().await.unwrap();
    let pointer_text = pf.to_string();

    let downloader = FileDownloader::new(config, ThreadPool::from_current_runtime()).await.unwrap();
    let pf = PointerFile::init_from_string(&pointer_text, "");
    assert!(pf.is_valid());

    // Sanity: full download and a range overlapping the end of the file work (the end is clamped).
    let out = tmp.path().join("out_full");
    let n = downloader
        .smudge_file_from_pointer(&pf, &OutputProvider::File(FileProvider::new(out.clone())), None, None)
        .await
        .unwrap();
    assert_eq!(n, 1000);
    assert_eq!(std::fs::read(&out).unwrap(), data);

    let out = tmp.path().join("out_tail");
    let n = downloader
        .smudge_file_from_pointer(
            &pf,
            &OutputProvider::File(FileProvider::new(out.clone())),
            Some(FileRange { start: 900, end: 5000 }),
            None,
        )
        .await
        .unwrap();
    assert_eq!(n, 100);
    assert_eq!(std::fs::read(&out).unwrap(), data[900..]);

    // A range that starts exactly at the end is fine as well (empty).
    let out = tmp.path().join("out_at_end");
    let n = downloader
        .smudge_file_from_pointer(
            &pf,
            &OutputProvider::File(FileProvider::new(out.clone())),
            Some(FileRange { start: 1000, end: 2000 }),
            None,
        )
        .await
        .unwrap();
    assert_eq!(n, 0);

    // One byte further: the bytes of the file that lie in [1001, 2000) are the empty sequence, so the
    // download has to produce nothing (or report an error).  Instead the call panics.
    let out = tmp.path().join("out_past_end");
    let task = tokio::spawn(async move {
        downloader
            .smudge_file_from_pointer(
                &pf,
                &OutputProvider::File(FileProvider::new(out)),
                Some(FileRange { start: 1001, end: 2000 }),
                None,
            )
            .await
    });
    match task.await {
        Ok(Ok(n)) => assert_eq!(n, 0, "a range past the end of the file holds no bytes"),
        Ok(Err(e)) => eprintln!("reported as an error (acceptable): {e:?}"),
        Err(join_error) => panic!(
            "DEFECT: smudge_file_from_pointer panicked for a range starting past the end of the file: {join_error:?}"
        ),
    }
}

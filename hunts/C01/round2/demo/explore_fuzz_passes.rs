use std::sync::Arc;

use cas_client::{FileProvider, OutputProvider};
use cas_types::FileRange;
use data::configurations::TranslatorConfig;
use data::{FileDownloader, FileUploadSession, PointerFile};
use rand::rngs::StdRng;
use rand::{Rng, RngCore, SeedableRng};
use tempfile::TempDir;
use tokio::task::JoinSet;
use xet_threadpool::ThreadPool;

fn env_usize(name: &str, default: usize) -> usize {
    std::env::var(name).ok().and_then(|s| s.parse().ok()).unwrap_or(default)
}

fn gen_file(rng: &mut StdRng, pool: &mut Vec<Vec<u8>>, max_block: usize) -> Vec<u8> {
    let mut out = Vec::new();
    let kind = rng.gen_range(0..10);
    if kind == 0 {
        return out; // empty
    }
    if kind == 1 {
        let n = rng.gen_range(1..64);
        out.resize(n, 0);
        rng.fill_bytes(&mut out);
        return out;
    }
    let n_parts = rng.gen_range(1..12);
    for _ in 0..n_parts {
        let choice = rng.gen_range(0..10);
        if choice < 5 && !pool.is_empty() {
            let idx = rng.gen_range(0..pool.len());
            let b = &pool[idx];
            // Sometimes use only part of a block
            if rng.gen_bool(0.3) {
                let s = rng.gen_range(0..b.len());
                let e = rng.gen_range(s..=b.len());
                out.extend_from_slice(&b[s..e]);
            } else {
                out.extend_from_slice(b);
            }
        } else if choice < 6 {
            // constant run
            let n = rng.gen_range(1..max_block);
            let v: u8 = rng.gen_range(0..3);
            out.extend(std::iter::repeat(v).take(n));
        } else {
            let n = rng.gen_range(1..max_block);
            let mut b = vec![0u8; n];
            rng.fill_bytes(&mut b);
            out.extend_from_slice(&b);
            pool.push(b);
        }
    }
    out
}

async fn run(seed: u64) {
    let n_sessions = env_usize("HUNT_SESSIONS", 3);
    let n_files = env_usize("HUNT_FILES", 5);
    let max_block = env_usize("HUNT_MAX_BLOCK", 6000);

    let tmp = TempDir::new().unwrap();
    let cas_dir = tmp.path().join("cas");
    let out_dir = tmp.path().join("out");
    std::fs::create_dir_all(&out_dir).unwrap();

    let mut rng = StdRng::seed_from_u64(seed);
    let mut pool: Vec<Vec<u8>> = Vec::new();

    let mut all: Vec<(String, Vec<u8>)> = Vec::new();

    for s in 0..n_sessions {
        let config = TranslatorConfig::local_config(&cas_dir).unwrap();
        let session = FileUploadSession::new(config.clone(), ThreadPool::from_current_runtime(), None)
            .await
            .unwrap();

        let mut tasks = JoinSet::new();
        let concurrent = rng.gen_bool(0.7);
        let mut results: Vec<(String, Vec<u8>)> = Vec::new();
        let mut session_local: Vec<Vec<u8>> = Vec::new();
        for f in 0..n_files {
            let data = if rng.gen_bool(0.15) && !all.is_empty() {
                all[rng.gen_range(0..all.len())].1.clone()
            } else if rng.gen_bool(0.15) && !session_local.is_empty() {
                session_local[rng.gen_range(0..session_local.len())].clone()
            } else {
                gen_file(&mut rng, &mut pool, max_block)
            };
            session_local.push(data.clone());
            let sub_seed: u64 = rng.gen();
            let session = session.clone();
            let name = format!("s{s}_f{f}");
            let fut = async move {
                let mut r = StdRng::seed_from_u64(sub_seed);
                let mut cleaner = session.start_clean(name.clone());
                let mut pos = 0;
                while pos < data.len() {
                    let n = match r.gen_range(0..4) {
                        0 => 1,
                        1 => r.gen_range(1..100),
                        2 => r.gen_range(1..5000),
                        _ => data.len() - pos,
                    }
                    .min(data.len() - pos);
                    cleaner.add_data(&data[pos..pos + n]).await.unwrap();
                    pos += n;
                    if r.gen_bool(0.3) {
                        tokio::task::yield_now().await;
                    }
                }
                let (pf, _m) = cleaner.finish().await.unwrap();
                assert_eq!(pf.filesize() as usize, data.len(), "pointer filesize");
                (pf.to_string(), data)
            };
            if concurrent {
                tasks.spawn(fut);
            } else {
                results.push(fut.await);
            }
        }
        while let Some(r) = tasks.join_next().await {
            results.push(r.unwrap());
        }
        let m = session.finalize().await.unwrap();
        if std::env::var("HUNT_VERBOSE").is_ok() { eprintln!("  session {s}: total {} dedup {} new {} defrag_prev {} xorbs {}", m.total_bytes, m.deduped_bytes, m.new_bytes, m.defrag_prevented_dedup_bytes, std::fs::read_dir(cas_dir.join("xet/xorbs/xorbs")).map(|d| d.count()).unwrap_or(0)); }
        all.extend(results);

        // Download everything
        let downloader = FileDownloader::new(config, ThreadPool::from_current_runtime()).await.unwrap();
        for (i, (pf_s, data)) in all.iter().enumerate() {
            let pf = PointerFile::init_from_string(pf_s, "");
            assert!(pf.is_valid());
            let out = out_dir.join(format!("o_{s}_{i}"));
            let prov = OutputProvider::File(FileProvider::new(out.clone()));
            let n = downloader.smudge_file_from_pointer(&pf, &prov, None, None).await.unwrap();
            let got = std::fs::read(&out).unwrap();
            assert_eq!(n as usize, data.len(), "seed {seed} session {s} file {i} len (returned)");
            assert!(got == *data, "seed {seed} session {s} file {i} content mismatch (len {} vs {})", got.len(), data.len());
            std::fs::remove_file(&out).unwrap();

            if !data.is_empty() {
                let a = rng.gen_range(0..=data.len());
                let b = rng.gen_range(a..=data.len());
                let prov = OutputProvider::File(FileProvider::new(out.clone()));
                let n = downloader
                    .smudge_file_from_pointer(&pf, &prov, Some(FileRange { start: a as u64, end: b as u64 }), None)
                    .await
                    .unwrap();
                let got = std::fs::read(&out).unwrap();
                assert_eq!(n as usize, b - a);
                assert!(got == data[a..b], "seed {seed} range mismatch");
                std::fs::remove_file(&out).unwrap();
            }
        }
    }
}

#[tokio::test(flavor = "multi_thread", worker_threads = 4)]
async fn hunt_fuzz() {
    let start = env_usize("HUNT_SEED_START", 0) as u64;
    let n = env_usize("HUNT_SEEDS", 20) as u64;
    eprintln!("consts: chunk {} xorb_bytes {} xorb_chunks {} shard_min {} ", *deduplication::constants::TARGET_CHUNK_SIZE, *deduplication::constants::MAX_XORB_BYTES, *deduplication::constants::MAX_XORB_CHUNKS, *mdb_shard::constants::MDB_SHARD_MIN_TARGET_SIZE);
    for seed in start..start + n {
        eprintln!("seed {seed}");
        run(seed).await;
    }
    let _ = Arc::new(0);
}

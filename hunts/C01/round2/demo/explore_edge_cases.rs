use std::sync::Arc;

use cas_client::{FileProvider, OutputProvider};
use cas_types::FileRange;
use data::configurations::TranslatorConfig;
use data::{FileDownloader, FileUploadSession, PointerFile};
use rand::rngs::StdRng;
use rand::{RngCore, SeedableRng};
use tempfile::TempDir;
use xet_threadpool::ThreadPool;

fn rand_bytes(seed: u64, n: usize) -> Vec<u8> {
    let mut rng = StdRng::seed_from_u64(seed);
    let mut v = vec![0u8; n];
    rng.fill_bytes(&mut v);
    v
}

async fn download(config: Arc<TranslatorConfig>, pf_s: &str, out: &std::path::Path, range: Option<FileRange>) -> Vec<u8> {
    let downloader = FileDownloader::new(config, ThreadPool::from_current_runtime()).await.unwrap();
    let pf = PointerFile::init_from_string(pf_s, "");
    assert!(pf.is_valid());
    let _ = std::fs::remove_file(out);
    let prov = OutputProvider::File(FileProvider::new(out.to_path_buf()));
    let n = downloader.smudge_file_from_pointer(&pf, &prov, range, None).await.unwrap();
    let got = std::fs::read(out).unwrap();
    assert_eq!(n as usize, got.len());
    got
}

#[tokio::test(flavor = "multi_thread", worker_threads = 4)]
async fn same_file_twice_concurrently() {
    let tmp = TempDir::new().unwrap();
    let cas_dir = tmp.path().join("cas");
    let config = TranslatorConfig::local_config(&cas_dir).unwrap();
    let data = rand_bytes(1, 3_000_000);

    let session = FileUploadSession::new(config.clone(), ThreadPool::from_current_runtime(), None)
        .await
        .unwrap();
    let mut js = tokio::task::JoinSet::new();
    for i in 0..4 {
        let session = session.clone();
        let data = data.clone();
        js.spawn(async move {
            let mut c = session.start_clean(format!("f{i}"));
            for part in data.chunks(100_000 + i * 7777) {
                c.add_data(part).await.unwrap();
                c.add_data(&[]).await.unwrap();
            }
            c.finish().await.unwrap().0.to_string()
        });
    }
    let pfs = js.join_all().await;
    session.finalize().await.unwrap();
    for pf in pfs {
        let got = download(config.clone(), &pf, &tmp.path().join("o"), None).await;
        assert!(got == data);
    }
}

#[tokio::test(flavor = "multi_thread", worker_threads = 4)]
async fn two_sessions_alive() {
    let tmp = TempDir::new().unwrap();
    let cas_dir = tmp.path().join("cas");
    let config = TranslatorConfig::local_config(&cas_dir).unwrap();
    let a = rand_bytes(1, 1_000_000);
    let mut b = rand_bytes(2, 500_000);
    b.extend_from_slice(&a);

    let s1 = FileUploadSession::new(config.clone(), ThreadPool::from_current_runtime(), None).await.unwrap();
    let s2 = FileUploadSession::new(config.clone(), ThreadPool::from_current_runtime(), None).await.unwrap();
    let mut c1 = s1.start_clean("a".into());
    let mut c2 = s2.start_clean("b".into());
    c1.add_data(&a).await.unwrap();
    c2.add_data(&b[..600_000]).await.unwrap();
    let p1 = c1.finish().await.unwrap().0.to_string();
    s1.finalize().await.unwrap();
    c2.add_data(&b[600_000..]).await.unwrap();
    let p2 = c2.finish().await.unwrap().0.to_string();
    s2.finalize().await.unwrap();
    assert!(download(config.clone(), &p1, &tmp.path().join("o"), None).await == a);
    assert!(download(config.clone(), &p2, &tmp.path().join("o"), None).await == b);

    // empty session
    let s3 = FileUploadSession::new(config.clone(), ThreadPool::from_current_runtime(), None).await.unwrap();
    s3.finalize().await.unwrap();
    // session with only an empty file and no add_data
    let s4 = FileUploadSession::new(config.clone(), ThreadPool::from_current_runtime(), None).await.unwrap();
    let c = s4.start_clean("e".into());
    let p = c.finish().await.unwrap().0.to_string();
    s4.finalize().await.unwrap();
    assert!(download(config.clone(), &p, &tmp.path().join("o"), None).await.is_empty());
}

#[tokio::test(flavor = "multi_thread", worker_threads = 4)]
async fn ranges() {
    let tmp = TempDir::new().unwrap();
    let cas_dir = tmp.path().join("cas");
    let config = TranslatorConfig::local_config(&cas_dir).unwrap();
    let a = rand_bytes(1, 300_000);
    let s1 = FileUploadSession::new(config.clone(), ThreadPool::from_current_runtime(), None).await.unwrap();
    let mut c1 = s1.start_clean("a".into());
    c1.add_data(&a).await.unwrap();
    let p1 = c1.finish().await.unwrap().0.to_string();
    s1.finalize().await.unwrap();
    let o = tmp.path().join("o");
    for (s, e) in [(0u64, 0u64), (0, 1), (299_999, 300_000), (300_000, 300_000), (100, 400_000), (5, 300_000)] {
        let got = download(config.clone(), &p1, &o, Some(FileRange { start: s, end: e })).await;
        let ee = (e as usize).min(a.len());
        assert!(got == a[s as usize..ee], "range {s} {e}");
    }
    // start past the end of the file
    let got = download(config.clone(), &p1, &o, Some(FileRange { start: 300_001, end: 300_002 })).await;
    assert!(got.is_empty());
}

#[tokio::test(flavor = "multi_thread", worker_threads = 4)]
async fn big_xorb_many_chunks() {
    if std::env::var("HUNT_BIG").is_err() {
        return;
    }
    let tmp = TempDir::new().unwrap();
    let cas_dir = tmp.path().join("cas");
    let config = TranslatorConfig::local_config(&cas_dir).unwrap();
    let a = rand_bytes(1, 12_000_000);
    let s1 = FileUploadSession::new(config.clone(), ThreadPool::from_current_runtime(), None).await.unwrap();
    let mut c1 = s1.start_clean("a".into());
    c1.add_data(&a).await.unwrap();
    let (pf, m) = c1.finish().await.unwrap();
    eprintln!("chunks {}", m.total_chunks);
    let p1 = pf.to_string();
    s1.finalize().await.unwrap();
    assert!(download(config.clone(), &p1, &tmp.path().join("o"), None).await == a);

    let mut b = a[10_000_000..].to_vec();
    b.extend_from_slice(&a[..3_000_000]);
    b.extend_from_slice(&a[9_000_000..11_000_000]);
    let s2 = FileUploadSession::new(config.clone(), ThreadPool::from_current_runtime(), None).await.unwrap();
    let mut c2 = s2.start_clean("b".into());
    c2.add_data(&b).await.unwrap();
    let (pf, m) = c2.finish().await.unwrap();
    eprintln!("chunks {} deduped {}", m.total_chunks, m.deduped_chunks);
    let p2 = pf.to_string();
    s2.finalize().await.unwrap();
    assert!(download(config.clone(), &p2, &tmp.path().join("o"), None).await == b);
}

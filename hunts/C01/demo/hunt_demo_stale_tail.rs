// C01 demo: downloading a file from its pointer file into an output path that already holds a longer
// file (an older version of the file, the pointer file itself, a leftover of an earlier attempt ...)
// leaves the old tail in place: the resulting file is NOT byte-identical to what was uploaded.
// FileProvider::get_writer_at opens the output with truncate(false) and nobody ever sets the final length.
// Same for a ranged download.

use cas_client::{FileProvider, OutputProvider};
use cas_types::FileRange;
use data::configurations::TranslatorConfig;
use data::{FileDownloader, FileUploadSession, PointerFile};
use tempfile::TempDir;
use xet_threadpool::ThreadPool;

#[tokio::test(flavor = "multi_thread", worker_threads = 2)]
async fn download_over_longer_existing_file_keeps_stale_tail() {
    let tmp = TempDir::new().unwrap();
    let cas = tmp.path().join("cas");

    let new_version: Vec<u8> = b"new short content".to_vec();

    let session = FileUploadSession::new(TranslatorConfig::local_config(&cas).unwrap(), ThreadPool::from_current_runtime(), None)
        .await
        .unwrap();
    let mut c = session.start_clean("file.txt".into());
    c.add_data(&new_version).await.unwrap();
    let (pf, _) = c.finish().await.unwrap();
    session.finalize().await.unwrap();

    // The destination already exists and is longer (e.g. the previous version of file.txt).
    let out = tmp.path().join("file.txt");
    std::fs::write(&out, vec![b'#'; 100]).unwrap();

    let pf = PointerFile::init_from_string(&pf.to_string(), "file.txt");
    let downloader = FileDownloader::new(TranslatorConfig::local_config(&cas).unwrap(), ThreadPool::from_current_runtime())
        .await
        .unwrap();
    let n = downloader
        .smudge_file_from_pointer(&pf, &OutputProvider::File(FileProvider::new(out.clone())), None, None)
        .await
        .unwrap();
    assert_eq!(n as usize, new_version.len());

    let got = std::fs::read(&out).unwrap();
    assert!(
        got == new_version,
        "C01 VIOLATED: downloaded file has {} bytes, uploaded {} bytes; content = {:?}",
        got.len(),
        new_version.len(),
        String::from_utf8_lossy(&got)
    );
}

#[tokio::test(flavor = "multi_thread", worker_threads = 2)]
async fn ranged_download_over_longer_existing_file_keeps_stale_tail() {
    let tmp = TempDir::new().unwrap();
    let cas = tmp.path().join("cas");
    let data: Vec<u8> = (0..200u8).collect();

    let session = FileUploadSession::new(TranslatorConfig::local_config(&cas).unwrap(), ThreadPool::from_current_runtime(), None)
        .await
        .unwrap();
    let mut c = session.start_clean("f".into());
    c.add_data(&data).await.unwrap();
    let (pf, _) = c.finish().await.unwrap();
    session.finalize().await.unwrap();

    let out = tmp.path().join("range.out");
    let downloader = FileDownloader::new(TranslatorConfig::local_config(&cas).unwrap(), ThreadPool::from_current_runtime())
        .await
        .unwrap();
    let prov = OutputProvider::File(FileProvider::new(out.clone()));
    // first a long range, then a short one into the same output
    downloader.smudge_file_from_pointer(&pf, &prov, Some(FileRange { start: 0, end: 150 }), None).await.unwrap();
    downloader.smudge_file_from_pointer(&pf, &prov, Some(FileRange { start: 10, end: 20 }), None).await.unwrap();
    let got = std::fs::read(&out).unwrap();
    assert!(got == data[10..20], "C01 VIOLATED: range 10..20 requested, output file has {} bytes", got.len());
}

// C01 demo: a failed background xorb upload is reported to whichever caller happens to reap the
// upload task (here: an unrelated file's add_data) and is then forgotten by the session.
// FileUploadSession::finalize() afterwards returns Ok although a xorb of a successfully cleaned
// file was never stored, so that file cannot be downloaded from its pointer file.
//
// Runs against the unmodified source with default features.  The store failure is a natural one of
// LocalClient::put: the path of exactly one xorb is occupied by a directory for a while (put ->
// exists() -> "not a file" -> Err), i.e. a transient storage error for a single xorb.

use std::path::{Path, PathBuf};
use std::time::Duration;

use cas_client::{FileProvider, OutputProvider};
use data::configurations::TranslatorConfig;
use data::{FileDownloader, FileUploadSession, PointerFile};
use deduplication::constants::{MAX_XORB_BYTES, MAX_XORB_CHUNKS, TARGET_CHUNK_SIZE};
use rand::rngs::StdRng;
use rand::{RngCore, SeedableRng};
use tempfile::TempDir;
use utils::test_set_globals;
use xet_threadpool::ThreadPool;

test_set_globals! {
    TARGET_CHUNK_SIZE = 8 * 1024;
    MAX_XORB_BYTES = 5 * (*TARGET_CHUNK_SIZE);
    MAX_XORB_CHUNKS = 8;
}

fn random_bytes(seed: u64, n: usize) -> Vec<u8> {
    let mut v = vec![0u8; n];
    StdRng::seed_from_u64(seed).fill_bytes(&mut v);
    v
}

fn xorb_dir(cas: &Path) -> PathBuf {
    // TranslatorConfig::local_config: endpoint = <cas>/xet/xorbs ; LocalClient: xorb_dir = <endpoint>/xorbs
    cas.join("xet").join("xorbs").join("xorbs")
}

fn list_xorbs(cas: &Path) -> Vec<String> {
    match std::fs::read_dir(xorb_dir(cas)) {
        Ok(rd) => rd
            .filter_map(|e| e.ok())
            .filter_map(|e| e.file_name().into_string().ok())
            .filter(|n| n.starts_with("default."))
            .collect(),
        Err(_) => vec![],
    }
}

#[tokio::test(flavor = "multi_thread", worker_threads = 4)]
async fn failed_xorb_upload_is_forgotten_and_finalize_succeeds() {
    let tmp = TempDir::new().unwrap();

    // File B: the first 60 KB make the cleaner cut exactly one xorb mid-file (limit is 40 KB).
    let b_data = random_bytes(1, 100 * 1024);
    let b_first = 60 * 1024;

    // ---- Pre-pass in a scratch store: learn the name of B's first mid-file xorb.
    let scratch = tmp.path().join("scratch");
    let x1_name = {
        let session =
            FileUploadSession::new(TranslatorConfig::local_config(&scratch).unwrap(), ThreadPool::from_current_runtime(), None)
                .await
                .unwrap();
        let mut b = session.start_clean("b".into());
        b.add_data(&b_data[..b_first]).await.unwrap();
        let mut names = vec![];
        for _ in 0..200 {
            names = list_xorbs(&scratch);
            if !names.is_empty() {
                break;
            }
            tokio::time::sleep(Duration::from_millis(20)).await;
        }
        tokio::time::sleep(Duration::from_millis(200)).await;
        names = list_xorbs(&scratch);
        assert_eq!(names.len(), 1, "pre-pass: expected exactly one mid-file xorb, got {names:?}");
        drop(b);
        drop(session);
        names.pop().unwrap()
    };

    // ---- Main run.  The path of that one xorb is temporarily unusable in the real store.
    let cas = tmp.path().join("cas");
    let blocker = xorb_dir(&cas).join(&x1_name);
    std::fs::create_dir_all(&blocker).unwrap();

    let session = FileUploadSession::new(TranslatorConfig::local_config(&cas).unwrap(), ThreadPool::from_current_runtime(), None)
        .await
        .unwrap();

    let mut b = session.start_clean("b".into());
    // Cuts xorb X1; its upload runs in the background and fails.
    b.add_data(&b_data[..b_first]).await.unwrap();

    // An unrelated file A is cleaned concurrently in the same session.  When A cuts a xorb, the session
    // reaps finished upload tasks and hands B's upload error to A.
    let mut a = session.start_clean("a".into());
    let mut a_err = None;
    for i in 0..100u64 {
        tokio::time::sleep(Duration::from_millis(30)).await;
        if let Err(e) = a.add_data(&random_bytes(1000 + i, 64 * 1024)).await {
            a_err = Some(e);
            break;
        }
    }
    let a_err = a_err.expect("the failed upload of B's xorb never surfaced anywhere");
    eprintln!("file A's add_data returned the error of file B's xorb upload: {a_err:?}");
    // The caller gives up on file A only.
    drop(a);

    // The storage fault is over.
    std::fs::remove_dir_all(&blocker).unwrap();

    // File B is completed without any error ...
    b.add_data(&b_data[b_first..]).await.unwrap();
    let (pf_b, _) = b.finish().await.expect("B.finish");
    assert_eq!(pf_b.filesize() as usize, b_data.len());

    // ... and the session finalizes.  If it reported the failure here, the property would hold vacuously.
    match session.finalize().await {
        Err(e) => {
            eprintln!("finalize failed (fine, session did not finalize successfully): {e:?}");
            return;
        },
        Ok(_) => eprintln!("finalize() returned Ok"),
    }

    // C01: B was cleaned in a session that finalized successfully => must be downloadable, byte for byte.
    let pf = PointerFile::init_from_string(&pf_b.to_string(), "");
    assert!(pf.is_valid());
    let out = tmp.path().join("b.out");
    let downloader = FileDownloader::new(TranslatorConfig::local_config(&cas).unwrap(), ThreadPool::from_current_runtime())
        .await
        .unwrap();
    let res = downloader
        .smudge_file_from_pointer(&pf, &OutputProvider::File(FileProvider::new(out.clone())), None, None)
        .await;
    assert!(
        res.is_ok(),
        "C01 VIOLATED: session finalized successfully but file B cannot be downloaded: {:?} (xorb {} was never stored)",
        res.err(),
        x1_name
    );
    assert!(std::fs::read(&out).unwrap() == b_data, "C01 VIOLATED: downloaded bytes differ");
}

/// Variant: the file that is lost never saw any error at all.  B1 is cleaned and finished successfully (its
/// data waits in the session aggregate).  The background upload of a xorb of another file F fails.  When a
/// third file C finishes, the session cuts the aggregate (holding B1) into a xorb; on the way it reaps F's
/// upload error and returns it from C.finish() *after* the aggregate was consumed, so B1's data and file
/// entry are dropped.  finalize() still returns Ok.
#[tokio::test(flavor = "multi_thread", worker_threads = 4)]
async fn finished_file_is_dropped_when_another_files_upload_error_is_reaped() {
    let tmp = TempDir::new().unwrap();
    let f_data = random_bytes(1, 60 * 1024);

    let scratch = tmp.path().join("scratch");
    let x1_name = {
        let session =
            FileUploadSession::new(TranslatorConfig::local_config(&scratch).unwrap(), ThreadPool::from_current_runtime(), None)
                .await
                .unwrap();
        let mut f = session.start_clean("f".into());
        f.add_data(&f_data).await.unwrap();
        tokio::time::sleep(Duration::from_millis(500)).await;
        let mut names = list_xorbs(&scratch);
        assert_eq!(names.len(), 1, "pre-pass: expected exactly one mid-file xorb, got {names:?}");
        drop(f);
        drop(session);
        names.pop().unwrap()
    };

    let cas = tmp.path().join("cas");
    let blocker = xorb_dir(&cas).join(&x1_name);
    std::fs::create_dir_all(&blocker).unwrap();

    let session = FileUploadSession::new(TranslatorConfig::local_config(&cas).unwrap(), ThreadPool::from_current_runtime(), None)
        .await
        .unwrap();

    // B1: cleaned and finished with no error whatsoever.
    let b1_data = random_bytes(2, 35 * 1024);
    let mut b1 = session.start_clean("b1".into());
    b1.add_data(&b1_data).await.unwrap();
    let (pf_b1, _) = b1.finish().await.unwrap();

    // F: cuts a xorb whose background upload fails.
    let mut f = session.start_clean("f".into());
    f.add_data(&f_data).await.unwrap();
    tokio::time::sleep(Duration::from_millis(500)).await;

    // C: its finish() makes the session cut the aggregate that holds B1; F's error is reaped there.
    let mut c = session.start_clean("c".into());
    c.add_data(&random_bytes(3, 20 * 1024)).await.unwrap();
    let c_res = c.finish().await;
    eprintln!("C.finish() -> {:?}", c_res.as_ref().map(|_| ()));
    assert!(c_res.is_err(), "expected C.finish() to receive F's upload error");
    drop(f);
    std::fs::remove_dir_all(&blocker).unwrap();

    match session.finalize().await {
        Err(e) => {
            eprintln!("finalize failed (fine): {e:?}");
            return;
        },
        Ok(_) => eprintln!("finalize() returned Ok"),
    }

    let pf = PointerFile::init_from_string(&pf_b1.to_string(), "");
    let out = tmp.path().join("b1.out");
    let downloader = FileDownloader::new(TranslatorConfig::local_config(&cas).unwrap(), ThreadPool::from_current_runtime())
        .await
        .unwrap();
    let res = downloader
        .smudge_file_from_pointer(&pf, &OutputProvider::File(FileProvider::new(out.clone())), None, None)
        .await;
    assert!(
        res.is_ok(),
        "C01 VIOLATED: session finalized successfully but file B1 (cleaned without any error) cannot be downloaded: {:?}",
        res.err()
    );
    assert!(std::fs::read(&out).unwrap() == b1_data, "C01 VIOLATED: downloaded bytes differ");
}

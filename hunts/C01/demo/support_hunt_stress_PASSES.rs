// Randomized model-based stress for C01 (upload -> download round trip).
// Limits come from HF_XET_* env vars set by the caller; seeds from HUNT_SEED / HUNT_ITERS.
use std::path::Path;
use std::sync::Arc;

use cas_client::{FileProvider, OutputProvider};
use cas_types::FileRange;
use data::configurations::TranslatorConfig;
use data::{FileDownloader, FileUploadSession, PointerFile};
use rand::rngs::StdRng;
use rand::{Rng, RngCore, SeedableRng};
use tempfile::TempDir;
use tokio::task::JoinSet;
use xet_threadpool::ThreadPool;

fn env_usize(name: &str, default: usize) -> usize {
    std::env::var(name).ok().and_then(|s| s.parse().ok()).unwrap_or(default)
}

fn gen_file(rng: &mut StdRng, pool: &mut Vec<Vec<u8>>, max_blocks: usize, blk: usize) -> Vec<u8> {
    let mut out = Vec::new();
    let n = rng.gen_range(0..=max_blocks);
    for _ in 0..n {
        let choice = rng.gen_range(0..10);
        if choice < 6 && !pool.is_empty() {
            // reuse an earlier block (possibly a run of consecutive ones)
            let start = rng.gen_range(0..pool.len());
            let run = rng.gen_range(1..=4).min(pool.len() - start);
            for b in &pool[start..start + run] {
                out.extend_from_slice(b);
            }
        } else if choice < 9 {
            let len = rng.gen_range(1..=blk);
            let mut b = vec![0u8; len];
            rng.fill_bytes(&mut b);
            pool.push(b.clone());
            out.extend_from_slice(&b);
        } else {
            // constant run (max-size chunks, all the same)
            let len = rng.gen_range(1..=blk * 2);
            let v = rng.gen_range(0..3u8);
            out.extend(std::iter::repeat(v).take(len));
        }
    }
    out
}

async fn download(cas: &Path, tmp: &Path, pf: &PointerFile, range: Option<FileRange>, tag: &str) -> Vec<u8> {
    let config = TranslatorConfig::local_config(cas).unwrap();
    let downloader = FileDownloader::new(config, ThreadPool::from_current_runtime()).await.unwrap();
    let out = tmp.join(format!("out_{tag}"));
    let _ = std::fs::remove_file(&out);
    let prov = OutputProvider::File(FileProvider::new(out.clone()));
    let pf2 = PointerFile::init_from_string(&pf.to_string(), "");
    assert!(pf2.is_valid());
    downloader.smudge_file_from_pointer(&pf2, &prov, range, None).await.unwrap();
    std::fs::read(&out).unwrap_or_default()
}

async fn run_one(seed: u64) {
    let mut rng = StdRng::seed_from_u64(seed);
    let tmp = TempDir::new().unwrap();
    let cas = tmp.path().join("cas");
    let blk = env_usize("HUNT_BLK", 600);
    let max_blocks = env_usize("HUNT_MAX_BLOCKS", 40);
    let n_sessions = rng.gen_range(1..=3);
    let mut pool: Vec<Vec<u8>> = Vec::new();
    let mut all: Vec<(PointerFile, Vec<u8>)> = Vec::new();

    for s in 0..n_sessions {
        let config = TranslatorConfig::local_config(&cas).unwrap();
        let session = FileUploadSession::new(config, ThreadPool::from_current_runtime(), None)
            .await
            .unwrap();
        let n_files = rng.gen_range(1..=4);
        let mut js = JoinSet::new();
        for f in 0..n_files {
            let data = if rng.gen_bool(0.15) && !all.is_empty() {
                all[rng.gen_range(0..all.len())].1.clone()
            } else {
                gen_file(&mut rng, &mut pool, max_blocks, blk)
            };
            let fseed: u64 = rng.gen();
            let session = session.clone();
            let concurrent = rng.gen_bool(0.5);
            let fut = async move {
                let mut r = StdRng::seed_from_u64(fseed);
                let mut cleaner = session.start_clean(format!("s{s}f{f}"));
                let mut pos = 0;
                while pos < data.len() {
                    let step = match r.gen_range(0..4) {
                        0 => 1,
                        1 => r.gen_range(1..=64),
                        2 => r.gen_range(1..=2000),
                        _ => data.len(),
                    };
                    let end = (pos + step).min(data.len());
                    cleaner.add_data(&data[pos..end]).await.unwrap();
                    pos = end;
                    if r.gen_bool(0.3) {
                        tokio::task::yield_now().await;
                    }
                }
                let (pf, _m) = cleaner.finish().await.unwrap();
                assert_eq!(pf.filesize() as usize, data.len());
                (pf, data)
            };
            if concurrent {
                js.spawn(fut);
            } else {
                let r = fut.await;
                all.push(r);
            }
        }
        while let Some(r) = js.join_next().await {
            all.push(r.unwrap());
        }
        session.finalize().await.unwrap();

        // verify everything so far
        for (i, (pf, data)) in all.iter().enumerate() {
            let got = download(&cas, tmp.path(), pf, None, "full").await;
            assert!(got == *data, "seed {seed} session {s} file {i}: full mismatch (len {} vs {})", got.len(), data.len());
            if !data.is_empty() {
                for _ in 0..2 {
                    let a = rng.gen_range(0..=data.len());
                    let b = rng.gen_range(a..=data.len());
                    let got = download(&cas, tmp.path(), pf, Some(FileRange { start: a as u64, end: b as u64 }), "rng").await;
                    assert!(got == data[a..b], "seed {seed} session {s} file {i}: range {a}..{b} mismatch");
                }
            }
        }
    }
}

#[tokio::test(flavor = "multi_thread", worker_threads = 4)]
async fn hunt_stress() {
    let seed0 = env_usize("HUNT_SEED", 1) as u64;
    let iters = env_usize("HUNT_ITERS", 20) as u64;
    for i in 0..iters {
        eprintln!("== seed {}", seed0 + i);
        run_one(seed0 + i).await;
    }
    let _ = Arc::new(());
}

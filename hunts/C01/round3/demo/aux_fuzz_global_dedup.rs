// Randomised end-to-end round trip: several sessions against one store, several files per session cleaned
// concurrently, heavy repetition, small limits taken from HF_XET_* env variables.
use std::path::Path;
use std::sync::Arc;

use cas_client::{FileProvider, OutputProvider};
use cas_types::FileRange;
use data::configurations::*;
use cas_client::LocalClient;
use cas_client::{CasClientError, Client, ReconstructionClient, ShardClientInterface, UploadClient, VerifRegistrationClient, VerifShardDedupProber};
use mdb_shard::shard_file_reconstructor::FileReconstructor;
use mdb_shard::file_structs::MDBFileInfo;
use merklehash::MerkleHash;
use std::path::PathBuf;

/// LocalClient whose global-dedup answer is delivered atomically (copy + rename, one at a time), as a
/// well-behaved server/client pair would.
struct AtomicDedupClient {
    inner: LocalClient,
    cache_dir: PathBuf,
    lock: tokio::sync::Mutex<()>,
}

#[async_trait::async_trait]
impl UploadClient for AtomicDedupClient {
    async fn put(&self, prefix: &str, hash: &MerkleHash, data: Vec<u8>, cb: Vec<(MerkleHash, u32)>) -> Result<usize, CasClientError> {
        self.inner.put(prefix, hash, data, cb).await
    }
    async fn exists(&self, prefix: &str, hash: &MerkleHash) -> Result<bool, CasClientError> {
        self.inner.exists(prefix, hash).await
    }
}
#[async_trait::async_trait]
impl ReconstructionClient for AtomicDedupClient {
    async fn get_file(&self, hash: &MerkleHash, r: Option<FileRange>, o: &OutputProvider, p: Option<Arc<dyn utils::progress::ProgressUpdater>>) -> Result<u64, CasClientError> {
        self.inner.get_file(hash, r, o, p).await
    }
}
#[async_trait::async_trait]
impl VerifRegistrationClient for AtomicDedupClient {
    async fn upload_shard(&self, prefix: &str, hash: &MerkleHash, f: bool, d: &[u8], salt: &[u8; 32]) -> Result<bool, CasClientError> {
        self.inner.upload_shard(prefix, hash, f, d, salt).await
    }
}
#[async_trait::async_trait]
impl FileReconstructor<CasClientError> for AtomicDedupClient {
    async fn get_file_reconstruction_info(&self, h: &MerkleHash) -> Result<Option<(MDBFileInfo, Option<MerkleHash>)>, CasClientError> {
        self.inner.get_file_reconstruction_info(h).await
    }
}
#[async_trait::async_trait]
impl VerifShardDedupProber for AtomicDedupClient {
    async fn query_for_global_dedup_shard(&self, prefix: &str, h: &MerkleHash, salt: &[u8; 32]) -> Result<Option<PathBuf>, CasClientError> {
        let _g = self.lock.lock().await;
        let Some(staged) = self.inner.query_for_global_dedup_shard(prefix, h, salt).await? else { return Ok(None); };
        let dest = self.cache_dir.join(staged.file_name().unwrap());
        if !dest.exists() {
            let tmp = self.cache_dir.join(".incoming.tmp");
            std::fs::copy(&staged, &tmp).unwrap();
            std::fs::rename(&tmp, &dest).unwrap();
        }
        Ok(Some(dest))
    }
}
impl ShardClientInterface for AtomicDedupClient {}
impl Client for AtomicDedupClient {}

use data::{FileDownloader, FileUploadSession, PointerFile};
use rand::rngs::StdRng;
use rand::{Rng, RngCore, SeedableRng};
use tempfile::TempDir;
use tokio::task::JoinSet;
use xet_threadpool::ThreadPool;

fn env_usize(name: &str, default: usize) -> usize {
    std::env::var(name).ok().and_then(|s| s.parse().ok()).unwrap_or(default)
}

fn gen_file(rng: &mut StdRng, pool: &[Vec<u8>], max_parts: usize) -> Vec<u8> {
    let n_parts = rng.gen_range(0..=max_parts);
    let mut out = Vec::new();
    for _ in 0..n_parts {
        match rng.gen_range(0..10) {
            0 => {
                // fresh random bytes
                let n = rng.gen_range(0..600);
                let mut b = vec![0u8; n];
                rng.fill_bytes(&mut b);
                out.extend_from_slice(&b);
            },
            1 => {
                // constant run (gives max-size identical chunks)
                let n = rng.gen_range(0..3000);
                let v = rng.gen_range(0..3u8);
                out.extend(std::iter::repeat(v).take(n));
            },
            _ => {
                let b = &pool[rng.gen_range(0..pool.len())];
                out.extend_from_slice(b);
            },
        }
    }
    out
}

fn machine_config(store: &Path, machine: &Path) -> Arc<TranslatorConfig> {
    let base = TranslatorConfig::local_config(machine).unwrap();
    Arc::new(TranslatorConfig {
        data_config: DataConfig {
            endpoint: Endpoint::FileSystem(store.to_path_buf()),
            compression: Default::default(),
            auth: None,
            prefix: base.data_config.prefix.clone(),
            cache_config: base.data_config.cache_config.clone(),
            staging_directory: None,
        },
        shard_config: ShardConfig {
            prefix: base.shard_config.prefix.clone(),
            cache_directory: base.shard_config.cache_directory.clone(),
            session_directory: base.shard_config.session_directory.clone(),
            global_dedup_policy: Default::default(),
            repo_salt: Default::default(),
        },
        repo_info: None,
    })
}

async fn download(cas_dir: &Path, pf_text: &str, range: Option<FileRange>, out: &Path) -> Vec<u8> {
    let _ = std::fs::remove_file(out);
    let config = machine_config(cas_dir, &cas_dir.parent().unwrap().join("dl"));
    let downloader = FileDownloader::new(config, ThreadPool::from_current_runtime()).await.unwrap();
    let pf = PointerFile::init_from_string(pf_text, "");
    assert!(pf.is_valid());
    let provider = OutputProvider::File(FileProvider::new(out.to_path_buf()));
    downloader.smudge_file_from_pointer(&pf, &provider, range, None).await.unwrap();
    std::fs::read(out).unwrap()
}

async fn run_case(seed: u64) {
    let mut rng = StdRng::seed_from_u64(seed);
    let tmp = TempDir::new().unwrap();
    let cas_dir = tmp.path().join("cas");
    let out_path = tmp.path().join("out.bin");

    let n_pool = rng.gen_range(1..8);
    let pool: Vec<Vec<u8>> = (0..n_pool)
        .map(|_| {
            let n = rng.gen_range(1..1500);
            let mut b = vec![0u8; n];
            rng.fill_bytes(&mut b);
            b
        })
        .collect();

    let n_sessions = rng.gen_range(1..=env_usize("HUNT_SESSIONS", 3));
    let mut all: Vec<(String, Vec<u8>)> = Vec::new();

    for _s in 0..n_sessions {
        let machine = tmp.path().join(format!("m{}", rng.gen_range(0..3)));
        let config = machine_config(&cas_dir, &machine);
        std::fs::create_dir_all(&config.shard_config.cache_directory).unwrap();
        let stage = machine.join("stage");
        std::fs::create_dir_all(&stage).unwrap();
        let client = Arc::new(AtomicDedupClient {
            inner: LocalClient::new(&cas_dir, Some(stage)).unwrap(),
            cache_dir: config.shard_config.cache_directory.clone(),
            lock: tokio::sync::Mutex::new(()),
        });
        let session = FileUploadSession::new_with_client(config, ThreadPool::from_current_runtime(), None, client, false)
            .await
            .unwrap();

        let n_files = rng.gen_range(1..=env_usize("HUNT_FILES", 5));
        let mut tasks = JoinSet::new();
        let mut prev_in_session: Vec<Vec<u8>> = Vec::new();
        for _f in 0..n_files {
            let data = if !all.is_empty() && rng.gen_bool(0.15) {
                all[rng.gen_range(0..all.len())].1.clone()
            } else if !prev_in_session.is_empty() && rng.gen_bool(0.15) {
                prev_in_session[rng.gen_range(0..prev_in_session.len())].clone()
            } else {
                gen_file(&mut rng, &pool, env_usize("HUNT_PARTS", 12))
            };
            prev_in_session.push(data.clone());
            let sub_seed: u64 = rng.gen();
            let session = session.clone();
            tasks.spawn(async move {
                let mut r = StdRng::seed_from_u64(sub_seed);
                let mut cleaner = session.start_clean("f".to_owned());
                let mut pos = 0;
                while pos < data.len() {
                    let step = match r.gen_range(0..4) {
                        0 => r.gen_range(0..4),
                        1 => r.gen_range(0..100),
                        2 => r.gen_range(0..2000),
                        _ => data.len(),
                    };
                    let end = (pos + step).min(data.len());
                    cleaner.add_data(&data[pos..end]).await.unwrap();
                    pos = end;
                    if r.gen_bool(0.3) {
                        tokio::task::yield_now().await;
                    }
                }
                let (pf, metrics) = cleaner.finish().await.unwrap();
                assert_eq!(pf.filesize() as usize, data.len());
                assert_eq!(metrics.total_bytes, data.len());
                (pf.to_string(), data)
            });
        }
        let sequential = rng.gen_bool(0.3);
        let mut results = Vec::new();
        if sequential {
            // nothing special: tasks are already spawned; just join.
        }
        while let Some(r) = tasks.join_next().await {
            results.push(r.unwrap());
        }
        let m = session.finalize().await.unwrap();
        eprintln!("GD {} {}", m.deduped_chunks_by_global_dedup, m.deduped_chunks);
        all.extend(results);

        // verify everything so far
        for (pf_text, data) in all.iter() {
            let got = download(&cas_dir, pf_text, None, &out_path).await;
            assert!(got == *data, "seed {seed}: full download differs (len {} vs {})", got.len(), data.len());
            if !data.is_empty() {
                for _ in 0..2 {
                    let a = rng.gen_range(0..data.len());
                    let b = rng.gen_range(a..=data.len());
                    let got = download(&cas_dir, pf_text, Some(FileRange { start: a as u64, end: b as u64 }), &out_path).await;
                    assert!(got == data[a..b], "seed {seed}: ranged download {a}..{b} differs");
                }
            }
        }
    }
}

#[tokio::test(flavor = "multi_thread", worker_threads = 4)]
async fn fuzz_round_trip() {
    let start = env_usize("HUNT_SEED_START", 0) as u64;
    let n = env_usize("HUNT_SEEDS", 50) as u64;
    for seed in start..start + n {
        eprintln!("seed {seed}");
        run_case(seed).await;
    }
}

#[allow(dead_code)]
fn _unused(_: Arc<()>) {}

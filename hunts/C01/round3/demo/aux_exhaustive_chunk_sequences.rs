use std::path::Path;
use cas_client::{FileProvider, OutputProvider};
use data::configurations::TranslatorConfig;
use data::{FileDownloader, FileUploadSession, PointerFile};
use tempfile::TempDir;
use xet_threadpool::ThreadPool;

fn block(v: u8) -> Vec<u8> {
    // 256 bytes = maximum chunk for target 128; pseudo-random but fixed per symbol so that it is one or more fixed chunks
    let mut x = v as u32 * 7919 + 13;
    (0..256).map(|_| { x = x.wrapping_mul(1103515245).wrapping_add(12345); (x >> 16) as u8 }).collect()
}
fn file_of(seq: &[u8]) -> Vec<u8> { seq.iter().flat_map(|&v| block(v)).collect() }

async fn upload(cas: &Path, files: &[Vec<u8>]) -> Vec<String> {
    let s = FileUploadSession::new(TranslatorConfig::local_config(cas).unwrap(), ThreadPool::from_current_runtime(), None).await.unwrap();
    let mut out = vec![];
    for f in files {
        let mut c = s.start_clean("x".into());
        c.add_data(f).await.unwrap();
        out.push(c.finish().await.unwrap().0.to_string());
    }
    s.finalize().await.unwrap();
    out
}
async fn download(cas: &Path, pf: &str, out: &Path) -> Vec<u8> {
    let _ = std::fs::remove_file(out);
    let d = FileDownloader::new(TranslatorConfig::local_config(cas).unwrap(), ThreadPool::from_current_runtime()).await.unwrap();
    let pf = PointerFile::init_from_string(pf, "");
    d.smudge_file_from_pointer(&pf, &OutputProvider::File(FileProvider::new(out.to_path_buf())), None, None).await.unwrap();
    std::fs::read(out).unwrap()
}

#[tokio::test(flavor = "multi_thread", worker_threads = 2)]
async fn exhaustive() {
    let maxlen: usize = std::env::var("HUNT_MAXLEN").ok().and_then(|s| s.parse().ok()).unwrap_or(6);
    let nsym: u8 = 3;
    let base: Vec<u8> = vec![0, 1, 2, 1, 0];
    let tmp = TempDir::new().unwrap();
    let out = tmp.path().join("o");
    let mut n = 0;
    let minlen: usize = std::env::var("HUNT_MINLEN").ok().and_then(|s| s.parse().ok()).unwrap_or(0);
    for len in minlen..=maxlen {
        let total = (nsym as usize).pow(len as u32);
        for code in 0..total {
            let mut seq = vec![]; let mut c = code;
            for _ in 0..len { seq.push((c % nsym as usize) as u8); c /= nsym as usize; }
            let cas = tmp.path().join(format!("c{n}")); n += 1;
            let f1 = file_of(&base); let f2 = file_of(&seq);
            let p1 = upload(&cas, &[f1.clone()]).await;
            let p2 = upload(&cas, &[f2.clone(), f2.clone()]).await;
            assert!(download(&cas, &p1[0], &out).await == f1, "base {:?}", seq);
            assert!(download(&cas, &p2[0], &out).await == f2, "seq {:?}", seq);
            assert!(download(&cas, &p2[1], &out).await == f2, "seq(2) {:?}", seq);
            std::fs::remove_dir_all(&cas).unwrap();
        }
    }
}

// C01 demo: a file uploaded in a session that finalizes successfully cannot be downloaded through a
// FileDownloader that was created before that session finalized.  LocalClient snapshots the store's shard
// directory once, in LocalClient::new, and get_file never looks at the directory again.
//
// Run (from the repository root, after copying this file to data/tests/):
//   cargo test --offline -p data --test hunt_demo_stale_downloader -- --nocapture
use cas_client::{FileProvider, OutputProvider};
use data::configurations::TranslatorConfig;
use data::{FileDownloader, FileUploadSession, PointerFile};
use tempfile::TempDir;
use xet_threadpool::ThreadPool;

#[tokio::test(flavor = "multi_thread", worker_threads = 2)]
async fn download_through_a_downloader_opened_before_the_upload() {
    let tmp = TempDir::new().unwrap();
    let cas = tmp.path().join("cas");

    // A long-lived downloader on the (still empty) store.
    let early_downloader = FileDownloader::new(TranslatorConfig::local_config(&cas).unwrap(), ThreadPool::from_current_runtime())
        .await
        .unwrap();

    // Upload one file; the session finalizes successfully.
    let data: Vec<u8> = (0..100_000u32).map(|i| (i.wrapping_mul(2654435761) >> 13) as u8).collect();
    let session = FileUploadSession::new(TranslatorConfig::local_config(&cas).unwrap(), ThreadPool::from_current_runtime(), None)
        .await
        .unwrap();
    let mut cleaner = session.start_clean("f".to_owned());
    cleaner.add_data(&data).await.unwrap();
    let (pf, _) = cleaner.finish().await.unwrap();
    session.finalize().await.unwrap();
    let pf = PointerFile::init_from_string(&pf.to_string(), "");
    assert!(pf.is_valid());

    // Control: a downloader created now returns the bytes.
    let out_late = tmp.path().join("late.bin");
    let late_downloader = FileDownloader::new(TranslatorConfig::local_config(&cas).unwrap(), ThreadPool::from_current_runtime())
        .await
        .unwrap();
    late_downloader
        .smudge_file_from_pointer(&pf, &OutputProvider::File(FileProvider::new(out_late.clone())), None, None)
        .await
        .unwrap();
    assert!(std::fs::read(&out_late).unwrap() == data);

    // The property: the file "can afterwards be downloaded from its pointer file".
    let out_early = tmp.path().join("early.bin");
    let res = early_downloader
        .smudge_file_from_pointer(&pf, &OutputProvider::File(FileProvider::new(out_early.clone())), None, None)
        .await;
    eprintln!("download through the earlier downloader: {res:?}");
    assert!(res.is_ok(), "download of a successfully uploaded file failed: {res:?}");
    assert!(std::fs::read(&out_early).unwrap() == data);
}

// C01 demo (LocalClient constructed with a shard cache directory, i.e. with global dedup answering):
// LocalClient::query_for_global_dedup_shard copies the shard with std::fs::copy straight onto its final
// name in the shard cache directory.  All eligible chunks of one add_data block are queried concurrently
// (one spawned task each), and concurrently cleaned files do the same, so several tasks truncate and
// rewrite the same destination while others are already parsing / reading it
// (SessionShardInterface::query_dedup_shard_by_chunk -> register_shards_by_path, and later dedup lookups).
// Cleaning a perfectly ordinary file then panics (debug: shard integrity assertion) or fails with a
// shard parse / IO error, although nothing is wrong with the store.
//
// Needs the in-tree `verif` feature only for FileUploadSession::new_with_client (to hand the session a
// LocalClient that answers global dedup queries; data::create_remote_client never passes a cache dir).
//
// Run (from the repository root, after copying this file to data/tests/):
//   HF_XET_TARGET_CHUNK_SIZE=128 HF_XET_MDB_SHARD_GLOBAL_DEDUP_CHUNK_MODULUS=1 \
//     cargo test --offline -p data --features verif --test hunt_demo_global_dedup_copy_race -- --nocapture
use std::path::Path;
use std::sync::Arc;

use cas_client::{FileProvider, LocalClient, OutputProvider};
use data::configurations::*;
use data::{FileDownloader, FileUploadSession, PointerFile};
use tempfile::TempDir;
use xet_threadpool::ThreadPool;

fn machine_config(store: &Path, machine: &Path) -> Arc<TranslatorConfig> {
    let base = TranslatorConfig::local_config(machine).unwrap();
    Arc::new(TranslatorConfig {
        data_config: DataConfig {
            endpoint: Endpoint::FileSystem(store.to_path_buf()),
            compression: Default::default(),
            auth: None,
            prefix: base.data_config.prefix.clone(),
            cache_config: base.data_config.cache_config.clone(),
            staging_directory: None,
        },
        shard_config: ShardConfig {
            prefix: base.shard_config.prefix.clone(),
            cache_directory: base.shard_config.cache_directory.clone(),
            session_directory: base.shard_config.session_directory.clone(),
            global_dedup_policy: GlobalDedupPolicy::Always,
            repo_salt: Default::default(),
        },
        repo_info: None,
    })
}

async fn upload(store: &Path, machine: &Path, data: &[u8]) -> String {
    let config = machine_config(store, machine);
    std::fs::create_dir_all(&config.shard_config.cache_directory).unwrap();
    let client = Arc::new(LocalClient::new(store, Some(config.shard_config.cache_directory.clone())).unwrap());
    let session = FileUploadSession::new_with_client(config, ThreadPool::from_current_runtime(), None, client, false)
        .await
        .unwrap();
    let mut cleaner = session.start_clean("f".to_owned());
    cleaner.add_data(data).await.unwrap();
    let (pf, _) = cleaner.finish().await.unwrap();
    session.finalize().await.unwrap();
    pf.to_string()
}

#[tokio::test(flavor = "multi_thread", worker_threads = 4)]
async fn second_machine_uploads_a_file_the_store_already_knows() {
    let data: Vec<u8> = (0..200_000u32).map(|i| (i.wrapping_mul(2654435761) >> 13) as u8).collect();
    for round in 0..50 {
        eprintln!("round {round}");
        let tmp = TempDir::new().unwrap();
        let store = tmp.path().join("store");

        // Machine A uploads the file.
        let _ = upload(&store, &tmp.path().join("machine_a"), &data).await;

        // Machine B (its own, empty shard cache) uploads the same file to the same store.
        let pf = upload(&store, &tmp.path().join("machine_b"), &data).await;

        // ... and it must come back byte for byte.
        let out = tmp.path().join("out.bin");
        let d = FileDownloader::new(machine_config(&store, &tmp.path().join("dl")), ThreadPool::from_current_runtime())
            .await
            .unwrap();
        let pf = PointerFile::init_from_string(&pf, "");
        d.smudge_file_from_pointer(&pf, &OutputProvider::File(FileProvider::new(out.clone())), None, None)
            .await
            .unwrap();
        assert!(std::fs::read(&out).unwrap() == data);
    }
    eprintln!("race not hit in 50 rounds");
}

use std::collections::HashSet;
use std::sync::Arc;

use data::configurations::TranslatorConfig;
use data::FileUploadSession;
use deduplication::DeduplicationMetrics;
use mdb_shard::shard_file_handle::MDBShardFile;
use rand::rngs::StdRng;
use rand::{Rng, RngCore, SeedableRng};
use tempfile::TempDir;
use xet_threadpool::ThreadPool;

fn env_usize(name: &str, default: usize) -> usize {
    std::env::var(name).ok().and_then(|s| s.parse().ok()).unwrap_or(default)
}

fn rand_data(seed: u64, n: usize) -> Vec<u8> {
    let mut rng = StdRng::seed_from_u64(seed);
    let mut v = vec![0u8; n];
    rng.fill_bytes(&mut v);
    v
}

async fn upload(
    cas: &std::path::Path,
    files: Vec<Vec<u8>>,
    concurrent: bool,
    feed: usize,
) -> (DeduplicationMetrics, Vec<DeduplicationMetrics>) {
    let config = TranslatorConfig::local_config(cas).unwrap();
    let session = FileUploadSession::new(config, ThreadPool::from_current_runtime(), None)
        .await
        .unwrap();

    let mut per_file = Vec::new();
    if concurrent {
        let mut js = tokio::task::JoinSet::new();
        for (i, f) in files.into_iter().enumerate() {
            let s = session.clone();
            js.spawn(async move {
                let mut c = s.start_clean(format!("f{i}"));
                for blk in f.chunks(feed.max(1)) {
                    c.add_data(blk).await.unwrap();
                }
                let (_pf, m) = c.finish().await.unwrap();
                m
            });
        }
        while let Some(r) = js.join_next().await {
            per_file.push(r.unwrap());
        }
    } else {
        for (i, f) in files.into_iter().enumerate() {
            let mut c = session.start_clean(format!("f{i}"));
            for blk in f.chunks(feed.max(1)) {
                c.add_data(blk).await.unwrap();
            }
            let (_pf, m) = c.finish().await.unwrap();
            per_file.push(m);
        }
    }
    let m = session.finalize().await.unwrap();
    (m, per_file)
}

fn check_xorbs_recorded(cas: &std::path::Path) {
    // every xorb in the store must have a CAS entry in some shard of the cache
    let shard_dir = cas.join("xet").join("shard-cache");
    let mut recorded = HashSet::new();
    let mut n_chunks = 0usize;
    for s in MDBShardFile::load_all_valid(&shard_dir).unwrap() {
        for ci in s.shard.read_all_cas_blocks_full(&mut s.get_reader().unwrap()).unwrap() {
            n_chunks += ci.chunks.len();
            recorded.insert(ci.metadata.cas_hash.hex());
        }
    }
    let xorb_dir = cas.join("xet").join("xorbs").join("xorbs");
    let mut n = 0;
    for e in walk(&xorb_dir) {
        let name = e.file_name().unwrap().to_str().unwrap().to_owned();
        let hex = name.rsplit('.').next().unwrap().to_owned();
        n += 1;
        assert!(
            recorded.iter().any(|h| name.contains(h.as_str())),
            "xorb {name} ({hex}) not recorded in any cache shard"
        );
    }
    eprintln!("   xorbs on disk: {n}, recorded cas blocks: {}, chunks: {n_chunks}", recorded.len());
}

fn walk(p: &std::path::Path) -> Vec<std::path::PathBuf> {
    let mut out = vec![];
    if let Ok(rd) = std::fs::read_dir(p) {
        for e in rd {
            let e = e.unwrap();
            if e.path().is_dir() {
                out.extend(walk(&e.path()));
            } else {
                out.push(e.path());
            }
        }
    }
    out
}

#[tokio::test(flavor = "multi_thread", worker_threads = 4)]
async fn fuzz_repeat_sessions() {
    let iters = env_usize("HUNT_ITERS", 20);
    let seed0 = env_usize("HUNT_SEED", 1) as u64;
    let max_files = env_usize("HUNT_MAX_FILES", 6);
    let max_size = env_usize("HUNT_MAX_SIZE", 400_000);
    let mut failures = 0;

    for it in 0..iters {
        let mut rng = StdRng::seed_from_u64(seed0 * 1000 + it as u64);
        let tmp = TempDir::new().unwrap();
        let cas = tmp.path().join("cas");

        let nfiles = rng.gen_range(1..=max_files);
        let mut files = Vec::new();
        for _ in 0..nfiles {
            let size = match rng.gen_range(0..5) {
                0 => rng.gen_range(0..200),
                1 => rng.gen_range(0..5000),
                _ => rng.gen_range(0..max_size),
            };
            if env_usize("HUNT_REPETITIVE", 0) == 1 {
                // build from a small pool of blocks
                let npool = rng.gen_range(1..6);
                let pool: Vec<Vec<u8>> = (0..npool)
                    .map(|k| {
                        let n = rng.gen_range(1..(max_size / 8).max(2));
                        if k == 0 && rng.gen_bool(0.3) { vec![0u8; n] } else { rand_data(rng.gen(), n) }
                    })
                    .collect();
                let mut f = Vec::new();
                while f.len() < size {
                    f.extend_from_slice(&pool[rng.gen_range(0..npool)]);
                }
                files.push(f);
            } else {
                files.push(rand_data(rng.gen(), size));
            }
        }
        let conc1 = rng.gen_bool(0.5);
        let feed1 = rng.gen_range(1..200_000);
        let total: usize = files.iter().map(|f| f.len()).sum();

        let (m1, _) = upload(&cas, files.clone(), conc1, feed1).await;
        assert_eq!(m1.total_bytes, total);
        check_xorbs_recorded(&cas);

        // session 2: some re-arrangement
        let mode = rng.gen_range(0..4);
        let mut files2: Vec<Vec<u8>> = match mode {
            0 => files.clone(),
            1 => {
                let mut f = files.clone();
                f.reverse();
                f
            },
            2 => files.iter().filter(|_| rng.gen_bool(0.6)).cloned().collect(),
            _ => {
                let mut f = files.clone();
                f.extend(files.clone());
                f
            },
        };
        if files2.is_empty() {
            files2 = files.clone();
        }
        let conc2 = rng.gen_bool(0.5);
        let feed2 = rng.gen_range(1..200_000);
        let (m2, pf) = upload(&cas, files2.clone(), conc2, feed2).await;
        if m2.new_bytes != m2.defrag_prevented_dedup_bytes {
            failures += 1;
            eprintln!(
                "ITER {it}: sizes {:?} conc1={conc1} feed1={feed1} mode={mode} conc2={conc2} feed2={feed2}: repeat new_bytes={} new_chunks={} defrag={} per-file {:?}",
                files.iter().map(|f| f.len()).collect::<Vec<_>>(),
                m2.new_bytes,
                m2.new_chunks,
                m2.defrag_prevented_dedup_bytes,
                pf.iter().map(|m| m.new_bytes).collect::<Vec<_>>()
            );
        }
        check_xorbs_recorded(&cas);
    }
    assert_eq!(failures, 0);
}

fn chunk_file(data: &[u8]) -> Vec<(merklehash::MerkleHash, usize)> {
    let mut c = deduplication::Chunker::default();
    c.next_block(data, true).into_iter().map(|c| (c.hash, c.data.len())).collect()
}

/// chain of sessions; oracle: a chunk whose hash was stored by an earlier finalized session is never new.
#[tokio::test(flavor = "multi_thread", worker_threads = 4)]
async fn fuzz_session_chain() {
    let iters = env_usize("HUNT_ITERS", 20);
    let seed0 = env_usize("HUNT_SEED", 1) as u64;
    let max_files = env_usize("HUNT_MAX_FILES", 5);
    let max_size = env_usize("HUNT_MAX_SIZE", 400_000);
    let nsessions = env_usize("HUNT_SESSIONS", 5);
    let mut failures = 0;

    for it in 0..iters {
        let mut rng = StdRng::seed_from_u64(seed0 * 7777 + it as u64);
        let tmp = TempDir::new().unwrap();
        let cas = tmp.path().join("cas");
        let mut known: HashSet<merklehash::MerkleHash> = HashSet::new();
        let mut all_files: Vec<Vec<u8>> = Vec::new();
        let pool: Vec<Vec<u8>> = (0..6)
            .map(|k| {
                let n = rng.gen_range(1..(max_size / 6).max(2));
                if k == 0 { vec![7u8; n] } else { rand_data(rng.gen(), n) }
            })
            .collect();

        for sess in 0..nsessions {
            let nfiles = rng.gen_range(1..=max_files);
            let mut files = Vec::new();
            for _ in 0..nfiles {
                let kind = if all_files.is_empty() { if rng.gen_bool(0.5) { 0 } else { 6 } } else { rng.gen_range(0..8) };
                let size = match rng.gen_range(0..5) {
                    0 => rng.gen_range(0..200),
                    1 => rng.gen_range(0..5000),
                    _ => rng.gen_range(0..max_size),
                };
                let f = match kind {
                    0 | 1 => rand_data(rng.gen(), size),
                    2 => all_files[rng.gen_range(0..all_files.len())].clone(),
                    3 => {
                        let mut f = all_files[rng.gen_range(0..all_files.len())].clone();
                        f.extend(rand_data(rng.gen(), size / 4));
                        f
                    },
                    4 => {
                        let mut f = all_files[rng.gen_range(0..all_files.len())].clone();
                        f.extend(all_files[rng.gen_range(0..all_files.len())].clone());
                        f
                    },
                    6 | 7 => {
                        let mut f = Vec::new();
                        while f.len() < size {
                            let k = rng.gen_range(0..pool.len());
                            f.extend_from_slice(&pool[k]);
                        }
                        f
                    },
                    _ => {
                        let a = &all_files[rng.gen_range(0..all_files.len())];
                        let cut = if a.is_empty() { 0 } else { rng.gen_range(0..a.len()) };
                        let mut f = rand_data(rng.gen(), size / 4);
                        f.extend_from_slice(&a[cut..]);
                        f
                    },
                };
                files.push(f);
            }
            let conc = rng.gen_bool(0.5);
            let feed = rng.gen_range(1..200_000);

            let mut allowed_new = 0usize;
            let mut must_dedupe = 0usize;
            let mut this_session = Vec::new();
            for f in &files {
                for (h, n) in chunk_file(f) {
                    if known.contains(&h) {
                        must_dedupe += n;
                    } else {
                        allowed_new += n;
                    }
                    this_session.push(h);
                }
            }
            let (m, pf) = upload(&cas, files.clone(), conc, feed).await;
            if m.new_bytes - m.defrag_prevented_dedup_bytes > allowed_new {
                failures += 1;
                eprintln!(
                    "ITER {it} sess {sess}: sizes {:?} conc={conc} feed={feed}: new_bytes={} > allowed {} (must_dedupe {}, deduped {}) per-file {:?}",
                    files.iter().map(|f| f.len()).collect::<Vec<_>>(),
                    m.new_bytes,
                    allowed_new,
                    must_dedupe,
                    m.deduped_bytes,
                    pf.iter().map(|m| m.new_bytes).collect::<Vec<_>>()
                );
            }
            known.extend(this_session);
            all_files.extend(files);
        }
    }
    assert_eq!(failures, 0);
}

#[tokio::test(flavor = "multi_thread", worker_threads = 4)]
async fn big_default() {
    let tmp = TempDir::new().unwrap();
    let cas = tmp.path().join("cas");
    let size = env_usize("HUNT_BIG", 150_000_000);
    let files = vec![rand_data(1, size), rand_data(2, 1000), rand_data(3, 3_000_000)];
    let (m1, _) = upload(&cas, files.clone(), false, 1 << 20).await;
    eprintln!("m1 {m1:?}");
    check_xorbs_recorded(&cas);
    let (m2, _) = upload(&cas, files.clone(), true, 777_777).await;
    eprintln!("m2 {m2:?}");
    assert_eq!(m2.new_bytes, 0);
}

#[tokio::test(flavor = "multi_thread", worker_threads = 4)]
async fn phased() {
    let Ok(dir) = std::env::var("HUNT_DIR") else { return };
    let cas = std::path::PathBuf::from(dir).join("cas");
    let phase = env_usize("HUNT_PHASE", 1);
    let mut rng = StdRng::seed_from_u64(env_usize("HUNT_SEED", 1) as u64);
    let mut sessions = Vec::new();
    for _ in 0..4 {
        let n = rng.gen_range(1..6);
        let files: Vec<Vec<u8>> = (0..n).map(|_| { let sz = rng.gen_range(0..60000); rand_data(rng.gen(), sz) }).collect();
        sessions.push(files);
    }
    if phase == 1 {
        for f in sessions {
            upload(&cas, f, true, 50000).await;
        }
    } else {
        let all: Vec<Vec<u8>> = sessions.into_iter().flatten().collect();
        let (m, _) = upload(&cas, all, true, 30000).await;
        eprintln!("phase2 {m:?}");
        assert_eq!(m.new_bytes, 0);
    }
}

#[allow(dead_code)]
fn _unused(_: Arc<()>) {}

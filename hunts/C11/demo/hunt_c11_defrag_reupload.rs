//! C11 demo (ALL DEFAULT CONSTANTS): a file uploaded as fresh data and re-uploaded UNCHANGED in a later session
//! transfers new chunk bytes again, and again in every further session.
//!
//! The file is repetitive (a sequence drawn from 20 distinct ~150 KB blocks, 91 MB in total).  All its chunks are
//! recorded in the shards of session 1 and are found by the shard-cache lookup of session 2, but
//! deduplication/src/file_deduplication.rs:179-196 drops the match whenever
//! DefragPrevention::allow_dedup_on_next_range (deduplication/src/defrag_prevention.rs:61-92) says the file
//! reconstruction would get too fragmented, and stores the chunks as new data
//! (DeduplicationMetrics::defrag_prevented_dedup_bytes).
//!
//! Place in data/tests/ and run:  cargo test --offline -p data --test hunt_c11_defrag_reupload -- --nocapture
use data::configurations::TranslatorConfig;
use data::FileUploadSession;
use deduplication::DeduplicationMetrics;
use rand::rngs::StdRng;
use rand::{Rng, RngCore, SeedableRng};
use tempfile::TempDir;
use xet_threadpool::ThreadPool;

async fn upload(cas: &std::path::Path, file: &[u8]) -> DeduplicationMetrics {
    let config = TranslatorConfig::local_config(cas).unwrap();
    let session = FileUploadSession::new(config, ThreadPool::from_current_runtime(), None).await.unwrap();
    let mut c = session.start_clean("f".to_owned());
    c.add_data(file).await.unwrap();
    c.finish().await.unwrap();
    session.finalize().await.unwrap()
}

#[tokio::test(flavor = "multi_thread", worker_threads = 4)]
async fn unchanged_reupload_of_a_repetitive_file_transfers_new_bytes() {
    let mut rng = StdRng::seed_from_u64(1);
    let alphabet: Vec<Vec<u8>> = (0..20)
        .map(|_| {
            let mut b = vec![0u8; rng.gen_range(100_000..200_000)];
            rng.fill_bytes(&mut b);
            b
        })
        .collect();
    let mut f = vec![];
    for _ in 0..600 {
        f.extend_from_slice(&alphabet[rng.gen_range(0..alphabet.len())]);
    }

    let tmp = TempDir::new().unwrap();
    let cas = tmp.path().join("cas");

    let m1 = upload(&cas, &f).await;
    eprintln!("session 1: total={} new={} deduped={} defrag_prevented={}", m1.total_bytes, m1.new_bytes, m1.deduped_bytes, m1.defrag_prevented_dedup_bytes);
    let m2 = upload(&cas, &f).await;
    eprintln!("session 2: total={} new={} deduped={} defrag_prevented={} xorb_bytes_uploaded={}", m2.total_bytes, m2.new_bytes, m2.deduped_bytes, m2.defrag_prevented_dedup_bytes, m2.xorb_bytes_uploaded);
    let m3 = upload(&cas, &f).await;
    eprintln!("session 3: total={} new={} deduped={} defrag_prevented={} xorb_bytes_uploaded={}", m3.total_bytes, m3.new_bytes, m3.deduped_bytes, m3.defrag_prevented_dedup_bytes, m3.xorb_bytes_uploaded);

    assert_eq!(m2.new_bytes, 0, "session 2: unchanged re-upload transferred new chunk bytes");
    assert_eq!(m3.new_bytes, 0, "session 3: unchanged re-upload transferred new chunk bytes");
}

//! C11 demo (documented cap, low severity): once the in-memory chunk index of the shard-cache manager holds
//! CHUNK_INDEX_TABLE_MAX_SIZE entries, `register_shards` (mdb_shard/src/shard_file_manager.rs:233,247) stops
//! indexing the chunks of every shard registered afterwards -- i.e. of every later finalized session -- so their
//! data is uploaded again in full by the sessions after them.  The shard is still put in `shard_list` and
//! `shard_lookup_by_shard_hash`, so it is never reconsidered.  The limit is lowered here to reach it with 4 MB.
//!
//! Place in data/tests/ and run:  cargo test --offline -p data --test hunt_c11_index_cap -- --nocapture
use data::configurations::TranslatorConfig;
use data::FileUploadSession;
use deduplication::DeduplicationMetrics;
use mdb_shard::constants::CHUNK_INDEX_TABLE_MAX_SIZE;
use rand::rngs::StdRng;
use rand::{RngCore, SeedableRng};
use tempfile::TempDir;
use utils::test_set_globals;
use xet_threadpool::ThreadPool;

test_set_globals! {
    CHUNK_INDEX_TABLE_MAX_SIZE = 10;
}

async fn upload(cas: &std::path::Path, file: &[u8]) -> DeduplicationMetrics {
    let config = TranslatorConfig::local_config(cas).unwrap();
    let session = FileUploadSession::new(config, ThreadPool::from_current_runtime(), None).await.unwrap();
    let mut c = session.start_clean("f".to_owned());
    c.add_data(file).await.unwrap();
    c.finish().await.unwrap();
    session.finalize().await.unwrap()
}

#[tokio::test(flavor = "multi_thread", worker_threads = 4)]
async fn sessions_after_the_index_cap_are_never_deduplicated_against() {
    let mut rng = StdRng::seed_from_u64(1);
    let mut a = vec![0u8; 2_000_000];
    rng.fill_bytes(&mut a);
    let mut b = vec![0u8; 2_000_000];
    rng.fill_bytes(&mut b);
    let tmp = TempDir::new().unwrap();
    let cas = tmp.path().join("cas");
    upload(&cas, &a).await; // fills the index past the cap
    upload(&cas, &b).await; // fresh data of a later session
    let m = upload(&cas, &b).await; // unchanged re-upload
    eprintln!("session 3: total={} new={} deduped={}", m.total_bytes, m.new_bytes, m.deduped_bytes);
    assert_eq!(m.new_bytes, 0, "unchanged re-upload transferred new chunk bytes");
}

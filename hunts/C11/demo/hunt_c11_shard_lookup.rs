//! C11 demos at the shard-cache lookup (mdb_shard/src/shard_file_manager.rs, `register_shards` /
//! `chunk_hash_dedup_query`): chunks that ARE recorded in shards of the shard cache are not found by the
//! manager a later session builds over that cache directory.
//!
//! Place in mdb_shard/tests/ and run:  cargo test --offline -p mdb_shard --test hunt_c11_shard_lookup
use mdb_shard::cas_structs::{CASChunkSequenceEntry, CASChunkSequenceHeader, MDBCASInfo};
use mdb_shard::shard_in_memory::MDBInMemoryShard;
use mdb_shard::ShardFileManager;
use merklehash::MerkleHash;

fn h(a: u64, b: u64) -> MerkleHash {
    MerkleHash::from([a, b, b.wrapping_mul(31) ^ a, 7])
}

fn one_chunk_xorb(xorb: MerkleHash, chunk: MerkleHash) -> MDBCASInfo {
    MDBCASInfo {
        metadata: CASChunkSequenceHeader::new(xorb, 1u32, 100u32),
        chunks: vec![CASChunkSequenceEntry::new(chunk, 100u32, 0u32)],
    }
}

/// More than 2^16 shards in the shard cache (every finalized session adds at least one shard, and shards stay
/// for MDB_SHARD_LOCAL_CACHE_EXPIRATION_SECS = 3 weeks): `ChunkCacheElement::shard_index` is a u16 and
/// `register_shards` does not index the chunks of any shard whose position in the collection is > 65535
/// (line 247), so whatever those sessions uploaded is never deduplicated against.
#[tokio::test(flavor = "multi_thread", worker_threads = 2)]
async fn more_than_65536_cache_shards() {
    let dir = tempdir::TempDir::new("hunt").unwrap();
    let n = 65536 + 3;
    for i in 0..n {
        let mut s = MDBInMemoryShard::default();
        s.add_cas_block(one_chunk_xorb(h(1_000_000 + i, 1), h(i + 1, 2))).unwrap();
        s.write_to_directory(dir.path()).unwrap();
    }
    // A "later session": the manager over the shard cache directory.
    let sfm = ShardFileManager::new_in_cache_directory(dir.path()).await.unwrap();
    let mut missing = 0;
    for i in 0..n {
        if sfm.chunk_hash_dedup_query(&[h(i + 1, 2)]).await.unwrap().is_none() {
            missing += 1;
        }
    }
    assert_eq!(missing, 0, "{missing} of {n} recorded chunks are not found by a later session");
}

/// Two different chunks whose hashes agree in the first 64 bits, recorded by two sessions: the manager's
/// `chunk_lookup: HashMap<u64, ChunkCacheElement>` keeps ONE entry per 64-bit prefix, the later insert replaces
/// the earlier one, and `chunk_hash_dedup_query` gives up when the single candidate's full hash differs.
/// (The lookup table inside the shard file does handle up to 8 such collisions; the manager never consults it.)
#[tokio::test(flavor = "multi_thread", worker_threads = 2)]
async fn prefix_collision_hides_chunk() {
    let dir = tempdir::TempDir::new("hunt").unwrap();
    let c1 = h(42, 1);
    let c2 = h(42, 2);
    assert_ne!(c1, c2);
    for (x, c) in [(h(9001, 1), c1), (h(9002, 1), c2)] {
        let mut s = MDBInMemoryShard::default();
        s.add_cas_block(one_chunk_xorb(x, c)).unwrap();
        s.write_to_directory(dir.path()).unwrap();
    }
    let sfm = ShardFileManager::new_in_cache_directory(dir.path()).await.unwrap();
    let r1 = sfm.chunk_hash_dedup_query(&[c1]).await.unwrap();
    let r2 = sfm.chunk_hash_dedup_query(&[c2]).await.unwrap();
    assert!(r1.is_some() && r2.is_some(), "c1 found: {}, c2 found: {}", r1.is_some(), r2.is_some());
}

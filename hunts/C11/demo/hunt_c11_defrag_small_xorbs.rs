//! C11 demo: with a small xorb chunk limit, a fresh NON-repetitive file re-uploaded unchanged transfers new bytes.
//!
//! With MAX_XORB_CHUNKS = 3 every match of the later session is at most one xorb = 3 chunks long, which is below
//! MIN_N_CHUNKS_PER_RANGE * hysteresis (4): once 128 ranges have been seen, DefragPrevention refuses every match
//! that is shorter than the running average (the 1-2 chunk xorbs produced when the byte limit or the end of the
//! file cut a xorb short), and the chunks are stored again as new data.
//!
//! Place in data/tests/ and run:  cargo test --offline -p data --test hunt_c11_defrag_small_xorbs -- --nocapture
use data::configurations::TranslatorConfig;
use data::FileUploadSession;
use deduplication::constants::{MAX_XORB_CHUNKS, TARGET_CHUNK_SIZE};
use deduplication::DeduplicationMetrics;
use rand::rngs::StdRng;
use rand::{RngCore, SeedableRng};
use tempfile::TempDir;
use utils::test_set_globals;
use xet_threadpool::ThreadPool;

test_set_globals! {
    TARGET_CHUNK_SIZE = 512;
    MAX_XORB_CHUNKS = 3;
}

async fn upload(cas: &std::path::Path, files: &[&[u8]]) -> DeduplicationMetrics {
    let config = TranslatorConfig::local_config(cas).unwrap();
    let session = FileUploadSession::new(config, ThreadPool::from_current_runtime(), None).await.unwrap();
    for (i, f) in files.iter().enumerate() {
        let mut c = session.start_clean(format!("f{i}"));
        c.add_data(f).await.unwrap();
        c.finish().await.unwrap();
    }
    session.finalize().await.unwrap()
}

#[tokio::test(flavor = "multi_thread", worker_threads = 4)]
async fn unchanged_reupload_with_small_xorbs_transfers_new_bytes() {
    let mut rng = StdRng::seed_from_u64(7);
    let mut a = vec![0u8; 400_000];
    rng.fill_bytes(&mut a);
    let mut b = vec![0u8; 1_000];
    rng.fill_bytes(&mut b);

    let tmp = TempDir::new().unwrap();
    let cas = tmp.path().join("cas");

    // Session 1: a small file, then a large one (so that the large file's last chunks share the final
    // aggregated xorb), all fresh.
    let m1 = upload(&cas, &[&b, &a]).await;
    eprintln!("session 1: total={} new={}", m1.total_bytes, m1.new_bytes);

    // Session 2: the large file again, unchanged.
    let m2 = upload(&cas, &[&a]).await;
    eprintln!("session 2: total={} new={} deduped={} defrag_prevented={}", m2.total_bytes, m2.new_bytes, m2.deduped_bytes, m2.defrag_prevented_dedup_bytes);
    assert_eq!(m2.new_bytes, 0, "unchanged re-upload transferred new chunk bytes");
}

//! C11 demo: chunks stored at position >= 65536 of a xorb are never found by a later session.
//!
//! mdb_shard/src/shard_file_manager.rs keeps, per chunk, `ChunkCacheElement { cas_chunk_offset: u16, .. }`
//! and `register_shards` silently skips (`continue`) every chunk whose offset in its xorb does not fit in
//! 16 bits.  MAX_XORB_CHUNKS is a configurable limit (HF_XET_MAX_XORB_CHUNKS, also in release builds), so a
//! xorb may hold more chunks than that.  The chunk list IS in the session shard, but the lookup of a later
//! session can never start a match at such a chunk.
//!
//! Place in data/tests/ and run:  cargo test --offline -p data --test hunt_c11_chunk_offset_u16 -- --nocapture
use data::configurations::TranslatorConfig;
use data::FileUploadSession;
use deduplication::constants::{MAX_XORB_CHUNKS, TARGET_CHUNK_SIZE};
use deduplication::{Chunker, DeduplicationMetrics};
use rand::rngs::StdRng;
use rand::{RngCore, SeedableRng};
use tempfile::TempDir;
use utils::test_set_globals;
use xet_threadpool::ThreadPool;

test_set_globals! {
    TARGET_CHUNK_SIZE = 128;
    MAX_XORB_CHUNKS = 200000;
}

async fn upload(cas: &std::path::Path, file: &[u8]) -> DeduplicationMetrics {
    let config = TranslatorConfig::local_config(cas).unwrap();
    let session = FileUploadSession::new(config, ThreadPool::from_current_runtime(), None).await.unwrap();
    let mut c = session.start_clean("f".to_owned());
    c.add_data(file).await.unwrap();
    c.finish().await.unwrap();
    session.finalize().await.unwrap()
}

#[tokio::test(flavor = "multi_thread", worker_threads = 4)]
async fn chunks_past_position_65535_of_a_xorb_are_not_deduplicated() {
    // One fresh 12 MB file; with 128 byte target chunks this is ~117k chunks, all in ONE xorb
    // (12 MB < MAX_XORB_BYTES, 117k < MAX_XORB_CHUNKS).
    let mut rng = StdRng::seed_from_u64(1);
    let mut f = vec![0u8; 12_000_000];
    rng.fill_bytes(&mut f);

    let mut chunker = Chunker::default();
    let mut chunks = chunker.next_block(&f, false);
    chunks.extend(chunker.finish());
    assert!(chunks.len() > 70_000);
    let tail_start: usize = chunks[..66_000].iter().map(|c| c.data.len()).sum();

    let tmp = TempDir::new().unwrap();
    let cas = tmp.path().join("cas");

    let m1 = upload(&cas, &f).await;
    eprintln!("session 1 (fresh):      new_bytes={} of {}", m1.new_bytes, m1.total_bytes);

    // Later session A: the same file, unchanged.  (add_data feeds it in 8 MB blocks; the second block starts
    // at a chunk past position 65535 of the xorb.)
    let m2 = upload(&cas, &f).await;
    eprintln!("session 2 (unchanged):  new_bytes={} deduped_bytes={} of {}", m2.new_bytes, m2.deduped_bytes, m2.total_bytes);

    // Independent store: fresh upload, then a later session uploads a file made of the tail of the first one,
    // cut at a chunk boundary ("recombined").
    let tmp_b = TempDir::new().unwrap();
    let cas = tmp_b.path().join("cas");
    upload(&cas, &f).await;
    let m3 = upload(&cas, &f[tail_start..]).await;
    eprintln!("session 3 (tail only):  new_bytes={} deduped_bytes={} of {}", m3.new_bytes, m3.deduped_bytes, m3.total_bytes);

    assert_eq!(
        (m2.new_bytes, m3.new_bytes),
        (0, 0),
        "(unchanged re-upload, re-upload of the tail) transferred new chunk bytes"
    );
}

use std::collections::HashSet;

use data::configurations::TranslatorConfig;
use data::FileUploadSession;
use deduplication::{Chunker, DeduplicationMetrics};
use merklehash::MerkleHash;
use rand::rngs::StdRng;
use rand::{Rng, RngCore, SeedableRng};
use tempfile::TempDir;
use xet_threadpool::ThreadPool;

fn rand_bytes(seed: u64, n: usize) -> Vec<u8> {
    let mut rng = StdRng::seed_from_u64(seed);
    let mut b = vec![0u8; n];
    rng.fill_bytes(&mut b);
    b
}

fn chunks_of(data: &[u8]) -> Vec<(MerkleHash, usize)> {
    let mut c = Chunker::default();
    let mut out: Vec<_> = c.next_block(data, false).into_iter().map(|c| (c.hash, c.data.len())).collect();
    if let Some(ch) = c.finish() {
        out.push((ch.hash, ch.data.len()));
    }
    out
}

async fn upload(cas: &std::path::Path, files: &[Vec<u8>], concurrent: bool) -> DeduplicationMetrics {
    let config = TranslatorConfig::local_config(cas).unwrap();
    let session = FileUploadSession::new(config, ThreadPool::from_current_runtime(), None).await.unwrap();
    if concurrent {
        let mut js = tokio::task::JoinSet::new();
        for (i, f) in files.iter().enumerate() {
            let s = session.clone();
            let f = f.clone();
            js.spawn(async move {
                let mut c = s.start_clean(format!("f{i}"));
                for blk in f.chunks(7919) {
                    c.add_data(blk).await.unwrap();
                }
                c.finish().await.unwrap();
            });
        }
        js.join_all().await;
    } else {
        for (i, f) in files.iter().enumerate() {
            let mut c = session.start_clean(format!("f{i}"));
            c.add_data(f).await.unwrap();
            c.finish().await.unwrap();
        }
    }
    session.finalize().await.unwrap()
}

#[tokio::test(flavor = "multi_thread", worker_threads = 4)]
async fn explore() {
    let nseeds: u64 = std::env::var("HUNT_SEEDS").ok().and_then(|s| s.parse().ok()).unwrap_or(100);
    let maxsz: usize = std::env::var("HUNT_MAXSZ").ok().and_then(|s| s.parse().ok()).unwrap_or(100 * 1024);
    let mut failures = 0;
    for seed in 0..nseeds {
        let mut rng = StdRng::seed_from_u64(seed);
        let tmp = TempDir::new().unwrap();
        let cas = tmp.path().join("cas");
        let mut blobs: Vec<Vec<u8>> = vec![];
        let mut known: HashSet<MerkleHash> = HashSet::new();
        let alpha: Vec<Vec<u8>> = (0..rng.gen_range(2..30)).map(|_| { let n = rng.gen_range(1..6000); rand_bytes(rng.gen(), n) }).collect();
        let alpha_mode = std::env::var("HUNT_ALPHA").is_ok();
        let nsessions = rng.gen_range(2..6);
        for s in 0..nsessions {
            let nfiles = rng.gen_range(1..8);
            let mut files = vec![];
            for _ in 0..nfiles {
                let nparts = rng.gen_range(1..4);
                let mut f = vec![];
                for _ in 0..nparts {
                    if alpha_mode && rng.gen_bool(0.7) {
                        for _ in 0..rng.gen_range(1..200) {
                            f.extend_from_slice(&alpha[rng.gen_range(0..alpha.len())]);
                        }
                    } else if !blobs.is_empty() && rng.gen_bool(0.5) {
                        let b = &blobs[rng.gen_range(0..blobs.len())];
                        f.extend_from_slice(b);
                    } else {
                        let size = match rng.gen_range(0..5) {
                            0 => rng.gen_range(0..64),
                            1 => rng.gen_range(64..3000),
                            2 => rng.gen_range(3000..16 * 1024),
                            3 => rng.gen_range(16 * 1024..40 * 1024),
                            _ => rng.gen_range(0..maxsz),
                        };
                        let b = rand_bytes(rng.gen(), size);
                        f.extend_from_slice(&b);
                        blobs.push(b);
                    }
                }
                files.push(f);
            }
            let conc = rng.gen_bool(0.3);
            let mut fresh = 0usize;
            let mut all = vec![];
            for f in &files {
                for (h, n) in chunks_of(f) {
                    if !known.contains(&h) {
                        fresh += n;
                    }
                    all.push(h);
                }
            }
            let m = upload(&cas, &files, conc).await;
            let total: usize = files.iter().map(|f| f.len()).sum();
            assert_eq!(m.total_bytes, total);
            if m.new_bytes - m.defrag_prevented_dedup_bytes > fresh {
                failures += 1;
                eprintln!(
                    "SEED {seed} session {s}: conc={conc} sizes={:?} new={} fresh_bound={} defrag={}",
                    files.iter().map(|f| f.len()).collect::<Vec<_>>(),
                    m.new_bytes,
                    fresh,
                    m.defrag_prevented_dedup_bytes
                );
            }
            known.extend(all);
            failures += check_disk(&cas, seed, s).await;
        }
    }
    assert_eq!(failures, 0);
}

async fn check_disk(cas: &std::path::Path, seed: u64, s: usize) -> usize {
    use mdb_shard::{MDBShardFile, ShardFileManager};
    let mut failures = 0;
    let cache = cas.join("xet").join("shard-cache");
    let xorbs = cas.join("xet").join("xorbs").join("xorbs");
    // Fresh copy of the cache dir to emulate a new process.
    let copy = TempDir::new().unwrap();
    for e in std::fs::read_dir(&cache).unwrap() {
        let e = e.unwrap();
        std::fs::copy(e.path(), copy.path().join(e.file_name())).unwrap();
    }
    let sfm = ShardFileManager::new_in_cache_directory(copy.path()).await.unwrap();
    let mut blocks = std::collections::HashMap::new();
    for sh in MDBShardFile::load_all_valid(copy.path()).unwrap() {
        for b in sh.shard.read_all_cas_blocks_full(&mut sh.get_reader().unwrap()).unwrap() {
            blocks.insert(b.metadata.cas_hash, b);
        }
    }
    for e in std::fs::read_dir(&xorbs).unwrap() {
        let e = e.unwrap();
        let mut f = std::io::BufReader::new(std::fs::File::open(e.path()).unwrap());
        let co = cas_object::CasObject::deserialize(&mut f).unwrap();
        let h = co.info.cashash;
        match blocks.get(&h) {
            None => {
                failures += 1;
                eprintln!("SEED {seed} session {s}: xorb {h:?} ({} chunks) not in any cache shard", co.info.num_chunks);
            },
            Some(b) => {
                let hs: Vec<_> = b.chunks.iter().map(|c| c.chunk_hash).collect();
                if hs != co.info.chunk_hashes {
                    failures += 1;
                    eprintln!("SEED {seed} session {s}: xorb {h:?} chunk list mismatch");
                }
            },
        }
        for (i, ch) in co.info.chunk_hashes.iter().enumerate() {
            let r = sfm.chunk_hash_dedup_query(&[*ch]).await.unwrap();
            if r.is_none() {
                failures += 1;
                eprintln!("SEED {seed} session {s}: chunk {i} of xorb {h:?} not found by fresh manager");
            }
        }
    }
    failures
}

// C11 demo: a chunk that an earlier, finalized session stored and recorded in the shard cache is
// transferred again by a later session, although fragmentation prevention never refused it.
//
// Mechanism (deduplication/src/file_deduplication.rs, FileDeduper::process_chunks):
//   * the shard lookups of a block are kept only at the START of each matched run
//     (deduped_blocks[i] = Some((n, fse)); positions i+1 .. i+n-1 stay None);
//   * the result loop may enter such a run in the MIDDLE: a match against the file's own pending
//     new data (dedup_query_against_local_data) that starts before the run and ends inside it moves
//     cur_idx to a position whose entry is None;
//   * for that position no shard lookup is made any more: the chunk is stored as new data.
//
// Run with default constants:
//   cargo test --offline -p data --test hunt_demo_c11 -- --nocapture
use std::collections::HashSet;
use std::io::BufReader;
use std::path::Path;

use data::configurations::TranslatorConfig;
use data::FileUploadSession;
use deduplication::{Chunk, Chunker, DeduplicationMetrics};
use merklehash::MerkleHash;
use rand::rngs::StdRng;
use rand::{RngCore, SeedableRng};
use xet_threadpool::ThreadPool;

/// Uploads one file in one session; the file is handed over in the given pieces (one add_data call each).
async fn upload_one(cas: &Path, pieces: &[Vec<u8>]) -> DeduplicationMetrics {
    let config = TranslatorConfig::local_config(cas).unwrap();
    let session = FileUploadSession::new(config, ThreadPool::from_current_runtime(), None)
        .await
        .unwrap();
    let mut cleaner = session.start_clean("file".to_owned());
    for p in pieces {
        cleaner.add_data(p).await.unwrap();
    }
    cleaner.finish().await.unwrap();
    session.finalize().await.unwrap()
}

/// (xorb hash, chunk hashes) of every xorb in the local CAS.
fn xorbs(cas: &Path) -> Vec<(MerkleHash, Vec<MerkleHash>)> {
    let dir = cas.join("xet").join("xorbs").join("xorbs");
    let mut out = vec![];
    for e in std::fs::read_dir(dir).unwrap() {
        let e = e.unwrap();
        let name = e.file_name().into_string().unwrap();
        let h = MerkleHash::from_hex(name.rsplit('.').next().unwrap()).unwrap();
        let mut r = BufReader::new(std::fs::File::open(e.path()).unwrap());
        let co = cas_object::CasObject::deserialize(&mut r).unwrap();
        out.push((h, co.info.chunk_hashes.clone()));
    }
    out
}

/// (chunk hashes) recorded in the CAS sections of the shards in <cas>/xet/shard-cache.
fn shard_cache_chunks(cas: &Path) -> HashSet<MerkleHash> {
    let mut set = HashSet::new();
    for s in mdb_shard::MDBShardFile::load_all_valid(cas.join("xet").join("shard-cache")).unwrap() {
        for ci in s.shard.read_all_cas_blocks_full(&mut s.get_reader().unwrap()).unwrap() {
            for c in ci.chunks.iter() {
                set.insert(c.chunk_hash);
            }
        }
    }
    set
}

fn cat(chunks: &[&Chunk]) -> Vec<u8> {
    let mut v = vec![];
    for c in chunks {
        v.extend_from_slice(&c.data);
    }
    v
}

#[tokio::test(flavor = "multi_thread", worker_threads = 4)]
async fn chunk_recorded_by_earlier_session_is_uploaded_again_without_defrag_refusal() {
    // A pool of chunks.  A chunk produced by the chunker is self delimiting (the chunker state is reset
    // at every boundary), so any concatenation of pool chunks is chunked into exactly these chunks again.
    let mut raw = vec![0u8; 48 * 1024 * 1024];
    StdRng::seed_from_u64(0xC11).fill_bytes(&mut raw);
    let mut pool = Chunker::default().next_block(&raw, true);
    pool.pop(); // the last one was cut by the end of the data
    drop(raw);
    assert!(pool.len() >= 64 * 7 + 16, "pool too small: {}", pool.len());
    let mut it = pool.iter();
    let mut take = |n: usize| -> Vec<&Chunk> { (0..n).map(|_| it.next().unwrap()).collect() };

    let d: Vec<Vec<&Chunk>> = (0..64).map(|_| take(3)).collect(); // uploaded by session 1
    let n: Vec<Vec<&Chunk>> = (0..64).map(|_| take(4)).collect(); // new in session 2
    let (x, y, z) = (take(1)[0], take(1)[0], take(1)[0]); // uploaded by session 1
    let q: Vec<&Chunk> = take(16); // uploaded by session 1 right after X Y Z (about 1 MB)
    let (w, r, t) = (take(1)[0], take(1)[0], take(1)[0]); // new in session 2

    // ---------------- session 1: D_1 .. D_64, X Y Z Q ----------------
    let mut f1: Vec<&Chunk> = d.iter().flatten().cloned().collect();
    f1.extend([x, y, z]);
    f1.extend(q.iter().cloned());
    let f1_bytes = cat(&f1);
    {
        // sanity: the composed file is chunked into the pool chunks
        let rechunked = Chunker::default().next_block(&f1_bytes, true);
        assert_eq!(
            rechunked.iter().map(|c| c.hash).collect::<Vec<_>>(),
            f1.iter().map(|c| c.hash).collect::<Vec<_>>()
        );
    }

    let tmp = tempfile::TempDir::new().unwrap();
    let cas = tmp.path().join("cas");
    let m1 = upload_one(&cas, &[f1_bytes.clone()]).await;
    assert_eq!(m1.new_bytes, f1_bytes.len());

    // Session 1 is finalized; Q is stored in one of its xorbs and recorded in the shard cache.
    let xorbs_1: HashSet<MerkleHash> = xorbs(&cas).iter().map(|(h, _)| *h).collect();
    let q_hashes: HashSet<MerkleHash> = q.iter().map(|c| c.hash).collect();
    let q_bytes: usize = q.iter().map(|c| c.data.len()).sum();
    let stored_1: HashSet<MerkleHash> = xorbs(&cas).into_iter().flat_map(|(_, c)| c).collect();
    assert!(q_hashes.is_subset(&stored_1));
    assert!(q_hashes.is_subset(&shard_cache_chunks(&cas)), "Q must be recorded by session 1");

    // An unchanged re-upload is fully deduplicated (so Q can be found by a later session).
    let m1b = upload_one(&cas, &[f1_bytes.clone()]).await;
    assert_eq!(m1b.new_bytes, 0);

    // ---------------- session 2 ----------------
    // prefix: N_1 D_1 N_2 D_2 ... N_64 D_64   (128 ranges, 3.5 chunks per range on average)
    // tail:   W X Y Z R   W X Y Z Q_1..Q_16   T
    //   1st "X Y Z": found in session 1's shard as a run of 3; refused by fragmentation prevention
    //                (known behaviour, counted in defrag_prevented_dedup_*), so W X Y Z R become
    //                consecutive pending new data of this file.
    //   2nd "W X Y Z Q..": the shard lookup finds the run X Y Z Q_1..Q_16 (19 chunks, kept at X only);
    //                the result loop matches W X Y Z against the pending new data (4 chunks) and
    //                continues at Q_1; no lookup result is kept for Q_1..Q_16: they are all stored as new data.
    let mut prefix: Vec<&Chunk> = vec![];
    for k in 0..64 {
        prefix.extend(n[k].iter().cloned());
        prefix.extend(d[k].iter().cloned());
    }
    let mut tail: Vec<&Chunk> = vec![w, x, y, z, r, w, x, y, z];
    tail.extend(q.iter().cloned());
    tail.push(t);
    let f2_pieces = [cat(&prefix), cat(&tail)];
    {
        let whole = [f2_pieces[0].clone(), f2_pieces[1].clone()].concat();
        let rechunked = Chunker::default().next_block(&whole, true);
        let expect: Vec<_> = prefix.iter().chain(tail.iter()).map(|c| c.hash).collect();
        assert_eq!(rechunked.iter().map(|c| c.hash).collect::<Vec<_>>(), expect);
    }

    let m2 = upload_one(&cas, &f2_pieces).await;
    eprintln!("session 2 metrics: {m2:?}");

    // What session 2 may legitimately transfer: the chunks no earlier session has stored
    // (N_k, W, R, T), plus what fragmentation prevention withheld from deduplication (X, Y, Z; reported
    // by the session itself in defrag_prevented_dedup_bytes).
    let genuinely_new: usize =
        n.iter().flatten().map(|c| c.data.len()).sum::<usize>() + w.data.len() + r.data.len() + t.data.len();
    eprintln!(
        "genuinely new {genuinely_new}, defrag withheld {}, reported new_bytes {}, |Q| = {}",
        m2.defrag_prevented_dedup_bytes,
        m2.new_bytes,
        q_bytes
    );
    assert_eq!(m2.defrag_prevented_dedup_bytes, x.data.len() + y.data.len() + z.data.len());

    // Q was never refused by fragmentation prevention, is recorded in the shard cache by session 1,
    // and yet it is in a xorb that session 2 created.
    let q_again: usize = xorbs(&cas)
        .into_iter()
        .filter(|(h, _)| !xorbs_1.contains(h))
        .flat_map(|(_, c)| c)
        .filter(|c| q_hashes.contains(c))
        .count();
    assert_eq!(
        q_again, 0,
        "{q_again} of the {} Q chunks ({q_bytes} bytes), stored and recorded by session 1 and never refused by \
         fragmentation prevention, were uploaded again by session 2",
        q.len()
    );
    assert_eq!(m2.new_bytes, genuinely_new + m2.defrag_prevented_dedup_bytes);
}

// Scratch fuzz harness for C11 (not a deliverable).
use std::collections::HashSet;
use std::io::BufReader;
use std::path::Path;

use data::configurations::TranslatorConfig;
use data::FileUploadSession;
use deduplication::DeduplicationMetrics;
use mdb_shard::MDBShardFile;
use merklehash::MerkleHash;
use rand::rngs::StdRng;
use rand::{Rng, RngCore, SeedableRng};
use tokio::task::JoinSet;
use xet_threadpool::ThreadPool;

fn gen(seed: u64, size: usize) -> Vec<u8> {
    let mut rng = StdRng::seed_from_u64(seed);
    let mut b = vec![0u8; size];
    rng.fill_bytes(&mut b);
    b
}

async fn upload(cas: &Path, files: &[Vec<u8>], concurrent: bool, feed: usize) -> DeduplicationMetrics {
    let config = TranslatorConfig::local_config(cas).unwrap();
    let session = FileUploadSession::new(config, ThreadPool::from_current_runtime(), None).await.unwrap();
    if concurrent {
        let mut js = JoinSet::new();
        for (i, f) in files.iter().enumerate() {
            let s = session.clone();
            let f = f.clone();
            js.spawn(async move {
                let mut c = s.start_clean(format!("f{i}"));
                for part in f.chunks(feed.max(1)) {
                    c.add_data(part).await.unwrap();
                }
                c.finish().await.unwrap();
            });
        }
        while let Some(r) = js.join_next().await {
            r.unwrap();
        }
    } else {
        for (i, f) in files.iter().enumerate() {
            let mut c = session.start_clean(format!("f{i}"));
            for part in f.chunks(feed.max(1)) {
                c.add_data(part).await.unwrap();
            }
            c.finish().await.unwrap();
        }
    }
    session.finalize().await.unwrap()
}

fn xorb_chunks(cas: &Path) -> Vec<(MerkleHash, Vec<MerkleHash>)> {
    let mut out = vec![];
    let dir = cas.join("xet").join("xorbs").join("xorbs");
    for e in std::fs::read_dir(dir).unwrap() {
        let e = e.unwrap();
        let name = e.file_name().into_string().unwrap();
        let h = MerkleHash::from_hex(name.rsplit('.').next().unwrap()).unwrap();
        let mut r = BufReader::new(std::fs::File::open(e.path()).unwrap());
        let co = cas_object::CasObject::deserialize(&mut r).unwrap();
        out.push((h, co.info.chunk_hashes.clone()));
    }
    out
}

fn shard_cache_chunks(cas: &Path) -> HashSet<(MerkleHash, MerkleHash)> {
    let mut set = HashSet::new();
    let dir = cas.join("xet").join("shard-cache");
    for s in MDBShardFile::load_all_valid(dir).unwrap() {
        for ci in s.shard.read_all_cas_blocks_full(&mut s.get_reader().unwrap()).unwrap() {
            for c in ci.chunks.iter() {
                set.insert((ci.metadata.cas_hash, c.chunk_hash));
            }
        }
    }
    set
}

#[tokio::test(flavor = "multi_thread", worker_threads = 4)]
async fn fuzz() {
    let seed: u64 = std::env::var("HUNT_SEED").ok().and_then(|s| s.parse().ok()).unwrap_or(0);
    let iters: u64 = std::env::var("HUNT_ITERS").ok().and_then(|s| s.parse().ok()).unwrap_or(20);
    let tcs = *deduplication::constants::TARGET_CHUNK_SIZE;
    let mxb = *deduplication::constants::MAX_XORB_BYTES;
    for it in 0..iters {
        let mut rng = StdRng::seed_from_u64(seed * 1000 + it);
        let tmp = tempfile::TempDir::new().unwrap();
        let cas = tmp.path().join("cas");
        let nfiles = rng.gen_range(1..6);
        let mut files = vec![];
        for k in 0..nfiles {
            let size = match rng.gen_range(0..7) {
                0 => 0,
                1 => rng.gen_range(1..tcs / 8 + 2),
                2 => rng.gen_range(1..2 * tcs),
                3 => rng.gen_range(1..mxb + 2),
                4 => mxb + rng.gen_range(0..3) - 1,
                5 => rng.gen_range(mxb..3 * mxb),
                _ => rng.gen_range(1..mxb / 2 + 2),
            };
            files.push(gen(seed * 77777 + it * 100 + k, size));
        }
        let conc = rng.gen_bool(0.5);
        let feed = if rng.gen_bool(0.5) { 1 << 30 } else { rng.gen_range(1..3 * tcs) };
        let m1 = upload(&cas, &files, conc, feed).await;
        let total: usize = files.iter().map(|f| f.len()).sum();
        assert_eq!(m1.total_bytes, total);

        // all xorb chunks recorded in shard cache
        let recorded = shard_cache_chunks(&cas);
        for (xh, chunks) in xorb_chunks(&cas) {
            for c in chunks {
                assert!(recorded.contains(&(xh, c)), "it {it}: chunk {c:?} of xorb {xh:?} not recorded");
            }
        }

        // re-upload, maybe in different order / grouping
        let mut files2 = files.clone();
        if rng.gen_bool(0.5) {
            files2.reverse();
        }
        let conc2 = rng.gen_bool(0.5);
        let feed2 = if rng.gen_bool(0.5) { 1 << 30 } else { rng.gen_range(1..3 * tcs) };
        let m2 = upload(&cas, &files2, conc2, feed2).await;
        assert_eq!(
            m2.new_bytes, 0,
            "it {it}: sizes {:?} conc {conc} feed {feed} conc2 {conc2} feed2 {feed2}: m1 {m1:?} m2 {m2:?}",
            files.iter().map(|f| f.len()).collect::<Vec<_>>()
        );
        assert_eq!(m2.xorb_bytes_uploaded, 0);
    }
}


#[tokio::test(flavor = "multi_thread", worker_threads = 4)]
async fn fuzz_pool() {
    let seed: u64 = std::env::var("HUNT_SEED").ok().and_then(|s| s.parse().ok()).unwrap_or(0);
    let iters: u64 = std::env::var("HUNT_ITERS").ok().and_then(|s| s.parse().ok()).unwrap_or(20);
    let tcs = *deduplication::constants::TARGET_CHUNK_SIZE;
    for it in 0..iters {
        let mut rng = StdRng::seed_from_u64(seed * 1000 + it);
        let tmp = tempfile::TempDir::new().unwrap();
        let cas = tmp.path().join("cas");
        // pool of segments
        let npool = rng.gen_range(2..8);
        let pool: Vec<Vec<u8>> = (0..npool)
            .map(|k| {
                let sz = match rng.gen_range(0..3) { 0 => rng.gen_range(1..tcs), 1 => rng.gen_range(tcs..6 * tcs), _ => rng.gen_range(1..20 * tcs) };
                gen(seed * 31 + it * 100 + k, sz)
            })
            .collect();
        let nsess = rng.gen_range(2..5);
        let mut sessions: Vec<Vec<Vec<u8>>> = vec![];
        for _ in 0..nsess {
            let nfiles = rng.gen_range(1..5);
            let mut files = vec![];
            for _ in 0..nfiles {
                let nseg = rng.gen_range(0..8);
                let mut f = vec![];
                for _ in 0..nseg {
                    f.extend_from_slice(&pool[rng.gen_range(0..npool as usize)]);
                }
                files.push(f);
            }
            let conc = rng.gen_bool(0.5);
            let feed = if rng.gen_bool(0.5) { 1 << 30 } else { rng.gen_range(1..3 * tcs) };
            let before: Vec<(MerkleHash, Vec<MerkleHash>)> = if cas.join("xet").join("xorbs").join("xorbs").exists() { xorb_chunks(&cas) } else { vec![] };
            let before_x: HashSet<MerkleHash> = before.iter().map(|(h, _)| *h).collect();
            let before_c: HashSet<MerkleHash> = before.iter().flat_map(|(_, c)| c.iter().cloned()).collect();
            upload(&cas, &files, conc, feed).await;
            for (xh, chunks) in xorb_chunks(&cas) {
                if before_x.contains(&xh) { continue; }
                for c in chunks {
                    if std::env::var("HUNT_DEFRAG").is_err() { assert!(!before_c.contains(&c), "it {it}: chunk {c:?} stored again in new xorb {xh:?}"); }
                }
            }
            sessions.push(files);

            let recorded = shard_cache_chunks(&cas);
            for (xh, chunks) in xorb_chunks(&cas) {
                for c in chunks {
                    assert!(recorded.contains(&(xh, c)), "it {it}: chunk {c:?} of xorb {xh:?} not recorded");
                }
            }
        }
        for (k, files) in sessions.iter().enumerate() {
            let conc = rng.gen_bool(0.5);
            let feed = if rng.gen_bool(0.5) { 1 << 30 } else { rng.gen_range(1..3 * tcs) };
            let m2 = upload(&cas, files, conc, feed).await;
            assert_eq!(m2.new_bytes, m2.defrag_prevented_dedup_bytes, "it {it}: repeat of session {k}: sizes {:?} m2 {m2:?}", files.iter().map(|f| f.len()).collect::<Vec<_>>());
        }
    }
}


// Two-process variant: HUNT_DIR persistent, HUNT_PHASE=1 uploads, HUNT_PHASE=2 re-uploads.
#[tokio::test(flavor = "multi_thread", worker_threads = 4)]
async fn two_phase() {
    let Ok(dir) = std::env::var("HUNT_DIR") else { return };
    let phase: u32 = std::env::var("HUNT_PHASE").unwrap().parse().unwrap();
    let sizes: Vec<usize> = std::env::var("HUNT_SIZES").unwrap().split(',').map(|s| s.parse().unwrap()).collect();
    let cas = std::path::PathBuf::from(dir).join("cas");
    let files: Vec<Vec<u8>> = sizes.iter().enumerate().map(|(i, s)| gen(900 + i as u64, *s)).collect();
    if phase == 1 {
        // one session per group of 2 files
        for g in files.chunks(2) {
            let m = upload(&cas, g, true, 1 << 30).await;
            eprintln!("phase1 {m:?}");
        }
    } else {
        let m = upload(&cas, &files, false, 100000).await;
        eprintln!("phase2 {m:?}");
        assert_eq!(m.new_bytes, 0);
    }
}

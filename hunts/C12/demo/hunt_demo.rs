//! C12 hunt demos: run against the unmodified chunk_cache crate.
//!
//! Every test states what the property demands (a miss or an error) and fails because the
//! current code returns wrong bytes / panics / aborts instead.

use std::fs;
use std::panic::{catch_unwind, AssertUnwindSafe};
use std::path::{Path, PathBuf};

use base64::engine::general_purpose::URL_SAFE;
use base64::Engine;
use cas_types::{ChunkRange, Key};
use chunk_cache::{CacheConfig, ChunkCache, DiskCache};
use merklehash::MerkleHash;
use tempdir::TempDir;

const CAP: u64 = 1 << 30;

fn cfg(root: &Path, cap: u64) -> CacheConfig {
    CacheConfig {
        cache_directory: root.to_path_buf(),
        cache_size: cap,
    }
}

fn key(tag: u8) -> Key {
    let mut h = [0u8; 32];
    for (i, b) in h.iter_mut().enumerate() {
        *b = tag.wrapping_mul(31).wrapping_add(i as u8);
    }
    Key {
        prefix: "default".to_string(),
        hash: MerkleHash::from_slice(&h).unwrap(),
    }
}

/// the "xorb" behind a key: chunk i is CHUNK bytes all equal to (tag + i)
const CHUNK: u32 = 10;
fn xorb_slice(tag: u8, r: &ChunkRange) -> (Vec<u32>, Vec<u8>) {
    let mut offsets = vec![0u32];
    let mut data = Vec::new();
    for i in r.start..r.end {
        data.extend(std::iter::repeat(tag.wrapping_add(i as u8)).take(CHUNK as usize));
        offsets.push(data.len() as u32);
    }
    (offsets, data)
}

/// all regular files below root, as (path)
fn files_below(root: &Path) -> Vec<PathBuf> {
    let mut out = Vec::new();
    let mut stack = vec![root.to_path_buf()];
    while let Some(d) = stack.pop() {
        for e in fs::read_dir(&d).unwrap() {
            let e = e.unwrap();
            let p = e.path();
            if p.is_dir() {
                stack.push(p);
            } else {
                out.push(p);
            }
        }
    }
    out
}

/// item file name = base64url( start:u32le, end:u32le, len:u64le, crc:u32le )
fn item_name(start: u32, end: u32, len: u64, crc: u32) -> String {
    let mut buf = Vec::new();
    buf.extend(start.to_le_bytes());
    buf.extend(end.to_le_bytes());
    buf.extend(len.to_le_bytes());
    buf.extend(crc.to_le_bytes());
    URL_SAFE.encode(buf)
}

fn decode_item_name(name: &str) -> (u32, u32, u64, u32) {
    let b = URL_SAFE.decode(name).unwrap();
    assert_eq!(b.len(), 20);
    (
        u32::from_le_bytes(b[0..4].try_into().unwrap()),
        u32::from_le_bytes(b[4..8].try_into().unwrap()),
        u64::from_le_bytes(b[8..16].try_into().unwrap()),
        u32::from_le_bytes(b[16..20].try_into().unwrap()),
    )
}

/// put `range` of xorb `tag` under `key(tag)` into a fresh cache rooted at `root`, close the cache,
/// return the path of the single item file.
fn put_one_and_close(root: &Path, tag: u8, range: ChunkRange) -> PathBuf {
    let cache = DiskCache::initialize(&cfg(root, CAP)).unwrap();
    let (offsets, data) = xorb_slice(tag, &range);
    cache.put(&key(tag), &range, &offsets, &data).unwrap();
    drop(cache);
    let files = files_below(root);
    assert_eq!(files.len(), 1, "{files:?}");
    let (s, e, _, _) = decode_item_name(files[0].file_name().unwrap().to_str().unwrap());
    assert_eq!((s, e), (range.start, range.end), "file name layout is as documented");
    files[0].clone()
}

/// rename an item file so that its name claims another chunk range (len and crc fields untouched)
fn rename_to_range(item: &Path, start: u32, end: u32) -> PathBuf {
    let (_, _, len, crc) = decode_item_name(item.file_name().unwrap().to_str().unwrap());
    let new = item.with_file_name(item_name(start, end, len, crc));
    fs::rename(item, &new).unwrap();
    new
}

// ---------------------------------------------------------------------------------------------
// F1: an item file renamed (while the cache is closed) so that its name claims a shifted chunk
//     range is served as a hit with the bytes of the ORIGINAL range.
// ---------------------------------------------------------------------------------------------
#[test]
fn f1_renamed_item_shifted_range_is_served_as_wrong_data() {
    let root = TempDir::new("hunt_c12_f1").unwrap();
    let tag = 7u8;
    // the cache stored chunks [0,4) of the xorb
    let item = put_one_and_close(root.path(), tag, ChunkRange { start: 0, end: 4 });
    // damage while closed: the entry is renamed; it now claims to hold chunks [1,5)
    rename_to_range(&item, 1, 5);

    let cache = DiskCache::initialize(&cfg(root.path(), CAP)).unwrap();
    let asked = ChunkRange { start: 1, end: 3 };
    let got = cache.get(&key(tag), &asked);
    let (_, truth) = xorb_slice(tag, &asked);
    match got {
        Ok(None) | Err(_) => {}, // what the property demands
        Ok(Some(hit)) => {
            // nothing was ever put for a range covering [1,3)... and the bytes are those of chunks [0,2)
            let (_, served_from) = xorb_slice(tag, &ChunkRange { start: 0, end: 2 });
            assert_eq!(hit.data.as_ref(), served_from.as_slice(), "(diagnostic) the hit is chunks [0,2)");
            assert_eq!(
                hit.data.as_ref(),
                truth.as_slice(),
                "HIT WITH WRONG DATA: asked chunks {asked}, got the bytes of chunks 0-2 from a renamed entry"
            );
        },
    }
}

// ---------------------------------------------------------------------------------------------
// F2: same damage, range extended in the name ([0,4) -> [0,6)): the next put that the renamed
//     entry claims to cover panics (index out of bounds in validate_match).
// ---------------------------------------------------------------------------------------------
#[test]
fn f2_renamed_item_extended_range_makes_put_panic() {
    let root = TempDir::new("hunt_c12_f2").unwrap();
    let tag = 9u8;
    let item = put_one_and_close(root.path(), tag, ChunkRange { start: 0, end: 4 });
    rename_to_range(&item, 0, 6);

    let cache = DiskCache::initialize(&cfg(root.path(), CAP)).unwrap();
    let range = ChunkRange { start: 4, end: 6 };
    let (offsets, data) = xorb_slice(tag, &range);
    let r = catch_unwind(AssertUnwindSafe(|| cache.put(&key(tag), &range, &offsets, &data)));
    assert!(r.is_ok(), "PANIC in DiskCache::put caused by an entry renamed while the cache was closed");
    // if it did not panic, the data must be right afterwards (or a miss)
    if let Ok(Some(hit)) = cache.get(&key(tag), &range) {
        assert_eq!(hit.data.as_ref(), data.as_slice());
    }
}

// ---------------------------------------------------------------------------------------------
// F3: an item file moved (renamed) from the directory of key A into the directory of key B is
//     served as a hit for key B with key A's bytes: neither the name nor the crc binds the key.
// ---------------------------------------------------------------------------------------------
#[test]
fn f3_item_moved_to_another_key_directory_is_served_as_wrong_data() {
    let (ta, tb) = (20u8, 120u8);
    let range = ChunkRange { start: 0, end: 4 };

    // learn the directory name of key B from a scratch cache
    let scratch = TempDir::new("hunt_c12_f3_scratch").unwrap();
    let b_item = put_one_and_close(scratch.path(), tb, range);
    let b_dir_rel = b_item.parent().unwrap().strip_prefix(scratch.path()).unwrap().to_path_buf();

    let root = TempDir::new("hunt_c12_f3").unwrap();
    let a_item = put_one_and_close(root.path(), ta, range);
    // damage while closed: the entry of key A is renamed into key B's directory
    let b_dir = root.path().join(&b_dir_rel);
    fs::create_dir_all(&b_dir).unwrap();
    fs::rename(&a_item, b_dir.join(a_item.file_name().unwrap())).unwrap();

    let cache = DiskCache::initialize(&cfg(root.path(), CAP)).unwrap();
    let got = cache.get(&key(tb), &range);
    let (_, truth_b) = xorb_slice(tb, &range);
    match got {
        Ok(None) | Err(_) => {},
        Ok(Some(hit)) => {
            let (_, bytes_a) = xorb_slice(ta, &range);
            assert_eq!(hit.data.as_ref(), bytes_a.as_slice(), "(diagnostic) the hit is key A's bytes");
            assert_eq!(
                hit.data.as_ref(),
                truth_b.as_slice(),
                "HIT WITH WRONG DATA: key B was never put, the hit returns key A's bytes from a moved entry"
            );
        },
    }
}

// ---------------------------------------------------------------------------------------------
// F4: a planted file with a consistent name (len, crc) whose header claims 0xFFFF_FFFF chunk
//     offsets makes get() pre-allocate 16 GiB (Vec::with_capacity of the untrusted count).
//     Under an address-space limit (ulimit -v) or on a host with < 16 GiB this aborts the process.
//     Run with: ulimit -v 4194304 (see command in findings.json). Ignored by default because the
//     failure mode is a process abort.
// ---------------------------------------------------------------------------------------------
#[test]
#[ignore]
fn f4_planted_header_count_preallocates_16gib() {
    let root = TempDir::new("hunt_c12_f4").unwrap();
    let tag = 33u8;
    // a legitimate entry for chunks [10,12) gives us the key directory
    let item = put_one_and_close(root.path(), tag, ChunkRange { start: 10, end: 12 });
    // planted while closed: 4 bytes, "number of offsets" = u32::MAX, name consistent with content
    let content = u32::MAX.to_le_bytes();
    let crc = crc32fast::hash(&content);
    fs::write(item.with_file_name(item_name(0, 1, content.len() as u64, crc)), content).unwrap();

    let cache = DiskCache::initialize(&cfg(root.path(), CAP)).unwrap();
    eprintln!("calling get on the planted entry ...");
    let got = cache.get(&key(tag), &ChunkRange { start: 0, end: 1 });
    eprintln!("get returned {:?} (no abort: this host let a 16 GiB reservation through)", got.as_ref().map(|o| o.is_some()));
    assert!(matches!(got, Ok(None) | Err(_)));
}

// ---------------------------------------------------------------------------------------------
// F5 (peripheral, boundary values): arithmetic on caller-supplied extremes panics instead of
//     returning InvalidArguments.
// ---------------------------------------------------------------------------------------------
#[test]
fn f5a_initialize_with_capacity_above_half_u64_panics() {
    let root = TempDir::new("hunt_c12_f5a").unwrap();
    let r = catch_unwind(|| DiskCache::initialize(&cfg(root.path(), u64::MAX)).map(|_| ()));
    assert!(r.is_ok(), "PANIC in DiskCache::initialize for cache_size = u64::MAX (2 * capacity overflows)");
}

#[test]
fn f5b_put_with_range_spanning_u32_panics() {
    let root = TempDir::new("hunt_c12_f5b").unwrap();
    let cache = DiskCache::initialize(&cfg(root.path(), CAP)).unwrap();
    let range = ChunkRange { start: 0, end: u32::MAX };
    let r = catch_unwind(AssertUnwindSafe(|| cache.put(&key(1), &range, &[], &[])));
    assert!(r.is_ok(), "PANIC in DiskCache::put for range 0..u32::MAX (end - start + 1 overflows; release: index [0] of empty)");
    assert!(r.unwrap().is_err(), "such a put must be rejected");
}

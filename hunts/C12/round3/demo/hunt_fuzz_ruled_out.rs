use std::fs;
use std::path::{Path, PathBuf};

use cas_types::{ChunkRange, Key};
use chunk_cache::{CacheConfig, ChunkCache, DiskCache};
use merklehash::MerkleHash;
use rand::rngs::StdRng;
use rand::{Rng, SeedableRng};

const NKEYS: usize = 4;
const NCHUNKS: u32 = 10;

fn key(i: usize) -> Key {
    let mut h = [0u8; 32];
    for (j, b) in h.iter_mut().enumerate() {
        *b = (i as u8).wrapping_mul(37).wrapping_add((j as u8).wrapping_mul(11));
    }
    // make two keys share the prefix dir
    if i >= 2 {
        h[0] = 0x11;
        h[1] = 0x22;
    }
    Key {
        prefix: if i % 2 == 0 { "default".into() } else { "".into() },
        hash: MerkleHash::from_slice(&h).unwrap(),
    }
}

fn chunk(k: usize, c: u32) -> Vec<u8> {
    let len = 1 + ((k as u32 * 7 + c * 13) % 23) as usize;
    (0..len).map(|j| (k as u8).wrapping_mul(101) ^ (c as u8).wrapping_mul(31) ^ (j as u8).wrapping_mul(7)).collect()
}

fn build(k: usize, r: &ChunkRange) -> (Vec<u32>, Vec<u8>) {
    let mut offs = vec![0u32];
    let mut data = vec![];
    for c in r.start..r.end {
        data.extend(chunk(k, c));
        offs.push(data.len() as u32);
    }
    (offs, data)
}

fn all_files(root: &Path, out: &mut Vec<PathBuf>, dirs: &mut Vec<PathBuf>) {
    if let Ok(rd) = fs::read_dir(root) {
        for e in rd.flatten() {
            let p = e.path();
            if p.is_dir() {
                dirs.push(p.clone());
                all_files(&p, out, dirs);
            } else {
                out.push(p);
            }
        }
    }
}

fn rand_range(rng: &mut StdRng) -> ChunkRange {
    let start = rng.gen_range(0..NCHUNKS);
    let end = rng.gen_range(start + 1..=NCHUNKS);
    ChunkRange { start, end }
}

fn damage(rng: &mut StdRng, root: &Path) {
    let mut files = vec![];
    let mut dirs = vec![root.to_path_buf()];
    all_files(root, &mut files, &mut dirs);
    match rng.gen_range(0..8) {
        0 if !files.is_empty() => {
            // single burst bit error up to 32 bits
            let f = &files[rng.gen_range(0..files.len())];
            let mut b = fs::read(f).unwrap();
            if b.is_empty() {
                return;
            }
            let nbits = b.len() * 8;
            let blen = rng.gen_range(1..=32.min(nbits));
            let s = rng.gen_range(0..=nbits - blen);
            // flip first and last, random middle
            for i in 0..blen {
                if i == 0 || i == blen - 1 || rng.gen_bool(0.5) {
                    b[(s + i) / 8] ^= 1 << ((s + i) % 8);
                }
            }
            fs::write(f, b).unwrap();
        },
        1 if !files.is_empty() => {
            let f = &files[rng.gen_range(0..files.len())];
            let b = fs::read(f).unwrap();
            let n = rng.gen_range(0..=b.len());
            fs::write(f, &b[..n]).unwrap();
        },
        2 if !files.is_empty() => {
            let f = &files[rng.gen_range(0..files.len())];
            let mut b = fs::read(f).unwrap();
            let n = rng.gen_range(1..40);
            for _ in 0..n {
                b.push(rng.gen());
            }
            fs::write(f, b).unwrap();
        },
        3 if !files.is_empty() => {
            let f = &files[rng.gen_range(0..files.len())];
            fs::remove_file(f).unwrap();
        },
        4 => {
            // junk file somewhere
            let d = &dirs[rng.gen_range(0..dirs.len())];
            let names = ["junk", "ab", "x", "AAAAAAAAAAAAAAAAAAAAAAAAAAAAAAAAAAAAAA==", ".tmp", "zz.tmp"];
            let n = names[rng.gen_range(0..names.len())];
            let p = d.join(n);
            if !p.exists() {
                let len = rng.gen_range(0..50);
                let b: Vec<u8> = (0..len).map(|_| rng.gen()).collect();
                let _ = fs::write(p, b);
            }
        },
        5 => {
            let d = &dirs[rng.gen_range(0..dirs.len())];
            let names = ["junkd", "ab", "cd", "y", "AAAAAAAAAAAAAAAAAAAAAAAAAAAAAAAAAAAAAA==", "ERIiAwQFBgcICQoLDA0ODxAREhMUFRYXGBkaGxwdHh8="];
            let n = names[rng.gen_range(0..names.len())];
            let p = d.join(n);
            if !p.exists() {
                let _ = fs::create_dir(p);
            }
        },
        6 if dirs.len() > 1 => {
            let d = &dirs[rng.gen_range(1..dirs.len())];
            let _ = fs::remove_dir_all(d);
        },
        _ => {},
    }
}

static HITS: std::sync::atomic::AtomicUsize = std::sync::atomic::AtomicUsize::new(0);
static MISS: std::sync::atomic::AtomicUsize = std::sync::atomic::AtomicUsize::new(0);
fn run(seed: u64) {
    let mut rng = StdRng::seed_from_u64(seed);
    let tmp = tempdir::TempDir::new("huntfuzz").unwrap();
    let root = tmp.path().join("cache");
    let mut cap: u64 = rng.gen_range(40..3000);
    let mut cache = DiskCache::initialize(&CacheConfig {
        cache_directory: root.clone(),
        cache_size: cap,
    })
    .unwrap();
    for step in 0..400 {
        match rng.gen_range(0..100) {
            0..=39 => {
                let k = rng.gen_range(0..NKEYS);
                let r = rand_range(&mut rng);
                let (o, d) = build(k, &r);
                if let Err(e) = cache.put(&key(k), &r, &o, &d) {
                    println!("seed {seed} step {step} put err {e:?} (k {k} r {r:?})");
                }
            },
            40..=84 => {
                let k = rng.gen_range(0..NKEYS);
                let r = rand_range(&mut rng);
                match cache.get(&key(k), &r) {
                    Ok(Some(cr)) => {
                        let (o, d) = build(k, &r);
                        assert_eq!(cr.data.as_ref(), &d[..], "seed {seed} step {step} data");
                        assert_eq!(cr.offsets.as_ref(), &o[..], "seed {seed} step {step} offs");
                        assert_eq!(cr.range, r); HITS.fetch_add(1, std::sync::atomic::Ordering::Relaxed);
                    },
                    Ok(None) => {MISS.fetch_add(1, std::sync::atomic::Ordering::Relaxed);},
                    Err(e) => println!("seed {seed} step {step} get err {e:?}"),
                }
            },
            85..=89 => {
                // deletion while open
                let mut files = vec![];
                let mut dirs = vec![];
                all_files(&root, &mut files, &mut dirs);
                if rng.gen_bool(0.7) {
                    if !files.is_empty() {
                        let _ = fs::remove_file(&files[rng.gen_range(0..files.len())]);
                    }
                } else if !dirs.is_empty() {
                    let _ = fs::remove_dir_all(&dirs[rng.gen_range(0..dirs.len())]);
                }
            },
            _ => {
                drop(cache);
                let nd = rng.gen_range(0..4);
                for _ in 0..nd {
                    damage(&mut rng, &root);
                }
                if rng.gen_bool(0.3) {
                    cap = rng.gen_range(40..3000);
                }
                cache = match DiskCache::initialize(&CacheConfig {
                    cache_directory: root.clone(),
                    cache_size: cap,
                }) {
                    Ok(c) => c,
                    Err(e) => {
                        println!("seed {seed} step {step} init err {e:?}");
                        return;
                    },
                };
            },
        }
    }
}

#[test]
fn fuzz() {
    let n: u64 = std::env::var("HUNT_N").ok().and_then(|s| s.parse().ok()).unwrap_or(300);
    let base: u64 = std::env::var("HUNT_BASE").ok().and_then(|s| s.parse().ok()).unwrap_or(0);
    for seed in base..base + n {
        run(seed);
    }
    println!("hits {:?} miss {:?}", HITS, MISS);
}

#[test]
fn concurrent() {
    let n: u64 = std::env::var("HUNT_N").ok().and_then(|s| s.parse().ok()).unwrap_or(20);
    for seed in 0..n {
        let tmp = tempdir::TempDir::new("huntconc").unwrap();
        let root = tmp.path().join("cache");
        let cap: u64 = std::env::var("HUNT_CAP").ok().and_then(|s| s.parse().ok()).unwrap_or(100 + seed * 37 % 1500);
        let cache = DiskCache::initialize(&CacheConfig { cache_directory: root.clone(), cache_size: cap }).unwrap();
        let stop = std::sync::Arc::new(std::sync::atomic::AtomicBool::new(false));
        let mut hs = vec![];
        for t in 0..6u64 {
            let cache = cache.clone();
            hs.push(std::thread::spawn(move || {
                let mut rng = StdRng::seed_from_u64(seed * 100 + t);
                let mut errs = std::collections::BTreeMap::<String, usize>::new();
                for _ in 0..1500 {
                    let k = rng.gen_range(0..NKEYS);
                    let r = rand_range(&mut rng);
                    let (o, d) = build(k, &r);
                    if rng.gen_bool(0.5) {
                        if let Err(e) = cache.put(&key(k), &r, &o, &d) {
                            *errs.entry(format!("put {e:?}").chars().take(40).collect()).or_default() += 1;
                        }
                    } else {
                        match cache.get(&key(k), &r) {
                            Ok(Some(cr)) => {
                                assert_eq!(cr.data.as_ref(), &d[..]);
                                assert_eq!(cr.offsets.as_ref(), &o[..]);
                            },
                            Ok(None) => {},
                            Err(e) => *errs.entry(format!("get {e:?}").chars().take(40).collect()).or_default() += 1,
                        }
                    }
                }
                errs
            }));
        }
        let stop2 = stop.clone();
        let root2 = root.clone();
        let del = std::thread::spawn(move || {
            let mut rng = StdRng::seed_from_u64(seed + 999);
            while !stop2.load(std::sync::atomic::Ordering::Relaxed) {
                let mut files = vec![];
                let mut dirs = vec![];
                all_files(&root2, &mut files, &mut dirs);
                if std::env::var("HUNT_DEL").is_ok() && rng.gen_bool(0.8) {
                    if !files.is_empty() {
                        let f = &files[rng.gen_range(0..files.len())];
                        if !f.to_string_lossy().ends_with(".tmp") { let _ = fs::remove_file(f); }
                    }
                }
                std::thread::sleep(std::time::Duration::from_micros(200));
            }
        });
        for h in hs {
            let e = h.join().expect("worker panicked");
            if !e.is_empty() { println!("seed {seed} errs {e:?}"); }
        }
        stop.store(true, std::sync::atomic::Ordering::Relaxed);
        del.join().unwrap();
        // state sanity
        let _ = cache.num_items().unwrap();
    }
}

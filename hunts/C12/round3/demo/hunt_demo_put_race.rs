// PERIPHERAL (not a wrong-data hit): two threads put into two different keys of a cache whose
// capacity holds a single item.  Every put evicts the other key's only item and then removes the
// other key's (now empty) directory (disk.rs check_remove_dir), while the other thread may be
// between SafeFileCreator's create_dir_all and the creation of its temp file in that directory
// (file_utils privilege_context.rs create_file).  The put then fails with IO NotFound although the
// input is legitimate and nothing on disk was damaged.
use std::sync::Arc;

use cas_types::{ChunkRange, Key};
use chunk_cache::{CacheConfig, ChunkCache, DiskCache};
use merklehash::MerkleHash;

fn key(b: u8) -> Key {
    Key {
        prefix: "default".into(),
        hash: MerkleHash::from_slice(&[b; 32]).unwrap(),
    }
}

#[test]
fn concurrent_puts_with_eviction_never_fail() {
    let tmp = tempdir::TempDir::new("huntrace").unwrap();
    let cache = Arc::new(
        DiskCache::initialize(&CacheConfig {
            cache_directory: tmp.path().join("cache"),
            cache_size: 40, // one item = 12 header bytes + 16 data bytes
        })
        .unwrap(),
    );
    let range = ChunkRange { start: 0, end: 1 };
    let mut hs = vec![];
    for t in 0..2u8 {
        let cache = cache.clone();
        hs.push(std::thread::spawn(move || {
            let data = [t; 16];
            let mut errs = vec![];
            for i in 0..20000 {
                if let Err(e) = cache.put(&key(t + 1), &range, &[0, 16], &data) {
                    errs.push(format!("iteration {i}: {e:?}"));
                }
                if let Some(hit) = cache.get(&key(t + 1), &range).unwrap() {
                    assert_eq!(hit.data.as_ref(), &data[..]);
                }
            }
            errs
        }));
    }
    let errs: Vec<String> = hs.into_iter().flat_map(|h| h.join().unwrap()).collect();
    assert!(errs.is_empty(), "{} legitimate puts failed, first: {}", errs.len(), errs[0]);
}

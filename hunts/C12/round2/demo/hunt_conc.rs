use std::path::{Path, PathBuf};
use std::sync::atomic::{AtomicBool, AtomicUsize, Ordering};
use std::sync::Arc;

use cas_types::{ChunkRange, Key};
use chunk_cache::{CacheConfig, ChunkCache, DiskCache};
use merklehash::MerkleHash;
use rand::rngs::StdRng;
use rand::{Rng, SeedableRng};

struct Truth {
    offsets: Vec<u32>,
    data: Vec<u8>,
}
fn mk_truth(rng: &mut StdRng, n: usize) -> Truth {
    let mut offsets = vec![0u32];
    for _ in 0..n {
        let l = rng.gen_range(1..40u32);
        offsets.push(offsets.last().unwrap() + l);
    }
    let data: Vec<u8> = (0..*offsets.last().unwrap()).map(|_| rng.gen()).collect();
    Truth { offsets, data }
}
fn slice(t: &Truth, r: &ChunkRange) -> (Vec<u32>, Vec<u8>) {
    let s = t.offsets[r.start as usize];
    let e = t.offsets[r.end as usize];
    let offs: Vec<u32> = t.offsets[r.start as usize..=r.end as usize].iter().map(|v| v - s).collect();
    (offs, t.data[s as usize..e as usize].to_vec())
}
fn all_files(root: &Path, out: &mut Vec<PathBuf>) {
    if let Ok(rd) = std::fs::read_dir(root) {
        for e in rd.flatten() {
            let p = e.path();
            if p.is_dir() {
                all_files(&p, out);
            } else {
                out.push(p);
            }
        }
    }
}

#[test]
fn conc() {
    let deleter: bool = std::env::var("HUNT_DEL").is_ok();
    let mut rng = StdRng::seed_from_u64(7);
    let root = tempdir::TempDir::new("huntc").unwrap();
    let n = 8usize;
    let keys: Arc<Vec<Key>> = Arc::new(
        (0..2).map(|_| Key { prefix: "default".into(), hash: MerkleHash::from_slice(&rng.gen::<[u8; 32]>()).unwrap() }).collect(),
    );
    let truths: Arc<Vec<Truth>> = Arc::new((0..2).map(|_| mk_truth(&mut rng, n)).collect());
    let cache = Arc::new(
        DiskCache::initialize(&CacheConfig { cache_directory: root.path().to_path_buf(), cache_size: std::env::var("HUNT_CAP").ok().and_then(|v| v.parse().ok()).unwrap_or(600) }).unwrap(),
    );
    let stop = Arc::new(AtomicBool::new(false));
    let put_errs = Arc::new(AtomicUsize::new(0));
    let get_errs = Arc::new(AtomicUsize::new(0));
    let hits = Arc::new(AtomicUsize::new(0));
    let mut hs = vec![];
    for t in 0..8u64 {
        let (keys, truths, cache, stop, put_errs, get_errs, hits) =
            (keys.clone(), truths.clone(), cache.clone(), stop.clone(), put_errs.clone(), get_errs.clone(), hits.clone());
        hs.push(std::thread::spawn(move || {
            let mut rng = StdRng::seed_from_u64(100 + t);
            let mut first_put = None;
            let mut first_get = None;
            while !stop.load(Ordering::Relaxed) {
                let ki = rng.gen_range(0..2);
                let s = rng.gen_range(0..n as u32);
                let e = rng.gen_range(s + 1..=n as u32);
                let r = ChunkRange { start: s, end: e };
                let (o, d) = slice(&truths[ki], &r);
                if rng.gen_bool(0.5) {
                    if let Err(err) = cache.put(&keys[ki], &r, &o, &d) {
                        put_errs.fetch_add(1, Ordering::Relaxed);
                        first_put.get_or_insert(format!("{err:?}"));
                    }
                } else {
                    match cache.get(&keys[ki], &r) {
                        Ok(Some(cr)) => {
                            hits.fetch_add(1, Ordering::Relaxed);
                            assert_eq!(cr.offsets.as_ref(), &o[..]);
                            assert_eq!(cr.data.as_ref(), &d[..]);
                        },
                        Ok(None) => {},
                        Err(err) => {
                            get_errs.fetch_add(1, Ordering::Relaxed);
                            first_get.get_or_insert(format!("{err:?}"));
                        },
                    }
                }
            }
            (first_put, first_get)
        }));
    }
    let rootp = root.path().to_path_buf();
    let stop2 = stop.clone();
    let del = std::thread::spawn(move || {
        let mut rng = StdRng::seed_from_u64(5);
        while !stop2.load(Ordering::Relaxed) {
            if deleter {
                let mut files = vec![];
                all_files(&rootp, &mut files);
                files.retain(|f| !f.file_name().unwrap().to_string_lossy().starts_with('.'));
                if !files.is_empty() {
                    let _ = std::fs::remove_file(&files[rng.gen_range(0..files.len())]);
                }
            }
            std::thread::sleep(std::time::Duration::from_millis(1));
        }
    });
    std::thread::sleep(std::time::Duration::from_secs(std::env::var("HUNT_SECS").ok().and_then(|v| v.parse().ok()).unwrap_or(10)));
    stop.store(true, Ordering::Relaxed);
    for h in hs {
        let r = h.join().expect("worker panicked");
        println!("{r:?}");
    }
    del.join().unwrap();
    println!(
        "hits {} put_errs {} get_errs {} items {:?} bytes {:?}",
        hits.load(Ordering::Relaxed),
        put_errs.load(Ordering::Relaxed),
        get_errs.load(Ordering::Relaxed),
        cache.num_items(),
        cache.total_bytes()
    );
    assert_eq!(get_errs.load(Ordering::Relaxed), 0);
}

use std::collections::HashMap;
use std::path::{Path, PathBuf};

use cas_types::{ChunkRange, Key};
use chunk_cache::{CacheConfig, ChunkCache, DiskCache};
use merklehash::MerkleHash;
use rand::rngs::StdRng;
use rand::{Rng, SeedableRng};

struct Truth {
    offsets: Vec<u32>, // n+1
    data: Vec<u8>,
}

fn mk_truth(rng: &mut StdRng, n: usize) -> Truth {
    let mut offsets = vec![0u32];
    for _ in 0..n {
        let l = rng.gen_range(1..40u32);
        offsets.push(offsets.last().unwrap() + l);
    }
    let data: Vec<u8> = (0..*offsets.last().unwrap()).map(|_| rng.gen()).collect();
    Truth { offsets, data }
}

fn slice(t: &Truth, r: &ChunkRange) -> (Vec<u32>, Vec<u8>) {
    let s = t.offsets[r.start as usize];
    let e = t.offsets[r.end as usize];
    let offs: Vec<u32> = t.offsets[r.start as usize..=r.end as usize].iter().map(|v| v - s).collect();
    (offs, t.data[s as usize..e as usize].to_vec())
}

fn all_files(root: &Path, out: &mut Vec<PathBuf>, dirs: &mut Vec<PathBuf>) {
    if let Ok(rd) = std::fs::read_dir(root) {
        for e in rd.flatten() {
            let p = e.path();
            if p.is_dir() {
                dirs.push(p.clone());
                all_files(&p, out, dirs);
            } else {
                out.push(p);
            }
        }
    }
}

fn run(seed: u64) {
    let mut rng = StdRng::seed_from_u64(seed);
    let root = tempdir::TempDir::new("hunt").unwrap();
    let nkeys = 3;
    let n = 10usize;
    let keys: Vec<Key> = (0..nkeys)
        .map(|i| Key {
            prefix: if i == 0 { "".into() } else { "default".into() },
            hash: MerkleHash::from_slice(&rng.gen::<[u8; 32]>()).unwrap(),
        })
        .collect();
    let truths: HashMap<Key, Truth> = keys.iter().map(|k| (k.clone(), mk_truth(&mut rng, n))).collect();
    let mut cap = rng.gen_range(200..2000u64);
    let mut cache = DiskCache::initialize(&CacheConfig { cache_directory: root.path().to_path_buf(), cache_size: cap }).unwrap();
    for step in 0..400 {
        let op = rng.gen_range(0..100);
        let k = &keys[rng.gen_range(0..nkeys)];
        let s = rng.gen_range(0..n as u32);
        let e = rng.gen_range(s + 1..=n as u32);
        let r = ChunkRange { start: s, end: e };
        if op < 45 {
            let (o, d) = slice(&truths[k], &r);
            if let Err(err) = cache.put(k, &r, &o, &d) {
                panic!("seed {seed} step {step}: put err {err:?}");
            }
        } else if op < 90 {
            match cache.get(k, &r) {
                Ok(Some(cr)) => {
                    let (o, d) = slice(&truths[k], &r);
                    assert_eq!(cr.offsets.as_ref(), &o[..], "seed {seed} step {step}");
                    assert_eq!(cr.data.as_ref(), &d[..], "seed {seed} step {step}");
                    assert_eq!(cr.range, r);
                },
                Ok(None) => {},
                Err(err) => panic!("seed {seed} step {step}: get err {err:?}"),
            }
        } else {
            // damage + reopen
            drop(cache);
            let ndam = rng.gen_range(0..4);
            for _ in 0..ndam {
                let mut files = vec![];
                let mut dirs = vec![root.path().to_path_buf()];
                all_files(root.path(), &mut files, &mut dirs);
                let kind = rng.gen_range(0..7);
                match kind {
                    0 if !files.is_empty() => {
                        // burst bit error
                        let f = &files[rng.gen_range(0..files.len())];
                        let mut b = std::fs::read(f).unwrap();
                        if !b.is_empty() {
                            let bits = b.len() * 8;
                            let blen = rng.gen_range(1..=32.min(bits));
                            let st = rng.gen_range(0..=bits - blen);
                            // flip first and last, random in between
                            for i in 0..blen {
                                if i == 0 || i == blen - 1 || rng.gen() {
                                    let bit = st + i;
                                    b[bit / 8] ^= 1 << (bit % 8);
                                }
                            }
                            std::fs::write(f, b).unwrap();
                        }
                    },
                    1 if !files.is_empty() => {
                        let f = &files[rng.gen_range(0..files.len())];
                        let b = std::fs::read(f).unwrap();
                        let nl = rng.gen_range(0..=b.len());
                        std::fs::write(f, &b[..nl]).unwrap();
                    },
                    2 if !files.is_empty() => {
                        let f = &files[rng.gen_range(0..files.len())];
                        let mut b = std::fs::read(f).unwrap();
                        let nl = rng.gen_range(1..50);
                        for _ in 0..nl {
                            b.push(rng.gen());
                        }
                        std::fs::write(f, &b).unwrap();
                    },
                    3 if !files.is_empty() => {
                        let f = &files[rng.gen_range(0..files.len())];
                        std::fs::remove_file(f).unwrap();
                    },
                    4 => {
                        let d = &dirs[rng.gen_range(0..dirs.len())];
                        let names = ["junk", "ab", "zz", ".x.tmp", "AAAA", "AAAAAAAAAAAAAAAAAAAAAAAAAAAAAAAAAAAAAAAAAAAAAAAAAAAA"];
                        let nm = names[rng.gen_range(0..names.len())];
                        let _ = std::fs::write(d.join(nm), b"junkjunk");
                    },
                    5 => {
                        let d = &dirs[rng.gen_range(0..dirs.len())];
                        let names = ["junkd", "ab", "zz", "AAAA", "AAAAAAAAAAAAAAAAAAAAAAAAAAAAAAAAAAAAAAAAAAAAAAAAAAAA"];
                        let nm = names[rng.gen_range(0..names.len())];
                        let _ = std::fs::create_dir(d.join(nm));
                    },
                    6 if dirs.len() > 1 => {
                        let d = &dirs[rng.gen_range(1..dirs.len())];
                        let _ = std::fs::remove_dir_all(d);
                    },
                    _ => {},
                }
            }
            if rng.gen_bool(0.3) {
                cap = rng.gen_range(100..2000u64);
            }
            cache = match DiskCache::initialize(&CacheConfig { cache_directory: root.path().to_path_buf(), cache_size: cap }) {
                Ok(c) => c,
                Err(e) => panic!("seed {seed} step {step}: init err {e:?}"),
            };
        }
    }
}

#[test]
fn fuzz() {
    let n: u64 = std::env::var("HUNT_N").ok().and_then(|v| v.parse().ok()).unwrap_or(300);
    let base: u64 = std::env::var("HUNT_BASE").ok().and_then(|v| v.parse().ok()).unwrap_or(0);
    for seed in base..base + n {
        run(seed);
    }
}

use cas_types::{ChunkRange, Key};
use chunk_cache::{CacheConfig, ChunkCache, DiskCache};
use merklehash::MerkleHash;

fn key(b: u8, prefix: &str) -> Key {
    Key { prefix: prefix.into(), hash: MerkleHash::from_slice(&[b; 32]).unwrap() }
}

#[test]
fn high_range_and_reopen() {
    let root = tempdir::TempDir::new("hm").unwrap();
    let cfg = CacheConfig { cache_directory: root.path().to_path_buf(), cache_size: 10000 };
    let c = DiskCache::initialize(&cfg).unwrap();
    let k = key(1, "default");
    let r = ChunkRange { start: u32::MAX - 2, end: u32::MAX };
    c.put(&k, &r, &[0, 3, 7], b"abcdefg").unwrap();
    let sub = ChunkRange { start: u32::MAX - 1, end: u32::MAX };
    let g = c.get(&k, &sub).unwrap().unwrap();
    assert_eq!(g.data.as_ref(), b"defg");
    assert_eq!(g.offsets.as_ref(), &[0, 4]);
    c.put(&k, &sub, &[0, 4], b"defg").unwrap();
    drop(c);
    let c = DiskCache::initialize(&cfg).unwrap();
    let g = c.get(&k, &sub).unwrap().unwrap();
    assert_eq!(g.data.as_ref(), b"defg");
    c.put(&k, &sub, &[0, 4], b"defg").unwrap();
    assert_eq!(c.num_items().unwrap(), 1);
    // get beyond
    assert!(c.get(&k, &ChunkRange { start: 0, end: u32::MAX }).unwrap().is_none());
}

#[test]
fn delete_while_open_then_ops() {
    let root = tempdir::TempDir::new("hm").unwrap();
    let cfg = CacheConfig { cache_directory: root.path().to_path_buf(), cache_size: 60 };
    let c = DiskCache::initialize(&cfg).unwrap();
    let k = key(2, "");
    let k2 = key(3, "x");
    c.put(&k, &ChunkRange { start: 0, end: 2 }, &[0, 3, 7], b"abcdefg").unwrap();
    c.put(&k2, &ChunkRange { start: 0, end: 2 }, &[0, 3, 7], b"abcdefg").unwrap();
    // delete everything under the root
    for e in std::fs::read_dir(root.path()).unwrap() {
        std::fs::remove_dir_all(e.unwrap().path()).unwrap();
    }
    // eviction of deleted entries
    c.put(&k, &ChunkRange { start: 5, end: 7 }, &[0, 3, 7], b"abcdefg").unwrap();
    c.put(&k, &ChunkRange { start: 1, end: 2 }, &[0, 4], b"defg").unwrap();
    assert!(c.get(&k2, &ChunkRange { start: 0, end: 1 }).unwrap().is_none());
    let _ = c.get(&k, &ChunkRange { start: 0, end: 1 }).unwrap();
    std::fs::remove_dir_all(root.path()).unwrap();
    assert!(c.get(&k, &ChunkRange { start: 5, end: 6 }).unwrap().is_none());
    c.put(&k, &ChunkRange { start: 5, end: 7 }, &[0, 3, 7], b"abcdefg").unwrap();
    assert_eq!(c.get(&k, &ChunkRange { start: 6, end: 7 }).unwrap().unwrap().data.as_ref(), b"defg");
    println!("{:?} {:?}", c.num_items(), c.total_bytes());
}

#[test]
fn case_misplaced_dir() {
    let root = tempdir::TempDir::new("hm").unwrap();
    let cfg = CacheConfig { cache_directory: root.path().to_path_buf(), cache_size: 100 };
    let c = DiskCache::initialize(&cfg).unwrap();
    // find key whose prefix has letters
    let k = key(0x69, "default");
    c.put(&k, &ChunkRange { start: 0, end: 2 }, &[0, 3, 7], b"abcdefg").unwrap();
    drop(c);
    let pd = std::fs::read_dir(root.path()).unwrap().next().unwrap().unwrap();
    let name = pd.file_name().into_string().unwrap();
    println!("prefix {name}");
    let other = if name.to_lowercase() != name { name.to_lowercase() } else { name.to_uppercase() };
    if other != name {
        // copy the key dir under other-case prefix dir
        let kd = std::fs::read_dir(pd.path()).unwrap().next().unwrap().unwrap();
        let dst = root.path().join(&other).join(kd.file_name());
        std::fs::create_dir_all(&dst).unwrap();
        for f in std::fs::read_dir(kd.path()).unwrap() {
            let f = f.unwrap();
            std::fs::copy(f.path(), dst.join(f.file_name())).unwrap();
        }
    }
    let c = DiskCache::initialize(&cfg).unwrap();
    println!("{:?} {:?}", c.num_items(), c.total_bytes());
    let g = c.get(&k, &ChunkRange { start: 0, end: 2 }).unwrap();
    println!("{:?}", g.map(|g| g.data.to_vec()));
    println!("{:?} {:?}", c.num_items(), c.total_bytes());
    for i in 0..20u32 {
        c.put(&key(i as u8 + 100, "default"), &ChunkRange { start: 0, end: 2 }, &[0, 3, 7], b"abcdefg").unwrap();
    }
    println!("{:?} {:?}", c.num_items(), c.total_bytes());
}

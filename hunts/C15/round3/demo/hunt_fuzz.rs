// Randomised search harness for C15 (limits on xorbs / chunks, unresolved references).
// Limits are taken from the HF_XET_* environment (debug builds).
use std::collections::HashMap;
use std::io::{BufReader, Cursor};
use std::path::{Path, PathBuf};
use std::sync::Arc;

use cas_object::CasObject;
use data::configurations::TranslatorConfig;
use data::FileUploadSession;
use deduplication::constants::{MAXIMUM_CHUNK_MULTIPLIER, MAX_XORB_BYTES, MAX_XORB_CHUNKS, TARGET_CHUNK_SIZE};
use merklehash::MerkleHash;
use rand::rngs::StdRng;
use rand::{Rng, RngCore, SeedableRng};
use tokio::task::JoinSet;
use xet_threadpool::ThreadPool;

fn find_xorbs(dir: &Path, out: &mut Vec<PathBuf>) {
    for e in std::fs::read_dir(dir).unwrap() {
        let e = e.unwrap();
        let p = e.path();
        if p.is_dir() {
            if p.file_name().unwrap() == "xorbs" || p.parent().map(|q| q.ends_with("xorbs")).unwrap_or(false) {
                find_xorbs(&p, out);
            }
        } else if p.file_name().unwrap().to_string_lossy().starts_with("default.") {
            out.push(p);
        }
    }
}

struct XorbView {
    chunk_lens: Vec<u32>,
    data: Vec<u8>,
}

fn load_xorbs(cas: &Path) -> HashMap<MerkleHash, XorbView> {
    let mut files = Vec::new();
    find_xorbs(&cas.join("xet"), &mut files);
    let mut ret = HashMap::new();
    for f in files {
        let name = f.file_name().unwrap().to_string_lossy().to_string();
        let hash = MerkleHash::from_hex(&name["default.".len()..]).unwrap();
        {
            let mut r = BufReader::new(std::fs::File::open(&f).unwrap());
            let v = CasObject::validate_cas_object(&mut r, &hash).unwrap();
            assert!(v.is_some(), "xorb {hash:?} rejected by validate_cas_object");
        }
        let mut reader = BufReader::new(std::fs::File::open(&f).unwrap());
        let cas = CasObject::deserialize(&mut reader).unwrap();
        let data = cas.get_all_bytes(&mut reader).unwrap();
        let mut chunk_lens = Vec::new();
        let mut prev = 0;
        for &o in cas.info.unpacked_chunk_offsets.iter() {
            chunk_lens.push(o - prev);
            prev = o;
        }
        assert_eq!(prev as usize, data.len());
        assert_eq!(cas.info.num_chunks as usize, chunk_lens.len());
        ret.insert(hash, XorbView { chunk_lens, data });
    }
    ret
}

fn gen_file(rng: &mut StdRng, pool: &[Vec<u8>]) -> Vec<u8> {
    let t = *TARGET_CHUNK_SIZE;
    let maxb = *MAX_XORB_BYTES;
    let mut out = Vec::new();
    let kind = rng.gen_range(0..10);
    match kind {
        0 => {},
        1 => {
            let n = rng.gen_range(1..t / 4 + 2);
            let mut v = vec![0u8; n];
            rng.fill_bytes(&mut v);
            out = v;
        },
        2 => {
            // around the xorb byte limit
            let d = rng.gen_range(0..5) as isize - 2;
            let n = (maxb as isize + d).max(0) as usize;
            let mut v = vec![0u8; n];
            rng.fill_bytes(&mut v);
            out = v;
        },
        3 => {
            // constant data: identical maximal chunks
            let n = rng.gen_range(0..3 * maxb);
            out = vec![rng.gen_range(0..3u8); n];
        },
        _ => {
            let parts = rng.gen_range(1..8);
            for _ in 0..parts {
                if rng.gen_bool(0.6) {
                    out.extend_from_slice(&pool[rng.gen_range(0..pool.len())]);
                } else {
                    let n = rng.gen_range(0..2 * t);
                    let mut v = vec![0u8; n];
                    rng.fill_bytes(&mut v);
                    out.extend_from_slice(&v);
                }
            }
        },
    }
    out
}

async fn clean_one(session: Arc<FileUploadSession>, name: String, data: Vec<u8>, seed: u64) -> (String, String) {
    let mut rng = StdRng::seed_from_u64(seed);
    let mut cleaner = session.start_clean(name.clone());
    let mut pos = 0;
    while pos < data.len() {
        let step = match rng.gen_range(0..4) {
            0 => rng.gen_range(1..64),
            1 => rng.gen_range(1..*TARGET_CHUNK_SIZE),
            2 => rng.gen_range(1..*MAX_XORB_BYTES + 2),
            _ => data.len(),
        };
        let next = (pos + step).min(data.len());
        cleaner.add_data(&data[pos..next]).await.unwrap();
        pos = next;
        if rng.gen_bool(0.3) {
            tokio::task::yield_now().await;
        }
    }
    let (pf, _) = cleaner.finish().await.unwrap();
    (name, pf.hash_string().to_string())
}

#[cfg(not(feature = "verif"))]
async fn make_session(cas: &Path, _s: usize) -> Arc<FileUploadSession> {
    let config = TranslatorConfig::local_config(cas).unwrap();
    FileUploadSession::new(config, ThreadPool::from_current_runtime(), None).await.unwrap()
}

#[cfg(feature = "verif")]
mod wrap {
    use std::collections::HashMap;
    use std::path::PathBuf;
    use std::sync::Arc;

    use async_trait::async_trait;
    use cas_client::*;
    use cas_types::FileRange;
    use mdb_shard::file_structs::MDBFileInfo;
    use mdb_shard::shard_file_reconstructor::FileReconstructor;
    use merklehash::MerkleHash;
    use utils::progress::ProgressUpdater;

    pub struct Wrapped {
        pub inner: LocalClient,
        pub lock: tokio::sync::Mutex<()>,
    }

    #[async_trait]
    impl UploadClient for Wrapped {
        async fn put(
            &self,
            prefix: &str,
            hash: &MerkleHash,
            data: Vec<u8>,
            cb: Vec<(MerkleHash, u32)>,
        ) -> Result<usize, CasClientError> {
            assert!(!data.is_empty() && !cb.is_empty());
            self.inner.put(prefix, hash, data, cb).await
        }
        async fn exists(&self, prefix: &str, hash: &MerkleHash) -> Result<bool, CasClientError> {
            self.inner.exists(prefix, hash).await
        }
    }
    #[async_trait]
    impl ReconstructionClient for Wrapped {
        async fn get_file(
            &self,
            hash: &MerkleHash,
            byte_range: Option<FileRange>,
            output_provider: &OutputProvider,
            progress_updater: Option<Arc<dyn ProgressUpdater>>,
        ) -> Result<u64, CasClientError> {
            self.inner.get_file(hash, byte_range, output_provider, progress_updater).await
        }
        async fn batch_get_file(&self, files: HashMap<MerkleHash, &OutputProvider>) -> Result<u64, CasClientError> {
            self.inner.batch_get_file(files).await
        }
    }
    #[async_trait]
    impl VerifRegistrationClient for Wrapped {
        async fn upload_shard(
            &self,
            prefix: &str,
            hash: &MerkleHash,
            force_sync: bool,
            shard_data: &[u8],
            salt: &[u8; 32],
        ) -> Result<bool, CasClientError> {
            self.inner.upload_shard(prefix, hash, force_sync, shard_data, salt).await
        }
    }
    #[async_trait]
    impl FileReconstructor<CasClientError> for Wrapped {
        async fn get_file_reconstruction_info(
            &self,
            file_hash: &MerkleHash,
        ) -> Result<Option<(MDBFileInfo, Option<MerkleHash>)>, CasClientError> {
            self.inner.get_file_reconstruction_info(file_hash).await
        }
    }
    #[async_trait]
    impl VerifShardDedupProber for Wrapped {
        async fn query_for_global_dedup_shard(
            &self,
            prefix: &str,
            chunk_hash: &MerkleHash,
            salt: &[u8; 32],
        ) -> Result<Option<PathBuf>, CasClientError> {
            // the local test client copies the shard non-atomically; keep the copies apart
            let _g = self.lock.lock().await;
            self.inner.query_for_global_dedup_shard(prefix, chunk_hash, salt).await
        }
    }
    impl ShardClientInterface for Wrapped {}
    impl Client for Wrapped {}
}

#[cfg(feature = "verif")]
async fn make_session(cas: &Path, s: usize) -> Arc<FileUploadSession> {
    use data::configurations::*;
    let path = cas.join("xet");
    std::fs::create_dir_all(&path).unwrap();
    // a fresh shard cache per session: known data is only reachable through global dedup queries
    let shard_cache = path.join(format!("shard-cache-{s}"));
    std::fs::create_dir_all(&shard_cache).unwrap();
    let config = Arc::new(TranslatorConfig {
        data_config: DataConfig {
            endpoint: Endpoint::FileSystem(path.join("xorbs")),
            compression: Default::default(),
            auth: None,
            prefix: "default".into(),
            cache_config: data::CacheConfig {
                cache_directory: path.join("cache"),
                cache_size: 1 << 30,
            },
            staging_directory: None,
        },
        shard_config: ShardConfig {
            prefix: "default".into(),
            cache_directory: shard_cache.clone(),
            session_directory: path.join("shard-session"),
            global_dedup_policy: Default::default(),
            repo_salt: Default::default(),
        },
        repo_info: Some(RepoInfo {
            repo_paths: vec!["".into()],
        }),
    });
    let client = Arc::new(wrap::Wrapped {
        inner: cas_client::LocalClient::new(path.join("xorbs"), Some(shard_cache)).unwrap(),
        lock: tokio::sync::Mutex::new(()),
    });
    FileUploadSession::new_with_client(config, ThreadPool::from_current_runtime(), None, client, false)
        .await
        .unwrap()
}

async fn run(seed: u64) {
    let mut rng = StdRng::seed_from_u64(seed);
    let tmp = tempfile::tempdir().unwrap();
    let cas = tmp.path().join("cas");
    let t = *TARGET_CHUNK_SIZE;
    let max_chunk = t * *MAXIMUM_CHUNK_MULTIPLIER;

    // pool of shared blocks
    let mut pool = Vec::new();
    for i in 0..6 {
        let n = match i {
            0 => rng.gen_range(1..t / 8 + 2),
            1 => rng.gen_range(1..t),
            2 => rng.gen_range(t..4 * t),
            3 => *MAX_XORB_BYTES,
            4 => *MAX_XORB_BYTES + rng.gen_range(0..t),
            _ => rng.gen_range(1..3 * *MAX_XORB_BYTES),
        };
        let mut v = vec![0u8; n];
        rng.fill_bytes(&mut v);
        pool.push(v);
    }

    let mut originals: HashMap<String, Vec<u8>> = HashMap::new();

    for s in 0..3 {
        let session = make_session(&cas, s).await;
        let nfiles = rng.gen_range(1..std::env::var("HUNT_FILES").ok().and_then(|s| s.parse().ok()).unwrap_or(12usize));
        let mut file_hashes: Vec<(String, String)> = Vec::new();
        let mut js = JoinSet::new();
        for i in 0..nfiles {
            let name = format!("s{s}f{i}");
            let data = gen_file(&mut rng, &pool);
            originals.insert(name.clone(), data.clone());
            let sd = rng.gen();
            if cfg!(feature = "verif") || rng.gen_bool(0.5) {
                file_hashes.push(clean_one(session.clone(), name, data, sd).await);
            } else {
                js.spawn(clean_one(session.clone(), name, data, sd));
            }
        }
        while let Some(r) = js.join_next().await {
            file_hashes.push(r.unwrap());
        }
        let (_m, infos) = session.finalize_with_file_info().await.unwrap();
        if std::env::var("HUNT_V").is_ok() { eprintln!("  s{s}: global dedup chunks {} dedup chunks {} new chunks {} defrag {}", _m.deduped_chunks_by_global_dedup, _m.deduped_chunks, _m.new_chunks, _m.defrag_prevented_dedup_chunks); }

        let xorbs = load_xorbs(&cas);
        for (h, x) in xorbs.iter() {
            assert!(!x.chunk_lens.is_empty(), "seed {seed}: empty xorb {h:?}");
            assert!(!x.data.is_empty(), "seed {seed}: empty xorb {h:?}");
            assert!(x.chunk_lens.len() <= *MAX_XORB_CHUNKS, "seed {seed}: xorb {h:?} has {} chunks", x.chunk_lens.len());
            assert!(x.data.len() <= *MAX_XORB_BYTES, "seed {seed}: xorb {h:?} has {} bytes", x.data.len());
            for &l in x.chunk_lens.iter() {
                assert!(l as usize <= max_chunk && l > 0, "seed {seed}: chunk len {l}");
            }
        }

        let by_hash: HashMap<String, &mdb_shard::file_structs::MDBFileInfo> =
            infos.iter().map(|fi| (fi.metadata.file_hash.hex(), fi)).collect();
        for (name, fh) in file_hashes.iter() {
            let orig = &originals[name];
            let fi = by_hash.get(fh).unwrap_or_else(|| panic!("seed {seed}: file {name} has no record"));
            let mut rebuilt = Vec::new();
            for seg in fi.segments.iter() {
                assert_ne!(seg.cas_hash, MerkleHash::default(), "seed {seed}: unresolved ref in {name}");
                let x = xorbs
                    .get(&seg.cas_hash)
                    .unwrap_or_else(|| panic!("seed {seed}: {name} references unknown xorb {:?}", seg.cas_hash));
                assert!(seg.chunk_index_start < seg.chunk_index_end, "seed {seed}: empty seg");
                assert!(seg.chunk_index_end as usize <= x.chunk_lens.len(), "seed {seed}: seg beyond xorb");
                let st: u32 = x.chunk_lens[..seg.chunk_index_start as usize].iter().sum();
                let ln: u32 = x.chunk_lens[seg.chunk_index_start as usize..seg.chunk_index_end as usize].iter().sum();
                assert_eq!(ln, seg.unpacked_segment_bytes, "seed {seed}: seg bytes");
                rebuilt.extend_from_slice(&x.data[st as usize..(st + ln) as usize]);
            }
            assert!(rebuilt == *orig, "seed {seed}: file {name} does not rebuild (len {} vs {})", rebuilt.len(), orig.len());
        }
        let _ = Cursor::new(Vec::<u8>::new());
    }
}

#[test]
fn hunt_fuzz() {
    let start: u64 = std::env::var("HUNT_SEED0").ok().and_then(|s| s.parse().ok()).unwrap_or(0);
    let n: u64 = std::env::var("HUNT_N").ok().and_then(|s| s.parse().ok()).unwrap_or(20);
    let rt = tokio::runtime::Builder::new_multi_thread().worker_threads(4).enable_all().build().unwrap();
    for seed in start..start + n {
        eprintln!("seed {seed}");
        rt.block_on(run(seed));
    }
}

// Xorbs made of legitimate chunk sizes, in every compression scheme, through both validators.
use std::io::Cursor;

use cas_object::{validate_cas_object_from_async_read, CasObject, CompressionScheme};
use merkledb::aggregate_hashes::cas_node_hash;
use merklehash::{compute_data_hash, MerkleHash};
use rand::rngs::StdRng;
use rand::{Rng, RngCore, SeedableRng};

fn build(chunks: &[Vec<u8>]) -> (MerkleHash, Vec<u8>, Vec<(MerkleHash, u32)>) {
    let mut data = Vec::new();
    let mut cb = Vec::new();
    let mut hl = Vec::new();
    for c in chunks {
        let h = compute_data_hash(c);
        data.extend_from_slice(c);
        cb.push((h, data.len() as u32));
        hl.push((h, c.len()));
    }
    (cas_node_hash(&hl), data, cb)
}

fn check(chunks: &[Vec<u8>], what: &str) {
    let (hash, data, cb) = build(chunks);
    for scheme in [
        None,
        Some(CompressionScheme::None),
        Some(CompressionScheme::LZ4),
        Some(CompressionScheme::ByteGrouping4LZ4),
    ] {
        let mut w = Cursor::new(Vec::new());
        CasObject::serialize(&mut w, &hash, &data, &cb, scheme).unwrap();
        let bytes = w.into_inner();
        let v = CasObject::validate_cas_object(&mut Cursor::new(&bytes), &hash).unwrap();
        assert!(v.is_some(), "{what}: {scheme:?} rejected by validate_cas_object");
        let mut ar = futures::io::Cursor::new(bytes.clone());
        let v2 = futures::executor::block_on(validate_cas_object_from_async_read(&mut ar, &hash)).unwrap();
        assert!(v2.is_some(), "{what}: {scheme:?} rejected by stream validator");
    }
}

#[test]
fn hunt_validate() {
    let mut rng = StdRng::seed_from_u64(1);
    let max = 128 * 1024;
    let mut rnd = |n: usize| {
        let mut v = vec![0u8; n];
        rng.fill_bytes(&mut v);
        v
    };
    check(&[rnd(1)], "one byte");
    check(&[rnd(max)], "one max chunk random");
    check(&[vec![0u8; max]], "one max chunk zeros");
    check(&[vec![0u8; max], vec![0u8; max], vec![0u8; max]], "repeated max chunks");
    let a = rnd(1000);
    check(&[a.clone(), a.clone()], "two equal");
    check(&[a.clone(), rnd(5), a.clone(), a.clone(), rnd(7), a.clone()], "repeats");
    // chunk data that looks like a footer ident
    let mut x = b"XETBLOB\x01".to_vec();
    x.extend_from_slice(&rnd(100));
    check(&[x.clone()], "ident-like data");
    check(&[rnd(3), x.clone(), x], "ident-like data 2");
    let mut rng2 = StdRng::seed_from_u64(2);
    for i in 0..40 {
        let n = rng2.gen_range(1..40);
        let mut cs: Vec<Vec<u8>> = Vec::new();
        for _ in 0..n {
            let l = match rng2.gen_range(0..4) {
                0 => rng2.gen_range(1..16),
                1 => max,
                _ => rng2.gen_range(1..max),
            };
            if rng2.gen_bool(0.3) && !cs.is_empty() {
                let j = rng2.gen_range(0..cs.len());
                let c: Vec<u8> = cs[j].clone();
                cs.push(c);
            } else if rng2.gen_bool(0.5) {
                cs.push(vec![rng2.gen::<u8>(); l]);
            } else {
                let mut v = vec![0u8; l];
                rng2.fill_bytes(&mut v);
                cs.push(v);
            }
        }
        check(&cs, &format!("random {i}"));
    }
}

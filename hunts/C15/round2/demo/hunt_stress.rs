// Randomised stress for C15: repetitive data, many small files, concurrent completion.
// Limits come from HF_XET_* env variables set on the command line.
use std::collections::HashMap;
use std::io::Cursor;
use std::sync::Arc;

use cas_object::CasObject;
use data::configurations::TranslatorConfig;
use data::FileUploadSession;
use deduplication::constants::{MAXIMUM_CHUNK_MULTIPLIER, MAX_XORB_BYTES, MAX_XORB_CHUNKS, TARGET_CHUNK_SIZE};
use merklehash::MerkleHash;
use rand::rngs::StdRng;
use rand::{Rng, RngCore, SeedableRng};
use tempfile::TempDir;
use tokio::task::JoinSet;
use xet_threadpool::ThreadPool;

fn gen_files(rng: &mut StdRng) -> Vec<Vec<u8>> {
    let target = *TARGET_CHUNK_SIZE;
    // a pool of blocks
    let n_blocks = rng.gen_range(2..8);
    let blocks: Vec<Vec<u8>> = (0..n_blocks)
        .map(|_| {
            let len = match rng.gen_range(0..4) {
                0 => rng.gen_range(1..target / 4 + 2),
                1 => rng.gen_range(1..target * 2),
                2 => rng.gen_range(1..target * 6),
                _ => rng.gen_range(1..target * 12),
            };
            let mut b = vec![0u8; len];
            if rng.gen_bool(0.15) {
                // constant data: max size chunks all identical
                let v = rng.gen::<u8>();
                b.iter_mut().for_each(|x| *x = v);
            } else {
                rng.fill_bytes(&mut b);
            }
            b
        })
        .collect();

    let n_files = rng.gen_range(1..12);
    (0..n_files)
        .map(|_| {
            let mut f = Vec::new();
            let n = match rng.gen_range(0..5) {
                0 => 0,
                1 => 1,
                _ => rng.gen_range(1..14),
            };
            for _ in 0..n {
                f.extend_from_slice(&blocks[rng.gen_range(0..blocks.len())]);
            }
            if rng.gen_bool(0.3) {
                let cut = rng.gen_range(0..f.len() + 1);
                f.truncate(cut);
            }
            f
        })
        .collect()
}

async fn run_one(seed: u64) {
    let mut rng = StdRng::seed_from_u64(seed);
    let files = gen_files(&mut rng);
    let concurrent = rng.gen_bool(0.5);
    let n_sessions = rng.gen_range(1..3);

    let tmp = TempDir::new().unwrap();
    let cas_dir = tmp.path().join("cas");
    let max_chunk = *TARGET_CHUNK_SIZE * *MAXIMUM_CHUNK_MULTIPLIER;

    for session_idx in 0..n_sessions {
        let config = TranslatorConfig::local_config(&cas_dir).unwrap();
        let session = FileUploadSession::new(config, ThreadPool::from_current_runtime(), None).await.unwrap();

        let mut hashes: Vec<(usize, String)> = Vec::new();
        if concurrent {
            let mut js = JoinSet::new();
            for (i, f) in files.iter().enumerate() {
                let s = session.clone();
                let f = f.clone();
                let step = rng.gen_range(1..f.len() + 2);
                js.spawn(async move {
                    let mut c = s.start_clean(format!("f{i}"));
                    for piece in f.chunks(step) {
                        c.add_data(piece).await.unwrap();
                    }
                    let (pf, _) = c.finish().await.unwrap();
                    (i, pf.hash_string().to_string())
                });
            }
            while let Some(r) = js.join_next().await {
                hashes.push(r.unwrap());
            }
        } else {
            for (i, f) in files.iter().enumerate() {
                let mut c = session.start_clean(format!("f{i}"));
                let step = rng.gen_range(1..f.len() + 2);
                for piece in f.chunks(step) {
                    c.add_data(piece).await.unwrap();
                }
                let (pf, _) = c.finish().await.unwrap();
                hashes.push((i, pf.hash_string().to_string()));
            }
        }

        let (_m, file_infos) = session.finalize_with_file_info().await.unwrap();

        // Inspect the store.
        let xorb_dir = cas_dir.join("xet").join("xorbs").join("xorbs");
        let mut xorbs: HashMap<MerkleHash, Vec<Vec<u8>>> = HashMap::new();
        for e in std::fs::read_dir(&xorb_dir).unwrap() {
            let e = e.unwrap();
            let name = e.file_name().into_string().unwrap();
            let hash = MerkleHash::from_hex(name.rsplit('.').next().unwrap()).unwrap();
            let bytes = std::fs::read(e.path()).unwrap();
            let mut cur = Cursor::new(bytes);
            let v = CasObject::validate_cas_object(&mut cur, &hash).unwrap();
            assert!(v.is_some(), "seed {seed}: xorb {hash} fails validation");
            let cas = v.unwrap();
            let n = cas.info.num_chunks as usize;
            assert!(n > 0, "seed {seed}: empty xorb");
            assert!(n <= *MAX_XORB_CHUNKS, "seed {seed}: xorb {hash} has {n} chunks > {}", *MAX_XORB_CHUNKS);
            let total = *cas.info.unpacked_chunk_offsets.last().unwrap() as usize;
            assert!(total <= *MAX_XORB_BYTES, "seed {seed}: xorb {hash} has {total} bytes > {}", *MAX_XORB_BYTES);
            let mut chunks = Vec::new();
            for i in 0..n as u32 {
                let d = cas.get_bytes_by_chunk_range(&mut cur, i, i + 1).unwrap();
                assert!(!d.is_empty(), "seed {seed}: empty chunk");
                assert!(d.len() <= max_chunk, "seed {seed}: chunk of {} > {max_chunk}", d.len());
                chunks.push(d);
            }
            xorbs.insert(hash, chunks);
        }

        // every file record resolved
        let by_hash: HashMap<String, usize> = hashes.iter().map(|(i, h)| (h.clone(), *i)).collect();
        let mut seen = 0;
        for fi in file_infos.iter() {
            let fh = fi.metadata.file_hash.hex();
            let mut data = Vec::new();
            for seg in fi.segments.iter() {
                assert_ne!(seg.cas_hash, MerkleHash::default(), "seed {seed}: unresolved xorb reference");
                let x = xorbs
                    .get(&seg.cas_hash)
                    .unwrap_or_else(|| panic!("seed {seed} session {session_idx}: file references missing xorb {}", seg.cas_hash));
                assert!(seg.chunk_index_start < seg.chunk_index_end, "seed {seed}: empty seg");
                assert!(seg.chunk_index_end as usize <= x.len(), "seed {seed}: seg out of range");
                let before = data.len();
                for c in &x[seg.chunk_index_start as usize..seg.chunk_index_end as usize] {
                    data.extend_from_slice(c);
                }
                assert_eq!(data.len() - before, seg.unpacked_segment_bytes as usize, "seed {seed}: seg bytes");
            }
            if let Some(&i) = by_hash.get(&fh) {
                assert!(data == files[i], "seed {seed}: file {i} content mismatch");
                seen += 1;
            }
        }
        let distinct: std::collections::HashSet<_> = hashes.iter().map(|(_, h)| h.clone()).collect();
        assert_eq!(seen, distinct.len(), "seed {seed}: not all files recorded ({seen} of {})", distinct.len());
    }
}

#[tokio::test(flavor = "multi_thread", worker_threads = 4)]
async fn hunt_stress() {
    let start: u64 = std::env::var("HUNT_START").ok().and_then(|s| s.parse().ok()).unwrap_or(0);
    let n: u64 = std::env::var("HUNT_N").ok().and_then(|s| s.parse().ok()).unwrap_or(50);
    eprintln!(
        "target {} max_xorb_bytes {} max_xorb_chunks {}",
        *TARGET_CHUNK_SIZE, *MAX_XORB_BYTES, *MAX_XORB_CHUNKS
    );
    for seed in start..start + n {
        run_one(seed).await;
    }
    let _ = Arc::new(0);
}

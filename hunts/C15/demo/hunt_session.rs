// Exploratory harness: FileUploadSession + LocalClient, limits from HF_XET_* env.
use std::collections::HashMap;
use std::fs::File;
use std::io::BufReader;

use cas_object::CasObject;
use data::configurations::TranslatorConfig;
use data::FileUploadSession;
use deduplication::constants::{MAX_XORB_BYTES, MAX_XORB_CHUNKS, MAXIMUM_CHUNK_MULTIPLIER, TARGET_CHUNK_SIZE};
use merklehash::MerkleHash;
use rand::rngs::StdRng;
use rand::{Rng, RngCore, SeedableRng};
use tempfile::TempDir;
use tokio::task::JoinSet;
use xet_threadpool::ThreadPool;

fn gen_file(rng: &mut StdRng, pool: &[Vec<u8>]) -> Vec<u8> {
    let max_chunk = *TARGET_CHUNK_SIZE * *MAXIMUM_CHUNK_MULTIPLIER;
    let kind = rng.gen_range(0..8);
    let mut out = Vec::new();
    match kind {
        0 => {},
        1 => {
            let n = rng.gen_range(1..64);
            out.resize(n, 0);
            rng.fill_bytes(&mut out);
        },
        2 => {
            // exactly around the xorb limit
            let n = (*MAX_XORB_BYTES as i64 + rng.gen_range(-2..3)).max(0) as usize;
            out.resize(n, 0);
            rng.fill_bytes(&mut out);
        },
        3 => {
            // constant data: max size chunks
            let n = rng.gen_range(0..(4 * *MAX_XORB_BYTES));
            out.resize(n, 7);
        },
        4 => {
            // pieces from the pool (cross-file / in-file dedup)
            for _ in 0..rng.gen_range(1..6) {
                out.extend_from_slice(&pool[rng.gen_range(0..pool.len())]);
            }
        },
        5 => {
            let n = rng.gen_range(0..max_chunk * 3);
            out.resize(n, 0);
            rng.fill_bytes(&mut out);
        },
        _ => {
            let n = rng.gen_range(0..(3 * *MAX_XORB_BYTES));
            out.resize(n, 0);
            rng.fill_bytes(&mut out);
        },
    }
    out
}

async fn one_session(seed: u64) {
    let mut rng = StdRng::seed_from_u64(seed);
    let tmp = TempDir::new().unwrap();
    let cas_dir = tmp.path().join("cas");
    let config = TranslatorConfig::local_config(&cas_dir).unwrap();

    let pool: Vec<Vec<u8>> = (0..4)
        .map(|_| {
            let mut v = vec![0u8; rng.gen_range(1..*MAX_XORB_BYTES)];
            rng.fill_bytes(&mut v);
            v
        })
        .collect();

    let n_sessions = rng.gen_range(1..3);
    for sess in 0..n_sessions {
        let session = FileUploadSession::new(config.clone(), ThreadPool::from_current_runtime(), None)
            .await
            .unwrap();
        let n_files = rng.gen_range(1..24);
        let files: Vec<Vec<u8>> = (0..n_files).map(|_| gen_file(&mut rng, &pool)).collect();
        let concurrent = rng.gen_bool(0.5);

        let mut expected: HashMap<String, Vec<u8>> = HashMap::new();
        let mut js = JoinSet::new();
        for (i, f) in files.into_iter().enumerate() {
            let s = session.clone();
            let step = rng.gen_range(1..(*MAX_XORB_BYTES * 2));
            let fut = async move {
                let mut c = s.start_clean(format!("f{i}"));
                for blk in f.chunks(step) {
                    c.add_data(blk).await.unwrap();
                }
                let (pf, _m) = c.finish().await.unwrap();
                (pf.hash_string().to_string(), f)
            };
            if concurrent {
                js.spawn(fut);
            } else {
                let (h, f) = fut.await;
                expected.insert(h, f);
            }
        }
        while let Some(r) = js.join_next().await {
            let (h, f) = r.unwrap();
            expected.insert(h, f);
        }

        let (_m, infos) = session.finalize_with_file_info().await.unwrap();

        // Scan the xorbs written so far.
        let xorb_dir = cas_dir.join("xet").join("xorbs").join("xorbs");
        let mut xorbs: HashMap<MerkleHash, (CasObject, std::path::PathBuf)> = HashMap::new();
        if xorb_dir.exists() {
            for e in std::fs::read_dir(&xorb_dir).unwrap() {
                let p = e.unwrap().path();
                let mut r = BufReader::new(File::open(&p).unwrap());
                let cas = CasObject::deserialize(&mut r).unwrap();
                let nchunks = cas.info.num_chunks as usize;
                assert!(nchunks >= 1, "seed {seed}: empty xorb");
                assert!(nchunks <= *MAX_XORB_CHUNKS, "seed {seed}: {nchunks} chunks > {}", *MAX_XORB_CHUNKS);
                let nbytes = cas.uncompressed_range_length(0, cas.info.num_chunks).unwrap() as usize;
                assert!(nbytes >= 1);
                assert!(nbytes <= *MAX_XORB_BYTES, "seed {seed}: {nbytes} bytes > {}", *MAX_XORB_BYTES);
                for k in 0..cas.info.num_chunks {
                    let l = cas.uncompressed_chunk_length(k).unwrap() as usize;
                    assert!(l >= 1 && l <= *TARGET_CHUNK_SIZE * *MAXIMUM_CHUNK_MULTIPLIER, "seed {seed}: chunk len {l}");
                }
                xorbs.insert(cas.info.cashash, (cas, p));
            }
        }

        assert!(infos.len() >= 1);
        for fi in infos.iter() {
            let mut rebuilt = Vec::new();
            for seg in fi.segments.iter() {
                assert_ne!(seg.cas_hash, MerkleHash::default(), "seed {seed} sess {sess}: unresolved ref");
                let (cas, p) = xorbs
                    .get(&seg.cas_hash)
                    .unwrap_or_else(|| panic!("seed {seed} sess {sess}: file references xorb never stored"));
                assert!(seg.chunk_index_end <= cas.info.num_chunks, "seed {seed}: range beyond xorb");
                let mut r = BufReader::new(File::open(p).unwrap());
                let d = cas
                    .get_bytes_by_chunk_range(&mut r, seg.chunk_index_start, seg.chunk_index_end)
                    .unwrap();
                assert_eq!(d.len(), seg.unpacked_segment_bytes as usize);
                rebuilt.extend_from_slice(&d);
            }
            let h = fi.metadata.file_hash.hex();
            let exp = expected.get(&h).unwrap_or_else(|| panic!("seed {seed}: unknown file record {h}"));
            assert!(&rebuilt == exp, "seed {seed} sess {sess}: file content mismatch");
        }
        for h in expected.keys() {
            assert!(
                infos.iter().any(|fi| &fi.metadata.file_hash.hex() == h),
                "seed {seed} sess {sess}: no record for file {h}"
            );
        }
    }
}

#[tokio::test(flavor = "multi_thread", worker_threads = 4)]
async fn fuzz_sessions() {
    let n: u64 = std::env::var("HUNT_ITERS").ok().and_then(|s| s.parse().ok()).unwrap_or(150);
    let start: u64 = std::env::var("HUNT_START").ok().and_then(|s| s.parse().ok()).unwrap_or(0);
    eprintln!(
        "limits: bytes {} chunks {} target chunk {}",
        *MAX_XORB_BYTES, *MAX_XORB_CHUNKS, *TARGET_CHUNK_SIZE
    );
    for seed in start..start + n {
        one_session(seed).await;
    }
}

// C15 demo 2 (debug-build configuration only): the chunker's size limits are configurable
// (HF_XET_TARGET_CHUNK_SIZE / HF_XET_MAXIMUM_CHUNK_MULTIPLIER, deduplication/src/constants.rs, `release_fixed`,
// i.e. overridable in debug builds), but the wire format's per-chunk limit is the fixed constant
// merkledb::constants::MAXIMUM_CHUNK_SIZE = 131072 checked by CASChunkHeader::validate()
// (cas_object/src/cas_chunk_format.rs:80).  Nothing ties the two together, and the write side
// (serialize_chunk / CasObject::serialize / LocalClient::put / RemoteClient::upload) never checks a chunk length.
//
// With TARGET_CHUNK_SIZE = 131072 the client emits 262144-byte chunks, the store accepts the put, and the
// stored xorb is then rejected by every validating reader ("chunk header uncompressed length too large"),
// so the file that was just uploaded "successfully" cannot be downloaded again.
// (With TARGET_CHUNK_SIZE = 8388608 the chunk length 1<<24 no longer fits the 3-byte header field at all:
// copy_three_byte_num's debug_assert fires.)
//
// Run: cargo test --offline -p data --test hunt_demo_chunk_size_vs_wire_limit
use std::fs::File;
use std::io::BufReader;

use cas_client::{FileProvider, OutputProvider};
use cas_object::CasObject;
use data::configurations::TranslatorConfig;
use data::{FileDownloader, FileUploadSession};
use deduplication::constants::TARGET_CHUNK_SIZE;
use tempfile::TempDir;
use utils::test_set_globals;
use xet_threadpool::ThreadPool;

test_set_globals! {
    TARGET_CHUNK_SIZE = 128 * 1024;
}

#[tokio::test(flavor = "multi_thread", worker_threads = 2)]
async fn configured_chunk_size_exceeds_wire_format_limit() {
    let tmp = TempDir::new().unwrap();
    let cas_dir = tmp.path().join("cas");
    let config = TranslatorConfig::local_config(&cas_dir).unwrap();

    let session = FileUploadSession::new(config.clone(), ThreadPool::from_current_runtime(), None)
        .await
        .unwrap();

    let data = vec![7u8; 600_000];
    let mut cleaner = session.start_clean("a".to_owned());
    cleaner.add_data(&data).await.unwrap();
    let (pf, _) = cleaner.finish().await.unwrap();
    // The upload reports success.
    session.finalize().await.unwrap();

    // A validating receiver looks at what was stored.
    let xorb_dir = cas_dir.join("xet").join("xorbs").join("xorbs");
    let mut rejected = Vec::new();
    for e in std::fs::read_dir(&xorb_dir).unwrap() {
        let p = e.unwrap().path();
        let mut r = BufReader::new(File::open(&p).unwrap());
        let cas = CasObject::deserialize(&mut r).unwrap();
        let hash = cas.info.cashash;
        let max_len = (0..cas.info.num_chunks)
            .map(|k| cas.uncompressed_chunk_length(k).unwrap())
            .max()
            .unwrap();
        let verdict = CasObject::validate_cas_object(&mut r, &hash);
        eprintln!("xorb {hash:?}: longest chunk {max_len} bytes; validate_cas_object -> {:?}", verdict.as_ref().map(|o| o.is_some()));
        if !matches!(verdict, Ok(Some(_))) {
            rejected.push((hash, max_len));
        }
    }

    // And the normal download path.
    let out = tmp.path().join("out");
    let downloader = FileDownloader::new(config, ThreadPool::from_current_runtime()).await.unwrap();
    let dl = downloader
        .smudge_file_from_pointer(&pf, &OutputProvider::File(FileProvider::new(out.clone())), None, None)
        .await;
    eprintln!("download result: {dl:?}");

    assert!(rejected.is_empty(), "store accepted xorbs that a validating reader rejects: {rejected:?}");
    assert!(dl.is_ok(), "uploaded file cannot be downloaded: {dl:?}");
    assert_eq!(std::fs::read(out).unwrap(), data);
}

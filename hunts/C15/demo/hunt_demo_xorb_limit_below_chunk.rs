// C15 demo 1: a configured xorb byte limit that is smaller than the largest chunk the chunker can emit.
//
// HF_XET_MAX_XORB_BYTES is an EnvConfigurable constant (it is honoured in release builds too), while the
// chunker emits chunks of up to TARGET_CHUNK_SIZE * MAXIMUM_CHUNK_MULTIPLIER = 131072 bytes.  Nothing
// validates or clamps the combination.  With MAX_XORB_BYTES = 100_000 the cut test in
// deduplication/src/file_deduplication.rs:213
//
//     if self.new_data_size + n_bytes > *MAX_XORB_BYTES || self.new_data.len() + 1 > *MAX_XORB_CHUNKS {
//         let new_xorb = self.cut_new_xorb();
//
// fires while `new_data` is still EMPTY (n_bytes alone exceeds the limit).  This
//   (a) cuts an empty xorb (hash 000..0), which UploadSessionDataManager::register_new_xorb records in the
//       session shard through add_cas_block() before the "skip empty xorbs" test in
//       register_new_xorb_for_upload() is reached, so the uploaded shard lists a xorb that was never stored;
//   (b) then pushes the oversize chunk anyway, so the next cut hands the store a xorb of 131072 bytes,
//       more than the configured maximum of 100000.
// In a debug build (b) trips `debug_assert_le!(num_bytes, *MAX_XORB_BYTES)` in
// deduplication/src/raw_xorb_data.rs:38 and the clean panics.
//
// Run (debug):    cargo test --offline -p data --test hunt_demo_xorb_limit_below_chunk
// Run (release):  cargo test --offline --release -p data --test hunt_demo_xorb_limit_below_chunk
use std::fs::File;
use std::io::BufReader;

use cas_object::CasObject;
use data::configurations::TranslatorConfig;
use data::FileUploadSession;
use deduplication::constants::{MAX_XORB_BYTES, MAX_XORB_CHUNKS};
use mdb_shard::MDBShardInfo;
use merklehash::MerkleHash;
use tempfile::TempDir;
use utils::test_set_globals;
use xet_threadpool::ThreadPool;

test_set_globals! {
    MAX_XORB_BYTES = 100_000;
}

#[tokio::test(flavor = "multi_thread", worker_threads = 2)]
async fn xorb_byte_limit_smaller_than_a_chunk() {
    let tmp = TempDir::new().unwrap();
    let cas_dir = tmp.path().join("cas");
    let config = TranslatorConfig::local_config(&cas_dir).unwrap();

    let session = FileUploadSession::new(config, ThreadPool::from_current_runtime(), None)
        .await
        .unwrap();

    // Constant data has no content-defined boundary, so every chunk is cut at the maximum chunk size (131072).
    let data = vec![7u8; 3 * 131072 + 5];
    let mut cleaner = session.start_clean("a".to_owned());
    cleaner.add_data(&data).await.unwrap(); // debug build: panics in here (raw_xorb_data.rs:38)
    cleaner.finish().await.unwrap();
    let (_metrics, infos) = session.finalize_with_file_info().await.unwrap();

    // Property check 1: every xorb handed to the store respects the configured limits.
    let xorb_dir = cas_dir.join("xet").join("xorbs").join("xorbs");
    let mut stored = Vec::new();
    let mut worst = 0usize;
    for e in std::fs::read_dir(&xorb_dir).unwrap() {
        let p = e.unwrap().path();
        let mut r = BufReader::new(File::open(&p).unwrap());
        let cas = CasObject::deserialize(&mut r).unwrap();
        let n_bytes = cas.uncompressed_range_length(0, cas.info.num_chunks).unwrap() as usize;
        eprintln!("stored xorb {:?}: {} chunks, {} bytes", cas.info.cashash, cas.info.num_chunks, n_bytes);
        assert!(cas.info.num_chunks as usize <= *MAX_XORB_CHUNKS);
        worst = worst.max(n_bytes);
        stored.push(cas.info.cashash);
    }

    // Property check 2: the shard that was uploaded only lists xorbs that were handed to the store, and none empty.
    let shard_dir = cas_dir.join("xet").join("xorbs").join("shards");
    let mut bogus = Vec::new();
    for e in std::fs::read_dir(&shard_dir).unwrap() {
        let p = e.unwrap().path();
        if p.extension().map(|x| x != "mdb").unwrap_or(true) {
            continue;
        }
        let mut r = BufReader::new(File::open(&p).unwrap());
        let si = MDBShardInfo::load_from_reader(&mut r).unwrap();
        for cb in si.read_all_cas_blocks_full(&mut r).unwrap() {
            eprintln!(
                "shard lists xorb {:?}: {} chunks, {} bytes",
                cb.metadata.cas_hash, cb.metadata.num_entries, cb.metadata.num_bytes_in_cas
            );
            if cb.metadata.num_entries == 0
                || cb.metadata.cas_hash == MerkleHash::default()
                || !stored.contains(&cb.metadata.cas_hash)
            {
                bogus.push(cb.metadata.cas_hash);
            }
        }
    }

    for fi in infos.iter() {
        for seg in fi.segments.iter() {
            assert_ne!(seg.cas_hash, MerkleHash::default());
            assert!(stored.contains(&seg.cas_hash));
        }
    }

    assert!(
        worst <= *MAX_XORB_BYTES,
        "a xorb of {worst} bytes was handed to the store; configured MAX_XORB_BYTES = {}",
        *MAX_XORB_BYTES
    );
    assert!(bogus.is_empty(), "uploaded shard lists empty / never-stored xorbs: {bogus:?}");
}

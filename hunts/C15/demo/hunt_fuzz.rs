// Exploratory harness: FileDeduper against a mock store; limits from HF_XET_* env.
use std::collections::HashMap;
use std::sync::{Arc, Mutex};

use async_trait::async_trait;
use deduplication::constants::{MAX_XORB_BYTES, MAX_XORB_CHUNKS};
use deduplication::{Chunk, DeduplicationDataInterface, FileDeduper, RawXorbData};
use mdb_shard::file_structs::FileDataSequenceEntry;
use merklehash::{compute_data_hash, MerkleHash};
use rand::rngs::StdRng;
use rand::{Rng, SeedableRng};

#[derive(Default)]
struct Store {
    // xorb hash -> list of (chunk hash, len)
    xorbs: HashMap<MerkleHash, Vec<(MerkleHash, usize)>>,
    // chunk hash -> (xorb hash, idx)
    lookup: HashMap<MerkleHash, (MerkleHash, usize)>,
    violations: Vec<String>,
}

impl Store {
    fn add(&mut self, x: &RawXorbData, whence: &str) {
        let n_chunks = x.data.len();
        let n_bytes: usize = x.data.iter().map(|d| d.len()).sum();
        if n_chunks == 0 || n_bytes == 0 {
            self.violations.push(format!("{whence}: empty xorb registered"));
        }
        if n_chunks > *MAX_XORB_CHUNKS {
            self.violations.push(format!("{whence}: xorb has {n_chunks} chunks > {}", *MAX_XORB_CHUNKS));
        }
        if n_bytes > *MAX_XORB_BYTES {
            self.violations.push(format!("{whence}: xorb has {n_bytes} bytes > {}", *MAX_XORB_BYTES));
        }
        let list: Vec<_> = x
            .cas_info
            .chunks
            .iter()
            .map(|c| (c.chunk_hash, c.unpacked_segment_bytes as usize))
            .collect();
        for (i, (h, _)) in list.iter().enumerate() {
            self.lookup.insert(*h, (x.hash(), i));
        }
        self.xorbs.insert(x.hash(), list);
    }
}

struct Mock {
    store: Arc<Mutex<Store>>,
    dedup_enabled: bool,
}

#[async_trait]
impl DeduplicationDataInterface for Mock {
    type ErrorType = String;

    async fn chunk_hash_dedup_query(
        &self,
        q: &[MerkleHash],
    ) -> Result<Option<(usize, FileDataSequenceEntry)>, String> {
        if !self.dedup_enabled {
            return Ok(None);
        }
        let s = self.store.lock().unwrap();
        let Some(&(xh, idx)) = s.lookup.get(&q[0]) else {
            return Ok(None);
        };
        let list = &s.xorbs[&xh];
        let mut n = 0;
        let mut bytes = 0;
        while n < q.len() && idx + n < list.len() && list[idx + n].0 == q[n] {
            bytes += list[idx + n].1;
            n += 1;
        }
        Ok(Some((n, FileDataSequenceEntry::new(xh, bytes, idx, idx + n))))
    }

    async fn register_global_dedup_query(&mut self, _h: MerkleHash) -> Result<(), String> {
        Ok(())
    }
    async fn complete_global_dedup_queries(&mut self) -> Result<bool, String> {
        Ok(false)
    }
    async fn register_new_xorb(&mut self, xorb: RawXorbData) -> Result<(), String> {
        self.store.lock().unwrap().add(&xorb, "mid-file cut");
        Ok(())
    }
}

fn mk_chunk(id: u32, len: usize) -> Chunk {
    let mut data = vec![0u8; len];
    let b = id.to_le_bytes();
    for (i, d) in data.iter_mut().enumerate() {
        *d = b[i % 4] ^ (i as u8).wrapping_mul(31);
    }
    if len >= 4 {
        data[..4].copy_from_slice(&b);
    }
    Chunk {
        hash: compute_data_hash(&data),
        data: data.into(),
    }
}

#[tokio::test]
async fn fuzz_file_deduper() {
    let max_chunk: usize = std::env::var("HUNT_MAX_CHUNK").ok().and_then(|s| s.parse().ok()).unwrap_or(64);
    let n_iter: u64 = std::env::var("HUNT_ITERS").ok().and_then(|s| s.parse().ok()).unwrap_or(3000);
    eprintln!("limits: bytes {} chunks {} max_chunk {max_chunk}", *MAX_XORB_BYTES, *MAX_XORB_CHUNKS);

    for seed in 0..n_iter {
        let mut rng = StdRng::seed_from_u64(seed);
        let store = Arc::new(Mutex::new(Store::default()));
        let n_files = rng.gen_range(1..4);
        let id_space = rng.gen_range(1..40u32);
        let dedup_enabled = rng.gen_bool(0.7);

        for f in 0..n_files {
            let mut dd = FileDeduper::new(Mock {
                store: store.clone(),
                dedup_enabled,
            });
            let n_chunks = rng.gen_range(0..60usize);
            let mut all: Vec<Chunk> = Vec::new();
            let mut i = 0;
            while i < n_chunks {
                let b = rng.gen_range(1..8usize).min(n_chunks - i);
                let mut block = Vec::new();
                for _ in 0..b {
                    let id = rng.gen_range(0..id_space);
                    // size determined by id so identical ids give identical chunks
                    let len = match id % 5 {
                        0 => max_chunk,
                        1 => 1,
                        2 => max_chunk / 2,
                        3 => (id as usize * 7) % max_chunk + 1,
                        _ => max_chunk - 1,
                    };
                    block.push(mk_chunk(id, len.max(1)));
                }
                dd.process_chunks(&block).await.unwrap();
                all.extend(block);
                i += b;
            }
            let (_fh, agg, _m, _nx) = dd.finalize([0u8; 32], None);
            assert!(agg.num_chunks() <= *MAX_XORB_CHUNKS, "seed {seed} file {f}: remainder chunks");
            assert!(agg.num_bytes() <= *MAX_XORB_BYTES, "seed {seed} file {f}: remainder bytes");
            let had_chunks = agg.num_chunks() > 0;
            let (xorb, files) = agg.finalize();
            if had_chunks {
                store.lock().unwrap().add(&xorb, "remainder");
            }
            assert_eq!(files.len(), 1);
            let s = store.lock().unwrap();
            // check the file record
            let mut pos = 0;
            for seg in files[0].segments.iter() {
                assert_ne!(seg.cas_hash, MerkleHash::default(), "seed {seed} file {f}: unresolved reference");
                let list = s
                    .xorbs
                    .get(&seg.cas_hash)
                    .unwrap_or_else(|| panic!("seed {seed} file {f}: segment references unknown xorb"));
                assert!(seg.chunk_index_start < seg.chunk_index_end, "seed {seed}: empty segment");
                assert!(seg.chunk_index_end as usize <= list.len(), "seed {seed} file {f}: segment out of range");
                let mut bytes = 0;
                for k in seg.chunk_index_start..seg.chunk_index_end {
                    assert_eq!(list[k as usize].0, all[pos].hash, "seed {seed} file {f}: wrong chunk at {pos}");
                    bytes += list[k as usize].1;
                    pos += 1;
                }
                assert_eq!(bytes, seg.unpacked_segment_bytes as usize, "seed {seed}: bytes mismatch");
            }
            assert_eq!(pos, all.len(), "seed {seed} file {f}: file not fully covered");
            assert!(s.violations.is_empty(), "seed {seed} file {f}: {:?}", s.violations);
        }
    }
}

use std::io::Write;
use merklehash::*;
use rand::prelude::*;

struct Choppy { out: Vec<u8>, k: usize }
impl Write for Choppy {
    fn write(&mut self, buf: &[u8]) -> std::io::Result<usize> {
        self.k += 1;
        if self.k % 3 == 0 { return Err(std::io::Error::new(std::io::ErrorKind::Interrupted, "x")); }
        let n = (self.k % 7).min(buf.len()).max(if buf.is_empty() {0} else {1});
        self.out.extend_from_slice(&buf[..n]);
        Ok(n)
    }
    fn flush(&mut self) -> std::io::Result<()> { Ok(()) }
}

#[test]
fn text_forms() {
    let mut rng = StdRng::seed_from_u64(1);
    for i in 0..20000 {
        let mut b = [0u8; 32];
        rng.fill_bytes(&mut b);
        if i % 5 == 0 { for x in b.iter_mut().take(rng.random_range(0..32)) { *x = 0; } }
        if i % 7 == 0 { for x in b.iter_mut().skip(rng.random_range(0..32)) { *x = 0xff; } }
        let h = DataHash::from(b);
        assert_eq!(DataHash::from_hex(&h.hex()).unwrap(), h);
        assert_eq!(h.hex().len(), 64);
        assert_eq!(DataHash::from_hex(&h.hex().to_uppercase()).unwrap(), h);
        assert_eq!(DataHash::from_base64(&h.base64()).unwrap(), h);
        assert_eq!(format!("{:x}", h), h.hex());
        assert_eq!(format!("{}", h), h.hex());
        assert_eq!(DataHash::from_slice(h.as_bytes()).unwrap(), h);
        let bb: [u8; 32] = h.into();
        assert_eq!(bb, b);
        // garbage does not panic
        let l = rng.random_range(0..80);
        let s: String = (0..l).map(|_| rng.random_range(32u8..127) as char).collect();
        let _ = DataHash::from_hex(&s);
        let _ = DataHash::from_base64(&s);
    }
    let _ = DataHash::from_hex(&"é".repeat(32));
    let _ = DataHash::from_hex(&format!("+{}", "0".repeat(63)));
    assert!(DataHash::from_hex(&format!("+{}", "0".repeat(63))).is_err());
}

#[test]
fn streaming() {
    let mut rng = StdRng::seed_from_u64(2);
    for _ in 0..200 {
        let n = rng.random_range(0..5000);
        let mut d = vec![0u8; n];
        rng.fill_bytes(&mut d);
        let mut hw = HashedWrite::new(Choppy { out: vec![], k: rng.random_range(0..10) });
        let mut pos = 0;
        while pos < n {
            let e = (pos + rng.random_range(1..300)).min(n);
            hw.write_all(&d[pos..e]).unwrap();
            pos = e;
        }
        assert_eq!(hw.hash(), compute_data_hash(&d));
        assert_eq!(hw.into_inner().out, d);
    }
}

// Differential harness (scratch): reference implementation vs the crate's code paths.
use std::io::Cursor;

use cas_object::{validate_cas_object_from_async_read, CasObject, CompressionScheme};
use merkledb::aggregate_hashes::{cas_node_hash, file_node_hash};
use merkledb::prelude::MerkleDBHighLevelMethodsV1;
use merkledb::{Chunk, MerkleMemDB};
use merklehash::{compute_data_hash, compute_internal_node_hash, MerkleHash};
use rand::prelude::*;

fn ref_agg(chunks: &[(MerkleHash, usize)]) -> MerkleHash {
    if chunks.is_empty() {
        return MerkleHash::default();
    }
    let mut hv: Vec<(MerkleHash, u128)> = chunks.iter().map(|(h, l)| (*h, *l as u128)).collect();
    while hv.len() > 1 {
        let mut next = Vec::new();
        let mut i = 0;
        while i < hv.len() {
            let rest = &hv[i..];
            let cut = if rest.len() <= 2 {
                rest.len()
            } else {
                let end = 9.min(rest.len());
                let mut c = end;
                for j in 2..end {
                    if rest[j].0[3] % 4 == 0 {
                        c = j + 1;
                        break;
                    }
                }
                c
            };
            let mut s = String::new();
            let mut tot = 0u128;
            for (h, l) in &rest[..cut] {
                s.push_str(&format!("{} : {}\n", h.hex(), l));
                tot += l;
            }
            next.push((compute_internal_node_hash(s.as_bytes()), tot));
            i += cut;
        }
        hv = next;
    }
    hv[0].0
}

fn validator_hash(chunks: &[(MerkleHash, usize)]) -> MerkleHash {
    let cs: Vec<Chunk> = chunks.iter().map(|(h, l)| Chunk { hash: *h, length: *l }).collect();
    let mut db = MerkleMemDB::default();
    let mut staging = db.start_insertion_staging();
    db.add_file(&mut staging, &cs);
    *db.finalize(staging).hash()
}

fn rnd_hash(rng: &mut StdRng) -> MerkleHash {
    let mut b = [0u8; 32];
    rng.fill_bytes(&mut b);
    MerkleHash::from(b)
}

#[test]
fn diff_abstract_lists() {
    let mut rng = StdRng::seed_from_u64(7);
    for iter in 0..3000 {
        let n = match iter % 4 {
            0 => rng.gen_range(1..12),
            1 => rng.gen_range(1..100),
            2 => rng.gen_range(1..1000),
            _ => rng.gen_range(1..40),
        };
        // pool of distinct (hash,len); repeated draws model repeated chunks
        let pool_n = if iter % 3 == 0 { rng.gen_range(1..=n.min(5)) } else { n };
        let pool: Vec<(MerkleHash, usize)> = (0..pool_n)
            .map(|_| {
                let mut h = rnd_hash(&mut rng);
                // bias the cut condition
                match rng.gen_range(0..4) {
                    0 => h[3] &= !3,
                    1 => h[3] |= 1,
                    _ => {},
                }
                let l = match rng.gen_range(0..5) {
                    0 => 0,
                    1 => 1,
                    2 => 128 * 1024,
                    _ => rng.gen_range(0..=128 * 1024),
                };
                (h, l)
            })
            .collect();
        let list: Vec<(MerkleHash, usize)> = (0..n).map(|_| pool[rng.gen_range(0..pool.len())]).collect();
        let r = ref_agg(&list);
        assert_eq!(cas_node_hash(&list), r, "cas_node_hash iter {iter}");
        assert_eq!(validator_hash(&list), r, "validator iter {iter}");
        let mut salt = [0u8; 32];
        if iter % 2 == 0 {
            rng.fill_bytes(&mut salt);
        }
        let f = file_node_hash(&list, &salt).unwrap();
        assert_eq!(f, MerkleHash::from(*blake3::keyed_hash(&salt, r.as_bytes()).as_bytes()));
    }
}

fn build_and_validate(chunks_data: &[Vec<u8>], scheme: Option<CompressionScheme>) {
    let mut data = Vec::new();
    let mut cb = Vec::new();
    let mut hl = Vec::new();
    for c in chunks_data {
        data.extend_from_slice(c);
        let h = compute_data_hash(c);
        cb.push((h, data.len() as u32));
        hl.push((h, c.len()));
    }
    let xh = cas_node_hash(&hl);
    assert_eq!(xh, ref_agg(&hl));
    let mut w = Cursor::new(Vec::new());
    CasObject::serialize(&mut w, &xh, &data, &cb, scheme).unwrap();
    let bytes = w.into_inner();
    let mut r = Cursor::new(bytes.clone());
    let v = CasObject::validate_cas_object(&mut r, &xh).unwrap();
    assert!(v.is_some(), "seek validator rejected, scheme {scheme:?}, lens {:?}", chunks_data.iter().map(|c| c.len()).collect::<Vec<_>>());
    let mut ar = futures::io::Cursor::new(bytes.clone());
    let v2 = futures::executor::block_on(validate_cas_object_from_async_read(&mut ar, &xh)).unwrap();
    assert!(v2.is_some(), "stream validator rejected, scheme {scheme:?}, lens {:?}", chunks_data.iter().map(|c| c.len()).collect::<Vec<_>>());
    // footer-less stream
    let v = v.unwrap();
    let content_len = v.get_contents_length().unwrap() as usize;
    let mut ar = futures::io::Cursor::new(bytes[..content_len].to_vec());
    let v3 = futures::executor::block_on(validate_cas_object_from_async_read(&mut ar, &xh)).unwrap();
    assert!(v3.is_some(), "footerless stream validator rejected");
    let (c3, _) = v3.unwrap();
    assert_eq!(c3.info.chunk_hashes, v.info.chunk_hashes);
    assert_eq!(c3.info.unpacked_chunk_offsets, v.info.unpacked_chunk_offsets);
    assert_eq!(c3.info.chunk_boundary_offsets, v.info.chunk_boundary_offsets);
    // range hash
    for (s, e) in [(0u32, 1u32), (0, hl.len() as u32), (hl.len() as u32 - 1, hl.len() as u32)] {
        let hs: Vec<MerkleHash> = hl[s as usize..e as usize].iter().map(|x| x.0).collect();
        assert_eq!(v.generate_chunk_range_hash(s, e).unwrap(), mdb_shard::chunk_verification::range_hash_from_chunks(&hs));
    }
}

#[test]
fn diff_real_xorbs() {
    let mut rng = StdRng::seed_from_u64(11);
    let schemes = [
        None,
        Some(CompressionScheme::None),
        Some(CompressionScheme::LZ4),
        Some(CompressionScheme::ByteGrouping4LZ4),
    ];
    for iter in 0..300 {
        let n = rng.gen_range(1..30);
        let mut cd = Vec::new();
        for _ in 0..n {
            let l = match rng.gen_range(0..8) {
                0 => 0usize,
                1 => 1,
                2 => rng.gen_range(0..9),
                3 => 128 * 1024,
                4 => 128 * 1024 - 1,
                _ => rng.gen_range(0..20000),
            };
            let mut v = vec![0u8; l];
            match rng.gen_range(0..4) {
                0 => rng.fill_bytes(&mut v),
                1 => {
                    for (i, b) in v.iter_mut().enumerate() {
                        *b = (i % 4) as u8 * 60;
                    }
                },
                2 => {
                    // float-like
                    for (i, b) in v.iter_mut().enumerate() {
                        *b = if i % 4 == 3 { 0x3f } else { rng.gen() };
                    }
                },
                _ => {},
            }
            cd.push(v);
        }
        if iter % 5 == 0 {
            let k = rng.gen_range(0..cd.len());
            let c = cd[k].clone();
            cd.push(c);
        }
        build_and_validate(&cd, schemes[iter % 4]);
    }
}

#[test]
fn diff_big_lists() {
    let mut rng = StdRng::seed_from_u64(99);
    for iter in 0..12 {
        let (n, len) = match iter % 4 {
            0 => (8192usize, 8200usize),
            1 => (600, 128 * 1024),
            2 => (1100, 128 * 1024), // two CAS blocks
            _ => (8192, 16 * 1024),
        };
        let pool_n = if iter < 4 { n } else if iter < 8 { n / 2 } else { 3 };
        let pool: Vec<(MerkleHash, usize)> = (0..pool_n).map(|_| (rnd_hash(&mut rng), len - rng.gen_range(0..3))).collect();
        let list: Vec<(MerkleHash, usize)> = (0..n).map(|i| if pool_n == n { pool[i] } else { pool[rng.gen_range(0..pool.len())] }).collect();
        let r = ref_agg(&list);
        assert_eq!(cas_node_hash(&list), r, "cas_node_hash iter {iter}");
        assert_eq!(validator_hash(&list), r, "validator iter {iter}");
    }
}

#[test]
fn empty_xorb_note() {
    let xh = cas_node_hash(&[]);
    let mut w = Cursor::new(Vec::new());
    CasObject::serialize(&mut w, &xh, &[], &[], None).unwrap();
    let bytes = w.into_inner();
    let mut r = Cursor::new(bytes.clone());
    let v = CasObject::validate_cas_object(&mut r, &xh).unwrap();
    let mut ar = futures::io::Cursor::new(bytes.clone());
    let v2 = futures::executor::block_on(validate_cas_object_from_async_read(&mut ar, &xh)).unwrap();
    println!("seek validator accepts: {}, stream validator accepts: {}", v.is_some(), v2.is_some());
}

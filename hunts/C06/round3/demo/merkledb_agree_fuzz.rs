use std::fmt::Write as _;

use merkledb::aggregate_hashes::{cas_node_hash, file_node_hash};
use merkledb::prelude::MerkleDBHighLevelMethodsV1;
use merkledb::{Chunk, MerkleMemDB};
use merklehash::{compute_internal_node_hash, MerkleHash};
use rand::rngs::StdRng;
use rand::{Rng, RngCore, SeedableRng};

fn ref_cut(h: &[(MerkleHash, usize)]) -> usize {
    if h.len() <= 2 {
        return h.len();
    }
    let end = 9.min(h.len());
    for i in 2..end {
        if h[i].0[3] % 4 == 0 {
            return i + 1;
        }
    }
    end
}

fn ref_merge(h: &[(MerkleHash, usize)]) -> MerkleHash {
    let mut s = String::new();
    for (x, l) in h {
        let b: [u8; 32] = (*x).into();
        // hex: 4 u64 little endian words, each printed as 016x
        for w in 0..4 {
            let mut v = [0u8; 8];
            v.copy_from_slice(&b[w * 8..w * 8 + 8]);
            write!(s, "{:016x}", u64::from_le_bytes(v)).unwrap();
        }
        write!(s, " : {}\n", l).unwrap();
    }
    compute_internal_node_hash(s.as_bytes())
}

fn ref_agg(chunks: &[(MerkleHash, usize)]) -> MerkleHash {
    if chunks.is_empty() {
        return MerkleHash::default();
    }
    let mut hv = chunks.to_vec();
    while hv.len() > 1 {
        let mut out = vec![];
        let mut i = 0;
        while i < hv.len() {
            let c = i + ref_cut(&hv[i..]);
            out.push((ref_merge(&hv[i..c]), hv[i..c].iter().map(|x| x.1).sum()));
            i = c;
        }
        hv = out;
    }
    hv[0].0
}

fn ref_file(chunks: &[(MerkleHash, usize)], salt: &[u8; 32]) -> MerkleHash {
    if chunks.is_empty() {
        return MerkleHash::default();
    }
    let h = ref_agg(chunks);
    MerkleHash::from(*blake3::keyed_hash(salt, h.as_bytes()).as_bytes())
}

fn validator_hash(chunks: &[(MerkleHash, usize)]) -> MerkleHash {
    let c: Vec<Chunk> = chunks.iter().map(|(h, l)| Chunk { hash: *h, length: *l }).collect();
    let mut db = MerkleMemDB::default();
    let mut staging = db.start_insertion_staging();
    db.add_file(&mut staging, &c);
    let ret = db.finalize(staging);
    *ret.hash()
}

fn rand_hash(rng: &mut StdRng, mode: u32) -> MerkleHash {
    let mut b = [0u8; 32];
    rng.fill_bytes(&mut b);
    let mut h = MerkleHash::from(b);
    match mode {
        1 => h[3] &= !3,            // always cut
        2 => h[3] |= 1,             // never cut
        3 => h[0] = 0x1234,         // same 64 bit prefix
        _ => {},
    }
    h
}

#[test]
fn fuzz_agree() {
    let mut rng = StdRng::seed_from_u64(7);
    for iter in 0..3000 {
        let n = match iter % 5 {
            0 => rng.gen_range(1..12),
            1 => rng.gen_range(1..100),
            2 => rng.gen_range(1..1000),
            3 => rng.gen_range(1..30),
            _ => rng.gen_range(1..5000),
        };
        if iter % 5 == 4 && iter % 25 != 4 {
            continue;
        }
        let mode = rng.gen_range(0..5);
        let mut pool: Vec<(MerkleHash, usize)> = vec![];
        let mut chunks = vec![];
        for _ in 0..n {
            // repeated chunks (same length) with probability
            if !pool.is_empty() && rng.gen_range(0..4) == 0 {
                let k = rng.gen_range(0..pool.len());
                chunks.push(pool[k]);
            } else {
                let m = if mode == 4 { rng.gen_range(0..4) } else { mode };
                let l = match rng.gen_range(0..4) {
                    0 => 0,
                    1 => rng.gen_range(0..200),
                    2 => rng.gen_range(0..(1usize << 17) + 1),
                    _ => rng.gen_range(0..(1usize << 40)),
                };
                let e = (rand_hash(&mut rng, m), l);
                pool.push(e);
                chunks.push(e);
            }
        }
        let r = ref_agg(&chunks);
        assert_eq!(cas_node_hash(&chunks), r, "cas iter {iter} n {n}");
        assert_eq!(validator_hash(&chunks), r, "validator iter {iter} n {n}");
        let mut salt = [0u8; 32];
        if iter % 3 != 0 {
            rng.fill_bytes(&mut salt);
        }
        assert_eq!(file_node_hash(&chunks, &salt).unwrap(), ref_file(&chunks, &salt), "file iter {iter}");
    }
}

use std::io::Cursor;

use cas_object::{validate_cas_object_from_async_read, CasObject, CompressionScheme};
use merkledb::aggregate_hashes::cas_node_hash;
use merklehash::{compute_data_hash, MerkleHash};
use rand::rngs::StdRng;
use rand::{Rng, RngCore, SeedableRng};

fn build(chunks: &[Vec<u8>], scheme: Option<CompressionScheme>) -> (MerkleHash, Vec<u8>) {
    let mut hl = vec![];
    let mut cb = vec![];
    let mut data = vec![];
    for c in chunks {
        let h = compute_data_hash(c);
        hl.push((h, c.len()));
        data.extend_from_slice(c);
        cb.push((h, data.len() as u32));
    }
    let hash = cas_node_hash(&hl);
    let mut w = Cursor::new(Vec::new());
    CasObject::serialize(&mut w, &hash, &data, &cb, scheme).unwrap();
    (hash, w.into_inner())
}

fn check(chunks: &[Vec<u8>], scheme: Option<CompressionScheme>, tag: &str) {
    let (hash, bytes) = build(chunks, scheme);
    let r = CasObject::validate_cas_object(&mut Cursor::new(&bytes), &hash).unwrap();
    assert!(r.is_some(), "seek validator rejected {tag}");
    let r = futures::executor::block_on(validate_cas_object_from_async_read(
        &mut futures::io::Cursor::new(&bytes),
        &hash,
    ))
    .unwrap();
    assert!(r.is_some(), "stream validator rejected {tag}");
    // footerless
    let info_len = u32::from_le_bytes(bytes[bytes.len() - 4..].try_into().unwrap()) as usize;
    let body = &bytes[..bytes.len() - 4 - info_len];
    let r = futures::executor::block_on(validate_cas_object_from_async_read(&mut futures::io::Cursor::new(body), &hash))
        .unwrap();
    assert!(r.is_some(), "stream validator rejected footerless {tag}");
}

#[test]
fn uploader_vs_validators() {
    let mut rng = StdRng::seed_from_u64(3);
    let schemes = [
        None,
        Some(CompressionScheme::None),
        Some(CompressionScheme::LZ4),
        Some(CompressionScheme::ByteGrouping4LZ4),
    ];
    for iter in 0..300 {
        let n = match iter % 4 {
            0 => 1,
            1 => rng.gen_range(1..5),
            2 => rng.gen_range(1..40),
            _ => rng.gen_range(1..400),
        };
        let mut chunks: Vec<Vec<u8>> = vec![];
        for _ in 0..n {
            if !chunks.is_empty() && rng.gen_range(0..5) == 0 {
                let k = rng.gen_range(0..chunks.len());
                chunks.push(chunks[k].clone());
                continue;
            }
            let len = match rng.gen_range(0..6) {
                0 => 1,
                1 => rng.gen_range(1..64),
                2 => 131072,
                3 => 131071,
                _ => rng.gen_range(1..20000),
            };
            let mut c = vec![0u8; len];
            match rng.gen_range(0..3) {
                0 => rng.fill_bytes(&mut c),
                1 => {
                    let b = rng.gen::<u8>();
                    c.iter_mut().for_each(|x| *x = b)
                },
                _ => {
                    for (i, x) in c.iter_mut().enumerate() {
                        *x = if i % 4 == 0 { rng.gen() } else { 0 };
                    }
                },
            }
            chunks.push(c);
        }
        check(&chunks, schemes[iter % 4], &format!("iter {iter} n {n}"));
    }
}

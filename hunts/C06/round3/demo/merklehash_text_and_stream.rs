use std::io::Write;

use merklehash::{compute_data_hash, DataHash, HashedWrite};
use rand::prelude::*;

struct Erratic {
    out: Vec<u8>,
    rng: StdRng,
}
impl Write for Erratic {
    fn write(&mut self, buf: &[u8]) -> std::io::Result<usize> {
        match self.rng.random_range(0..4) {
            0 => Err(std::io::Error::from(std::io::ErrorKind::Interrupted)),
            1 => {
                let n = self.rng.random_range(0..=buf.len().min(3));
                let n = if n == 0 && !buf.is_empty() { 1 } else { n };
                self.out.extend_from_slice(&buf[..n]);
                Ok(n)
            },
            _ => {
                let n = self.rng.random_range(1..=buf.len().max(1)).min(buf.len());
                self.out.extend_from_slice(&buf[..n]);
                Ok(n)
            },
        }
    }
    fn flush(&mut self) -> std::io::Result<()> {
        Ok(())
    }
}

#[test]
fn text_and_stream() {
    let mut rng = StdRng::seed_from_u64(1);
    for i in 0..20000 {
        let mut b = [0u8; 32];
        rng.fill_bytes(&mut b);
        if i % 7 == 0 {
            for k in 0..32 {
                if rng.random_range(0..2) == 0 {
                    b[k] = 0
                }
            }
        }
        if i % 11 == 0 {
            b = [0xff; 32];
        }
        let h = DataHash::from(b);
        assert_eq!(DataHash::from_hex(&h.hex()).unwrap(), h);
        assert_eq!(DataHash::from_hex(&h.hex().to_uppercase()).unwrap(), h);
        assert_eq!(DataHash::from_base64(&h.base64()).unwrap(), h);
        assert_eq!(h.hex().len(), 64);
        assert_eq!(h.base64().len(), 43);
        assert_eq!(format!("{h}"), h.hex());
        assert_eq!(format!("{h:x}"), h.hex());
        assert_eq!(format!("{h:?}"), h.hex());
        let back: [u8; 32] = h.into();
        assert_eq!(back, b);
        let key = DataHash::from([i as u8; 32]);
        assert_eq!(h.hmac(key), DataHash::from(*blake3::keyed_hash(&[i as u8; 32], &b).as_bytes()));
    }
    // bad text
    for bad in ["", "+", &"g".repeat(64), &"é".repeat(32), &format!("+{}", "0".repeat(63)), &" ".repeat(64)] {
        assert!(DataHash::from_hex(bad).is_err(), "{bad}");
    }
    for i in 0..300 {
        let len = rng.random_range(0..5000);
        let mut data = vec![0u8; len];
        rng.fill_bytes(&mut data);
        let mut hw = HashedWrite::new(Erratic { out: vec![], rng: StdRng::seed_from_u64(i) });
        let mut pos = 0;
        while pos < data.len() {
            let e = (pos + rng.random_range(1..700)).min(data.len());
            hw.write_all(&data[pos..e]).unwrap();
            pos = e;
        }
        assert_eq!(hw.hash(), compute_data_hash(&data));
        assert_eq!(hw.hash(), compute_data_hash(&data));
        assert_eq!(hw.into_inner().out, data);
    }
}

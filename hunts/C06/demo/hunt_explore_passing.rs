// NOT a failing demo: the differential / sanity tests I used to rule things out (all pass).
// Run: cp to /tmp/hunt/C06/cas_object/tests/hunt_explore.rs; cargo test --offline -p cas_object --test hunt_explore
// Exploration: differential test of the aggregate hashes against an independent implementation.
use std::io::Cursor;

use cas_object::{validate_cas_object_from_async_read, CasObject, CompressionScheme};
use merkledb::aggregate_hashes::{cas_node_hash, file_node_hash};
use merkledb::prelude::MerkleDBHighLevelMethodsV1;
use merkledb::{Chunk, MerkleMemDB};
use merklehash::{compute_data_hash, MerkleHash};
use rand::rngs::StdRng;
use rand::{Rng, RngCore, SeedableRng};

const DATA_KEY: [u8; 32] = [
    102, 151, 245, 119, 91, 149, 80, 222, 49, 53, 203, 172, 165, 151, 24, 28, 157, 228, 33, 16, 155, 235, 43, 88, 180,
    208, 176, 75, 147, 173, 242, 41,
];
const INTERNAL_KEY: [u8; 32] = [
    1, 126, 197, 199, 165, 71, 41, 150, 253, 148, 102, 102, 180, 138, 2, 230, 93, 221, 83, 111, 55, 199, 109, 210, 248,
    99, 82, 230, 74, 83, 113, 63,
];

fn ref_hex(b: &[u8; 32]) -> String {
    let mut s = String::new();
    for w in 0..4 {
        let mut a = [0u8; 8];
        a.copy_from_slice(&b[w * 8..w * 8 + 8]);
        s.push_str(&format!("{:016x}", u64::from_le_bytes(a)));
    }
    s
}

fn ref_last_u64(b: &[u8; 32]) -> u64 {
    let mut a = [0u8; 8];
    a.copy_from_slice(&b[24..32]);
    u64::from_le_bytes(a)
}

/// Independent implementation of the published construction (lengths as u128 to be overflow free).
fn ref_root(chunks: &[([u8; 32], u128)]) -> [u8; 32] {
    if chunks.is_empty() {
        return [0u8; 32];
    }
    let mut level: Vec<([u8; 32], u128)> = chunks.to_vec();
    while level.len() > 1 {
        let mut next = Vec::new();
        let mut start = 0usize;
        let n = level.len();
        for idx in 0..n {
            let so_far = idx - start;
            let cut = (so_far >= 2 && ref_last_u64(&level[idx].0) % 4 == 0) || so_far >= 8 || idx + 1 == n;
            if cut {
                let mut buf = String::new();
                let mut total = 0u128;
                for (h, l) in &level[start..=idx] {
                    buf.push_str(&format!("{} : {}\n", ref_hex(h), l));
                    total += *l;
                }
                let h = *blake3::keyed_hash(&INTERNAL_KEY, buf.as_bytes()).as_bytes();
                next.push((h, total));
                start = idx + 1;
            }
        }
        level = next;
    }
    level[0].0
}

fn to_mh(b: &[u8; 32]) -> MerkleHash {
    MerkleHash::from(b)
}

fn v1_root(chunks: &[(MerkleHash, usize)]) -> MerkleHash {
    let ch: Vec<Chunk> = chunks
        .iter()
        .map(|(h, l)| Chunk {
            hash: *h,
            length: *l,
        })
        .collect();
    let mut db = MerkleMemDB::default();
    let mut staging = db.start_insertion_staging();
    db.add_file(&mut staging, &ch);
    *db.finalize(staging).hash()
}

fn check(chunks: &[([u8; 32], usize)], tag: &str) -> bool {
    let r: Vec<([u8; 32], u128)> = chunks.iter().map(|(h, l)| (*h, *l as u128)).collect();
    let expect = to_mh(&ref_root(&r));
    let inp: Vec<(MerkleHash, usize)> = chunks.iter().map(|(h, l)| (to_mh(h), *l)).collect();
    let got = cas_node_hash(&inp);
    let got_v1 = v1_root(&inp);
    let salt = [7u8; 32];
    let got_file = file_node_hash(&inp, &salt).unwrap();
    let expect_file = MerkleHash::from(blake3::keyed_hash(&salt, expect.as_bytes()).as_bytes());
    let ok = got == expect && got_v1 == expect && got_file == expect_file;
    if !ok {
        println!("MISMATCH [{tag}] n={} cas={} v1={} ref={}", chunks.len(), got, got_v1, expect);
    }
    ok
}

#[test]
fn random_lists() {
    let mut rng = StdRng::seed_from_u64(1);
    let mut bad = 0;
    for iter in 0..600 {
        let n = match iter % 6 {
            0 => rng.gen_range(1..12),
            1 => rng.gen_range(1..40),
            2 => rng.gen_range(1..300),
            3 => rng.gen_range(1..3000),
            4 => rng.gen_range(1..20),
            _ => rng.gen_range(1..100),
        };
        let pool_size = if iter % 3 == 0 { rng.gen_range(1..5) } else { 1000000 };
        let mut pool: Vec<([u8; 32], usize)> = Vec::new();
        let mut chunks = Vec::new();
        for _ in 0..n {
            if pool.len() < pool_size {
                let mut h = [0u8; 32];
                rng.fill_bytes(&mut h);
                // bias the cut condition
                match rng.gen_range(0..4) {
                    0 => h[24] &= 0xfc,
                    1 => h[24] |= 1,
                    _ => {},
                }
                let l = match rng.gen_range(0..5) {
                    0 => 0usize,
                    1 => rng.gen_range(0..200000),
                    2 => u32::MAX as usize,
                    3 => 1,
                    _ => rng.gen_range(0..(1usize << 40)),
                };
                pool.push((h, l));
                chunks.push((h, l));
            } else {
                chunks.push(pool[rng.gen_range(0..pool.len())]);
            }
        }
        if !check(&chunks, &format!("iter{iter}")) {
            bad += 1;
        }
    }
    assert_eq!(bad, 0);
}

#[test]
fn real_xorbs_all_validators() {
    let mut rng = StdRng::seed_from_u64(2);
    for iter in 0..150 {
        let n = rng.gen_range(1..60);
        let mut pool: Vec<Vec<u8>> = Vec::new();
        let mut data = Vec::new();
        let mut cb = Vec::new();
        let mut hl = Vec::new();
        for _ in 0..n {
            let bytes: Vec<u8> = if !pool.is_empty() && rng.gen_bool(0.3) {
                pool[rng.gen_range(0..pool.len())].clone()
            } else {
                let l = match rng.gen_range(0..4) {
                    0 => rng.gen_range(1..8),
                    1 => rng.gen_range(1..5000),
                    _ => rng.gen_range(1..200),
                };
                let mut v = vec![0u8; l];
                if rng.gen_bool(0.5) {
                    rng.fill_bytes(&mut v);
                } else {
                    let b = rng.gen::<u8>();
                    v.iter_mut().enumerate().for_each(|(i, x)| *x = b.wrapping_add((i / 7) as u8));
                }
                pool.push(v.clone());
                v
            };
            let h = compute_data_hash(&bytes);
            assert_eq!(h, MerkleHash::from(blake3::keyed_hash(&DATA_KEY, &bytes).as_bytes()));
            data.extend_from_slice(&bytes);
            cb.push((h, data.len() as u32));
            hl.push((h, bytes.len()));
        }
        let xh = cas_node_hash(&hl);
        let scheme = match iter % 4 {
            0 => Some(CompressionScheme::None),
            1 => Some(CompressionScheme::LZ4),
            2 => Some(CompressionScheme::ByteGrouping4LZ4),
            _ => None,
        };
        let mut w = Cursor::new(Vec::new());
        CasObject::serialize(&mut w, &xh, &data, &cb, scheme).unwrap();
        let bytes = w.into_inner();
        let mut r = Cursor::new(bytes.clone());
        let v = CasObject::validate_cas_object(&mut r, &xh).unwrap();
        assert!(v.is_some(), "seek validator rejects iter {iter}");
        let mut ar = futures::io::Cursor::new(bytes.clone());
        let v2 = futures::executor::block_on(validate_cas_object_from_async_read(&mut ar, &xh)).unwrap();
        assert!(v2.is_some(), "stream validator rejects iter {iter}");
        // footer-less
        let cas = v.unwrap();
        let cut = bytes.len() - cas.info_length as usize - 4;
        let mut ar = futures::io::Cursor::new(bytes[..cut].to_vec());
        let v3 = futures::executor::block_on(validate_cas_object_from_async_read(&mut ar, &xh)).unwrap();
        assert!(v3.is_some(), "stream validator (no footer) rejects iter {iter}");
    }
}

#[test]
fn text_forms_and_streaming() {
    use std::io::Write;
    use merklehash::{DataHash, HashedWrite};
    let mut rng = StdRng::seed_from_u64(3);
    let mut cases: Vec<[u8; 32]> = vec![[0u8; 32], [0xffu8; 32]];
    for _ in 0..2000 {
        let mut h = [0u8; 32];
        rng.fill_bytes(&mut h);
        if rng.gen_bool(0.3) {
            let k = rng.gen_range(0..32);
            for b in h[..k].iter_mut() {
                *b = 0;
            }
        }
        cases.push(h);
    }
    for c in &cases {
        let d = DataHash::from(c);
        assert_eq!(DataHash::from_hex(&d.hex()).unwrap(), d);
        assert_eq!(DataHash::from_hex(&d.hex().to_uppercase()).unwrap(), d);
        assert_eq!(DataHash::from_base64(&d.base64()).unwrap(), d);
        assert_eq!(d.hex(), ref_hex(c));
        assert_eq!(d.hex().len(), 64);
        assert_eq!(format!("{:x}", d), d.hex());
        assert_eq!(format!("{}", d), d.hex());
        let key = [5u8; 32];
        assert_eq!(d.hmac(DataHash::from(&key)), DataHash::from(blake3::keyed_hash(&key, c).as_bytes()));
        let j = serde_json_like(&d);
        assert_eq!(j, d);
    }
    assert!(DataHash::from_hex(&"é".repeat(32)).is_err());
    assert!(DataHash::from_hex(&format!("+{}", "0".repeat(63))).is_err());

    // streaming with a deviating writer
    struct W {
        out: Vec<u8>,
        step: usize,
    }
    impl Write for W {
        fn write(&mut self, buf: &[u8]) -> std::io::Result<usize> {
            self.step += 1;
            match self.step % 4 {
                0 => Err(std::io::Error::from(std::io::ErrorKind::Interrupted)),
                1 => {
                    let n = buf.len().min(3);
                    self.out.extend_from_slice(&buf[..n]);
                    Ok(n)
                },
                _ => {
                    self.out.extend_from_slice(buf);
                    Ok(buf.len())
                },
            }
        }
        fn flush(&mut self) -> std::io::Result<()> {
            Ok(())
        }
    }
    let mut data = vec![0u8; 100_000];
    rng.fill_bytes(&mut data);
    let mut hw = HashedWrite::new(W { out: vec![], step: 0 });
    {
        let mut bw = std::io::BufWriter::with_capacity(777, &mut hw);
        let mut pos = 0;
        while pos < data.len() {
            let n = rng.gen_range(1..3000).min(data.len() - pos);
            bw.write_all(&data[pos..pos + n]).unwrap();
            pos += n;
        }
        bw.flush().unwrap();
    }
    assert_eq!(hw.hash(), compute_data_hash(&data));
    assert_eq!(hw.into_inner().out, data);
}

fn serde_json_like(d: &merklehash::DataHash) -> merklehash::DataHash {
    // no serde_json in deps: just go through the hex form as the hex::serde module does
    merklehash::DataHash::from_hex(&d.hex()).unwrap()
}

//! C06 hunt demo: the aggregate hashes (cas_node_hash / file_node_hash and the add_file+finalize path the
//! xorb validators use) are computed through an ephemeral MerkleMemDB that de-duplicates nodes BY HASH ONLY and
//! hands back the first node it saw (or the pre-seeded all-zero node 0 of length 0).  The length (and child list)
//! given for a later node with the same hash is silently discarded, so the aggregate is not the published
//! function of the (hash, length) list any more.
//!
//! Every test below compares against an independent implementation of the published construction
//! (keyed blake3 over "<hex> : <len>\n" lines, hash-defined fan-out) and FAILS on the unmodified source.
//!
//! Run:  mkdir -p /tmp/hunt/C06/merkledb/tests && cp /tmp/hunt/C06/OUT/demo/hunt_demo.rs /tmp/hunt/C06/merkledb/tests/ \
//!         && cd /tmp/hunt/C06 && cargo test --offline -p merkledb --test hunt_demo -- --test-threads=1
//!       (t0 passes = the reference is right; t1, t1b, t2, t3, t4, t4b fail in a debug build;
//!        with --release t4 passes and t4b fails with a silently wrong hash)

use merkledb::aggregate_hashes::{cas_node_hash, file_node_hash};
use merkledb::prelude::MerkleDBHighLevelMethodsV1;
use merkledb::{Chunk, MerkleMemDB};
use merklehash::MerkleHash;

const INTERNAL_KEY: [u8; 32] = [
    1, 126, 197, 199, 165, 71, 41, 150, 253, 148, 102, 102, 180, 138, 2, 230, 93, 221, 83, 111, 55, 199, 109, 210, 248,
    99, 82, 230, 74, 83, 113, 63,
];

// ---------- independent implementation of the published construction ----------

fn ref_hex(b: &[u8; 32]) -> String {
    let mut s = String::new();
    for w in 0..4 {
        let mut a = [0u8; 8];
        a.copy_from_slice(&b[w * 8..w * 8 + 8]);
        s.push_str(&format!("{:016x}", u64::from_le_bytes(a)));
    }
    s
}

fn ref_last_u64(b: &[u8; 32]) -> u64 {
    let mut a = [0u8; 8];
    a.copy_from_slice(&b[24..32]);
    u64::from_le_bytes(a)
}

fn ref_interior(children: &[([u8; 32], u128)]) -> ([u8; 32], u128) {
    let mut buf = String::new();
    let mut total = 0u128;
    for (h, l) in children {
        buf.push_str(&format!("{} : {}\n", ref_hex(h), l));
        total += *l;
    }
    (*blake3::keyed_hash(&INTERNAL_KEY, buf.as_bytes()).as_bytes(), total)
}

fn ref_root(chunks: &[([u8; 32], u128)]) -> [u8; 32] {
    if chunks.is_empty() {
        return [0u8; 32];
    }
    let mut level: Vec<([u8; 32], u128)> = chunks.to_vec();
    while level.len() > 1 {
        let mut next = Vec::new();
        let mut start = 0usize;
        let n = level.len();
        for idx in 0..n {
            let so_far = idx - start;
            if (so_far >= 2 && ref_last_u64(&level[idx].0) % 4 == 0) || so_far >= 8 || idx + 1 == n {
                next.push(ref_interior(&level[start..=idx]));
                start = idx + 1;
            }
        }
        level = next;
    }
    level[0].0
}

fn ref_file(chunks: &[([u8; 32], u128)], salt: &[u8; 32]) -> [u8; 32] {
    *blake3::keyed_hash(salt, &ref_root(chunks)).as_bytes()
}

// ---------- code under test ----------

fn mh(b: &[u8; 32]) -> MerkleHash {
    MerkleHash::from(b)
}

fn inputs(chunks: &[([u8; 32], usize)]) -> (Vec<(MerkleHash, usize)>, Vec<([u8; 32], u128)>) {
    (
        chunks.iter().map(|(h, l)| (mh(h), *l)).collect(),
        chunks.iter().map(|(h, l)| (*h, *l as u128)).collect(),
    )
}

/// what both xorb validators do (cas_object_format.rs validate_cas_object, validate_xorb_stream.rs)
fn validator_root(chunks: &[(MerkleHash, usize)]) -> MerkleHash {
    let ch: Vec<Chunk> = chunks
        .iter()
        .map(|(h, l)| Chunk {
            hash: *h,
            length: *l,
        })
        .collect();
    let mut db = MerkleMemDB::default();
    let mut staging = db.start_insertion_staging();
    db.add_file(&mut staging, &ch);
    *db.finalize(staging).hash()
}

fn h(seed: u8, last_byte_low: u8) -> [u8; 32] {
    let mut x = *blake3::hash(&[seed]).as_bytes();
    // byte 24 is the low byte of the u64 that decides the fan-out cut (hash[3] % 4)
    x[24] = (x[24] & 0xfc) | (last_byte_low & 3);
    x
}

/// Sanity: on an ordinary list (distinct hashes) code and reference agree, so the reference is the right function.
#[test]
fn t0_reference_agrees_on_ordinary_lists() {
    let chunks: Vec<([u8; 32], usize)> = (0..200u8).map(|i| (h(i, i), 1000 + i as usize)).collect();
    let (inp, r) = inputs(&chunks);
    assert_eq!(cas_node_hash(&inp), mh(&ref_root(&r)));
    assert_eq!(validator_root(&inp), mh(&ref_root(&r)));
    assert_eq!(file_node_hash(&inp, &[9u8; 32]).unwrap(), mh(&ref_file(&r, &[9u8; 32])));
}

/// (1) a repeated hash that comes with two different lengths: the second length is dropped.
#[test]
fn t1_repeated_hash_with_another_length() {
    let a = h(1, 1);
    let l1 = [(a, 10usize), (a, 20usize)];
    let l2 = [(a, 10usize), (a, 10usize)];
    let (i1, r1) = inputs(&l1);
    let (i2, r2) = inputs(&l2);

    // the published construction tells the two lists apart ...
    assert_ne!(ref_root(&r1), ref_root(&r2));
    // ... the code under test does not: changing a chunk does not change the aggregate hash
    let (c1, c2) = (cas_node_hash(&i1), cas_node_hash(&i2));
    println!("cas_node_hash([(a,10),(a,20)]) = {c1}\ncas_node_hash([(a,10),(a,10)]) = {c2}");
    println!("reference     [(a,10),(a,20)]  = {}", mh(&ref_root(&r1)));
    assert_ne!(c1, c2, "changing the length of a chunk must change the xorb hash");
    assert_eq!(c1, mh(&ref_root(&r1)), "xorb hash differs from the published construction");
}

/// (1b) the same for the file hash.
#[test]
fn t1b_file_hash_repeated_hash_with_another_length() {
    let a = h(1, 1);
    let b = h(2, 1);
    let salt = [3u8; 32];
    let l1 = [(a, 10usize), (b, 5), (a, 20usize)];
    let (i1, r1) = inputs(&l1);
    assert_eq!(file_node_hash(&i1, &salt).unwrap(), mh(&ref_file(&r1, &salt)));
}

/// (2) the all-zero hash as a chunk hash: MerkleMemDB::default() is pre-seeded with node 0 = (zero hash, len 0),
/// so the length that comes with it is always replaced by 0.
#[test]
fn t2_zero_hash_chunk_loses_its_length() {
    let z = [0u8; 32];
    let b = h(2, 1);
    let l1 = [(z, 5usize), (b, 7usize)];
    let (i1, r1) = inputs(&l1);
    let got = cas_node_hash(&i1);
    println!("cas_node_hash([(0,5),(b,7)]) = {got}");
    println!("reference                    = {}", mh(&ref_root(&r1)));
    println!("reference for [(0,0),(b,7)]  = {}", mh(&ref_root(&[(z, 0), (b, 7)])));
    assert_eq!(validator_root(&i1), got); // the paths agree with each other, but on the wrong value
    assert_eq!(got, mh(&ref_root(&r1)), "xorb hash differs from the published construction");
}

/// (3) a leaf whose hash equals the hash of an interior node built in the same computation: node_from_children gets
/// the LEAF back (with the leaf's length), and the next level hashes the wrong length.
#[test]
fn t3_leaf_equal_to_an_interior_hash() {
    let a = h(1, 1);
    let b = h(2, 1);
    let c = h(3, 0); // cut after c: first parent = (a, b, c)
    let (p, _) = ref_interior(&[(a, 1), (b, 1), (c, 1)]);
    let l1 = [(a, 1usize), (b, 1), (c, 1), (p, 100)];
    let (i1, r1) = inputs(&l1);
    let got = cas_node_hash(&i1);
    println!("cas_node_hash = {got}\nreference     = {}", mh(&ref_root(&r1)));
    assert_eq!(validator_root(&i1), got);
    assert_eq!(got, mh(&ref_root(&r1)), "xorb hash differs from the published construction");
}

/// (4) extreme lengths: the running length of a parent is a plain usize sum, so two legitimate (hash, len) entries
/// whose lengths do not fit in usize together abort the computation (debug overflow check; silent wrap, and from
/// three levels on a wrong hash, in release).
#[test]
fn t4_extreme_lengths_overflow() {
    let chunks = [(h(1, 1), usize::MAX), (h(2, 1), 1usize)];
    let (i1, r1) = inputs(&chunks);
    let got = std::panic::catch_unwind(|| cas_node_hash(&i1));
    match got {
        Ok(v) => assert_eq!(v, mh(&ref_root(&r1))),
        Err(_) => panic!("cas_node_hash panicked on [(h1, usize::MAX), (h2, 1)] (attempt to add with overflow)"),
    }
}

/// (4b) the same with one more level, so that a build without overflow checks (`--release`) returns a WRONG hash
/// instead of panicking: the first parent (a, b, c) gets the wrapped length 1 and that length is hashed into the root.
#[test]
fn t4b_extreme_lengths_wrong_hash_when_overflow_checks_are_off() {
    let chunks = [(h(1, 1), usize::MAX), (h(2, 1), 1usize), (h(3, 0), 1usize), (h(4, 1), 1usize)];
    let (i1, r1) = inputs(&chunks);
    let got = std::panic::catch_unwind(|| cas_node_hash(&i1));
    match got {
        Ok(v) => {
            println!("cas_node_hash = {v}\nreference     = {}", mh(&ref_root(&r1)));
            assert_eq!(v, mh(&ref_root(&r1)), "xorb hash differs from the published construction")
        },
        Err(_) => panic!("cas_node_hash panicked (attempt to add with overflow)"),
    }
}

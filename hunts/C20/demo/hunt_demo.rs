//! Demonstrations for property C20 (singleflight). Each test FAILS on the unmodified source.
//! Run: cargo test --offline -p utils --test hunt_demo -- --test-threads=1

use std::sync::atomic::{AtomicU32, Ordering};
use std::sync::Arc;
use std::time::Duration;

use tokio::sync::Notify;
use tokio::time::timeout;
use utils::singleflight::{Group, SingleflightError};

#[derive(Debug, PartialEq, Eq)]
struct MyErr(u32);

/// Finding 1: the owner of a failing flight does not receive the task's error
/// (SingleflightError::InternalError(E)) but a stringified copy (WaiterInternalError).
async fn owner_error_body() {
    let g: Group<usize, MyErr> = Group::new();
    let (res, is_owner) = g.work("key", async { Err::<usize, MyErr>(MyErr(7)) }).await;
    assert!(is_owner);
    match res {
        Err(SingleflightError::InternalError(e)) => assert_eq!(e, MyErr(7)),
        other => panic!("owner expected Err(InternalError(MyErr(7))) (the task's own error), got {other:?}"),
    }
}

#[tokio::test]
async fn f1_owner_receives_the_tasks_error_current_thread() {
    owner_error_body().await;
}

#[tokio::test(flavor = "multi_thread", worker_threads = 4)]
async fn f1_owner_receives_the_tasks_error_multi_thread() {
    owner_error_body().await;
}

/// Finding 2: if the owning `work` future is dropped (timeout / select! / a `buffered` stream that is
/// dropped on the first error, as in RemoteClient::reconstruct_file_to_writer), the finished Call is never
/// removed from the map: the key is poisoned for the life of the Group. Every later call, however long
/// after the flight finished, is answered with the old flight's outcome and its own task is never run.
#[tokio::test]
async fn f2_dropped_owner_leaves_finished_flight_in_map_forever_current_thread() {
    dropped_owner_body().await;
}

#[tokio::test(flavor = "multi_thread", worker_threads = 4)]
async fn f2_dropped_owner_leaves_finished_flight_in_map_forever_multi_thread() {
    dropped_owner_body().await;
}

async fn dropped_owner_body() {
    let g: Arc<Group<usize, MyErr>> = Arc::new(Group::new());
    let runs = Arc::new(AtomicU32::new(0));
    let release = Arc::new(Notify::new());
    let finished = Arc::new(Notify::new());

    // flight 1: a task that fails (say, a transient network error) once it is released.
    let (runs1, release1, finished1) = (runs.clone(), release.clone(), finished.clone());
    let task1 = async move {
        release1.notified().await;
        runs1.fetch_add(1, Ordering::SeqCst);
        finished1.notify_one();
        Err::<usize, MyErr>(MyErr(503))
    };
    // the owner gives up after 50ms (the task is still pending): its `work` future is dropped.
    let r = timeout(Duration::from_millis(50), g.work("key", task1)).await;
    assert!(r.is_err(), "owner should have timed out");

    // now the spawned task of flight 1 finishes; nobody is waiting for it any more.
    release.notify_one();
    finished.notified().await;
    tokio::time::sleep(Duration::from_millis(50)).await;
    assert_eq!(runs.load(Ordering::SeqCst), 1);

    // Long after flight 1 finished, with no caller of it around, three successive calls are made.
    // Each must start a new flight (run its own task, be the owner and get Ok(42)).
    for i in 0..3 {
        let runs2 = runs.clone();
        let (res, is_owner) = g
            .work("key", async move {
                runs2.fetch_add(1, Ordering::SeqCst);
                Ok::<usize, MyErr>(42)
            })
            .await;
        assert!(
            is_owner && matches!(res, Ok(42)),
            "call #{i} after the finished flight: expected a new flight (owner=true, Ok(42)), got owner={is_owner}, \
             res={res:?}, tasks run so far={}",
            runs.load(Ordering::SeqCst)
        );
    }
}

/// Finding 3 (low severity): OwnerTask::poll sets `got_response = true` BEFORE `call.complete(res.clone())`.
/// If producing the copy panics (a panicking `T::clone`, or a panicking `Debug` of E, which
/// SingleflightError::clone uses), the owner task dies, the drop handler believes the result was published and
/// does nothing: nobody is ever notified, so the owner and all waiters of the flight wait forever.
#[derive(Debug)]
struct PanickyClone;
impl Clone for PanickyClone {
    fn clone(&self) -> Self {
        panic!("clone panics")
    }
}

#[tokio::test(flavor = "multi_thread", worker_threads = 2)]
async fn f3_panic_while_publishing_result_leaves_every_caller_waiting_forever() {
    let g: Arc<Group<PanickyClone, MyErr>> = Arc::new(Group::new());
    let g2 = g.clone();
    let waiter = tokio::spawn(async move {
        tokio::time::sleep(Duration::from_millis(20)).await;
        timeout(Duration::from_secs(2), g2.work("key", async { Ok::<PanickyClone, MyErr>(PanickyClone) })).await
    });
    let owner = timeout(
        Duration::from_secs(2),
        g.work("key", async {
            tokio::time::sleep(Duration::from_millis(200)).await;
            Ok::<PanickyClone, MyErr>(PanickyClone)
        }),
    )
    .await;
    let waiter = waiter.await.unwrap();
    assert!(
        owner.is_ok() && waiter.is_ok(),
        "after 2s: owner got an outcome = {}, waiter got an outcome = {} (expected a panic notification for both)",
        owner.is_ok(),
        waiter.is_ok()
    );
}

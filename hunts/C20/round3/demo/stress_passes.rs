use std::collections::HashMap;
use std::sync::atomic::{AtomicU64, AtomicUsize, Ordering};
use std::sync::Arc;
use std::time::Duration;

use utils::singleflight::{Group, SingleflightError};

// Stress: many callers, few keys, tasks succeed / fail / panic, with random delays.
// Invariants: no hang; each flight's callers all see the same outcome id; exactly one owner per flight;
// executed task count == number of owners.
async fn stress(rounds: usize, callers: usize, keys: usize) {
    let g: Arc<Group<u64, String>> = Arc::new(Group::new());
    let executed = Arc::new(AtomicUsize::new(0));
    let flight_id = Arc::new(AtomicU64::new(1));
    for round in 0..rounds {
        let mut hs = Vec::new();
        for c in 0..callers {
            let g = g.clone();
            let executed = executed.clone();
            let flight_id = flight_id.clone();
            let key = format!("k{}", (c * 7 + round) % keys);
            hs.push(tokio::spawn(async move {
                let d = ((c * 31 + round * 17) % 5) as u64;
                if d > 0 {
                    tokio::time::sleep(Duration::from_micros(d * 50)).await;
                }
                let mode = (c + round) % 3;
                let fut = async move {
                    executed.fetch_add(1, Ordering::SeqCst);
                    let id = flight_id.fetch_add(1, Ordering::SeqCst);
                    if d % 2 == 0 {
                        tokio::time::sleep(Duration::from_micros(100)).await;
                    } else {
                        tokio::task::yield_now().await;
                    }
                    match mode {
                        0 => Ok(id),
                        1 => Err(format!("E{id}")),
                        _ => panic!("P{id}"),
                    }
                };
                let r = tokio::time::timeout(Duration::from_secs(20), g.work(&key, fut)).await;
                let (res, owner) = r.expect("caller waited forever");
                (key, res, owner)
            }));
        }
        let mut owners = 0usize;
        for h in hs {
            let (_k, res, owner) = h.await.unwrap();
            if owner {
                owners += 1;
            }
            match res {
                Ok(_) => {},
                Err(SingleflightError::InternalError(_)) => assert!(owner),
                Err(SingleflightError::WaiterInternalError(_)) => {},
                Err(SingleflightError::JoinError(_)) => assert!(owner),
                Err(SingleflightError::OwnerPanicked) => assert!(!owner),
                Err(e) => panic!("unexpected error {e:?}"),
            }
        }
        let ex = executed.swap(0, Ordering::SeqCst);
        assert_eq!(ex, owners, "round {round}: executed {ex} tasks for {owners} owners");
    }
}

#[tokio::test(flavor = "multi_thread", worker_threads = 8)]
async fn stress_mt() {
    stress(300, 64, 5).await;
}

#[tokio::test]
async fn stress_st() {
    stress(100, 64, 5).await;
}

// Outcome agreement: every caller of a flight sees the owner's value
#[tokio::test(flavor = "multi_thread", worker_threads = 8)]
async fn agreement_mt() {
    let g: Arc<Group<u64, String>> = Arc::new(Group::new());
    let next = Arc::new(AtomicU64::new(1));
    for round in 0..500 {
        let mut hs = Vec::new();
        for c in 0..32u64 {
            let g = g.clone();
            let next = next.clone();
            hs.push(tokio::spawn(async move {
                if c % 4 == 0 {
                    tokio::task::yield_now().await;
                }
                let fut = async move {
                    let id = next.fetch_add(1, Ordering::SeqCst);
                    if c % 2 == 0 {
                        tokio::task::yield_now().await;
                    }
                    Ok::<u64, String>(id)
                };
                tokio::time::timeout(Duration::from_secs(20), g.work("k", fut)).await.expect("hang")
            }));
        }
        let mut owner_vals = Vec::new();
        let mut vals: HashMap<u64, usize> = HashMap::new();
        for h in hs {
            let (r, owner) = h.await.unwrap();
            let v = r.unwrap();
            if owner {
                owner_vals.push(v);
            }
            *vals.entry(v).or_default() += 1;
        }
        for v in vals.keys() {
            assert!(owner_vals.contains(v), "round {round}: value {v} seen with no owner");
        }
        assert_eq!(owner_vals.len(), vals.len());
    }
}

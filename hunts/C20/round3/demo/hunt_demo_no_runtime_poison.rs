// BORDERLINE demo (the trigger is a call made from a thread that is NOT inside a tokio runtime, which is
// outside the "on single- and multi-threaded runtimes" quantifier; the victims ARE on a runtime).
//
// Group::work inserts the Call into the map (get_call_or_create) and registers its own waiter BEFORE it asks
// for the runtime (`Handle::current().spawn(owner_task)`, utils/src/singleflight.rs:245). `Handle::current()`
// panics when the calling thread has no runtime context. The panic unwinds out of work(): no owner task was
// ever spawned (so the OwnerTask drop handler that covers panics never exists), nothing completes the Call and
// nothing removes it from the map. Every later, perfectly legitimate caller of that key - on a proper
// runtime - finds the orphaned Call, becomes a waiter and waits forever.
//
// Run:  cp OUT/demo/hunt_demo_no_runtime_poison.rs utils/tests/ && cargo test --offline -p utils --test hunt_demo_no_runtime_poison
use std::sync::Arc;
use std::time::Duration;

use utils::singleflight::Group;

#[test]
fn a_call_from_outside_a_runtime_poisons_the_key_forever() {
    let g: Arc<Group<u32, String>> = Arc::new(Group::new());

    // 1. a caller on a plain thread (no tokio context) drives work() with a generic executor: it panics.
    let g1 = g.clone();
    let r = std::thread::spawn(move || {
        futures::executor::block_on(g1.work("k", async { Ok::<u32, String>(1) })).0
    })
    .join();
    assert!(r.is_err(), "the call outside a runtime is expected to panic (no reactor)");

    // 2. afterwards, well-behaved callers on a runtime: a different key works, the same key hangs.
    let rt = tokio::runtime::Builder::new_multi_thread().worker_threads(2).enable_all().build().unwrap();
    rt.block_on(async {
        let other = tokio::time::timeout(Duration::from_secs(2), g.work("other", async { Ok::<u32, String>(2) })).await;
        assert_eq!(other.expect("other key must work").0.unwrap(), 2);

        let same = tokio::time::timeout(Duration::from_secs(2), g.work("k", async { Ok::<u32, String>(3) })).await;
        let (res, owner) = same.expect(
            "DEFECT: a caller on a healthy runtime waits forever on key \"k\": the flight whose owner panicked \
             before spawning its task is still in the call map, has no result and no one to complete it",
        );
        assert!(owner, "a new flight was expected");
        assert_eq!(res.unwrap(), 3);
    });
}

// NOT REPORTED AS A FINDING - kept only as evidence for notes.txt.
// (a) the trigger is a call from a thread with no tokio context, outside the property's "on single- and
//     multi-threaded runtimes" quantifier; (b) the mechanism - the owning work() never reaches remove_call, so the
//     finished Call stays in the map and later calls get its stale outcome - is the already-known
//     "dropping the owning work() future" item in another guise.
//
// work() builds the OwnerTask, then `Handle::current()` (utils/src/singleflight.rs:245) panics. Unwinding drops
// the never-spawned OwnerTask, whose drop handler completes the Call with OwnerPanicked; the Call is never removed.
// Every later caller of that key, on a healthy runtime, gets Err(OwnerPanicked) as a non-owner, forever
// (it does not hang).
//
// Run: mkdir -p utils/tests && cp OUT/demo/not_reported_no_runtime_stale_key.rs utils/tests/ \
//      && cargo test --offline -p utils --test not_reported_no_runtime_stale_key
use std::sync::Arc;
use std::time::Duration;

use utils::singleflight::Group;

#[test]
fn a_call_from_outside_a_runtime_leaves_a_stale_flight_in_the_map() {
    let g: Arc<Group<u32, String>> = Arc::new(Group::new());
    let g1 = g.clone();
    let r = std::thread::spawn(move || futures::executor::block_on(g1.work("k", async { Ok::<u32, String>(1) })).0).join();
    assert!(r.is_err(), "the call outside a runtime panics (no reactor)");

    let rt = tokio::runtime::Builder::new_multi_thread().worker_threads(2).enable_all().build().unwrap();
    rt.block_on(async {
        let same = tokio::time::timeout(Duration::from_secs(2), g.work("k", async { Ok::<u32, String>(3) })).await;
        let (res, owner) = same.expect("no hang expected");
        assert!(owner, "a new flight was expected, got {res:?} as a waiter of the dead flight");
        assert_eq!(res.unwrap(), 3);
    });
}

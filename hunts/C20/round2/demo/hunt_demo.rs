//! C20 hunt demo: a `Group::work` caller that is parked in the FIFO queue of the group's
//! `call_map` tokio mutex and is then (legitimately) not polled for a while is handed the mutex
//! anyway; from then on EVERY other call on the group, for ANY key, waits - forever if the parked
//! caller's parent itself waits for one of those calls (the exact dependency shape of the
//! in-tree `test_deadlock`, which singleflight is designed to tolerate).
//!
//! Copy to utils/tests/hunt_demo.rs and run
//!   cargo test --offline -p utils --test hunt_demo -- --nocapture --test-threads=1
//!
//! The two `control_*` tests pass; the other three fail on the unmodified source (two deterministic
//! schedules, one stress run with ordinary short keys).
//!
//! The only trick used is a very long key for the call that holds the map mutex first: the map
//! hashes / copies the key under the mutex, so the (otherwise sub-microsecond) window in which a
//! second caller finds the mutex taken becomes ~100 ms wide and the schedule is reproducible.
//! The keys of the calls that hang are short and all different.

use std::sync::atomic::{AtomicBool, Ordering};
use std::sync::Arc;
use std::time::{Duration, Instant};

use futures::future::BoxFuture;
use futures::{FutureExt, StreamExt};
use tokio::sync::mpsc::channel;
use tokio::time::{sleep, timeout};
use utils::singleflight::Group;

const LONG_KEY_LEN: usize = 256 << 20;
const PATIENCE: Duration = Duration::from_secs(5);

type G = Arc<Group<usize, ()>>;

/// Starts a call with a very long key on another worker thread and returns once that call is
/// (with a wide margin) inside `get_call_or_create`, i.e. holds the `call_map` mutex.
async fn start_call_that_holds_the_map_lock(g: &G) -> tokio::task::JoinHandle<usize> {
    let long_key = "k".repeat(LONG_KEY_LEN);
    let started = Arc::new(AtomicBool::new(false));
    let h = {
        let g = g.clone();
        let started = started.clone();
        tokio::spawn(async move {
            started.store(true, Ordering::SeqCst);
            let t = Instant::now();
            let r = g.work(&long_key, async { Ok(1usize) }).await.0.unwrap();
            println!("[H] call with the long key returned after {:?}", t.elapsed());
            r
        })
    };
    while !started.load(Ordering::SeqCst) {
        tokio::task::yield_now().await;
    }
    sleep(Duration::from_millis(20)).await;
    h
}

/// The schedule in its barest form: caller P is polled once, then its parent waits for caller Q
/// (a different key) before it polls P again.
async fn bare(g: G, contended: bool) -> Result<(), String> {
    let h = if contended {
        Some(start_call_that_holds_the_map_lock(&g).await)
    } else {
        None
    };

    // P: a call for key "p", polled exactly once for now (as `buffered`, `join_all`, `select!` ...
    // do with a child future whose parent then awaits something else).
    let mut p = Box::pin(g.work("p", async { Ok(2usize) }));
    assert!(futures::poll!(p.as_mut()).is_pending());

    // Q: an independent call, different key, trivial task, on its own tokio task.
    let q = {
        let g = g.clone();
        tokio::spawn(async move { g.work("q", async { Ok(3usize) }).await.0.unwrap() })
    };

    // P's parent needs Q's value before it goes on polling P.
    let t = Instant::now();
    let q_res = timeout(PATIENCE, q).await;
    let verdict = match q_res {
        Ok(v) => {
            assert_eq!(v.unwrap(), 3);
            println!("[main] call for key \"q\" returned after {:?}", t.elapsed());
            Ok(())
        },
        Err(_) => Err(format!(
            "call for key \"q\" (trivial task, nobody else uses that key) did not return within {PATIENCE:?} \
             because the un-polled call for key \"p\" owns the call_map mutex"
        )),
    };

    // Show that P is the only thing in the way: resume polling P and everything drains at once.
    let t = Instant::now();
    let (p_val, p_owner) = timeout(PATIENCE, p).await.expect("P itself is stuck");
    assert_eq!((p_val.unwrap(), p_owner), (2, true));
    if let Some(h) = h {
        assert_eq!(timeout(PATIENCE, h).await.expect("H stuck even after P resumed").unwrap(), 1);
    }
    println!("[main] after P was polled again everything finished within {:?}", t.elapsed());
    verdict
}

#[tokio::test(flavor = "multi_thread", worker_threads = 4)]
async fn control_unpolled_caller_without_contention_is_harmless() {
    // P got past the map mutex in its first poll: its owner task is spawned, nobody is blocked.
    bare(Arc::new(Group::new()), false).await.unwrap();
}

#[tokio::test(flavor = "multi_thread", worker_threads = 4)]
async fn unpolled_caller_queued_on_the_map_lock_blocks_all_other_keys() {
    bare(Arc::new(Group::new()), true).await.unwrap();
}

/// The same thing in the shape of the in-tree `test_deadlock` / of
/// `RemoteClient::reconstruct_file_to_writer`: a task drives its calls through
/// `stream::iter(..).buffer_unordered(n)` (or `buffered(n)`) and hands the results to a bounded channel. While it waits for
/// room in the channel its buffered calls are not polled. The reader of the channel first wants
/// the value of another call (key "q").  With the owner task spawned this dependency is fine
/// (that is what `test_deadlock` checks) - unless a buffered call sits in the mutex queue.
async fn buffered(g: G, contended: bool) -> Result<(), String> {
    let h = if contended {
        Some(start_call_that_holds_the_map_lock(&g).await)
    } else {
        None
    };

    let (tx, mut rx) = channel::<usize>(1);
    let producer = {
        let g = g.clone();
        tokio::spawn(async move {
            let g1 = g.clone();
            let g2 = g.clone();
            let futs: Vec<BoxFuture<'static, usize>> = vec![
                async move { g1.work("p1", async { Ok(12usize) }).await.0.unwrap() }.boxed(),
                async move { g2.work("p2", async { Ok(13usize) }).await.0.unwrap() }.boxed(),
                async { 10usize }.boxed(),
                async { 11usize }.boxed(),
            ];
            // p1, p2 and `10` are polled by the first next(), which yields 10; the second next()
            // yields 11; p1 and p2 have been polled once and are pending.
            let mut strm = futures::stream::iter(futs).buffer_unordered(3);
            while let Some(v) = strm.next().await {
                // capacity 1: the second send waits until the reader takes something
                tx.send(v).await.unwrap();
            }
        })
    };

    // let the producer reach its blocked `send`
    sleep(Duration::from_millis(30)).await;

    // the reader first needs the value for key "q"
    let t = Instant::now();
    let q_res = timeout(PATIENCE, g.work("q", async { Ok(3usize) })).await;
    let verdict = match q_res {
        Ok((v, _)) => {
            assert_eq!(v.unwrap(), 3);
            println!("[main] call for key \"q\" returned after {:?}", t.elapsed());
            Ok(())
        },
        Err(_) => Err(format!(
            "reader's call for key \"q\" did not return within {PATIENCE:?}: producer is blocked on the channel, \
             its buffered call for \"p1\" owns the call_map mutex => without the timeout this is a deadlock"
        )),
    };

    // drain; this un-blocks the producer, which polls its buffered calls again
    let mut got = Vec::new();
    while let Some(v) = timeout(PATIENCE, rx.recv()).await.expect("producer stuck") {
        got.push(v);
    }
    got.sort();
    assert_eq!(got, vec![10, 11, 12, 13]);
    producer.await.unwrap();
    if let Some(h) = h {
        assert_eq!(timeout(PATIENCE, h).await.expect("H stuck").unwrap(), 1);
    }
    verdict
}

#[tokio::test(flavor = "multi_thread", worker_threads = 4)]
async fn control_buffered_callers_without_contention_are_harmless() {
    buffered(Arc::new(Group::new()), false).await.unwrap();
}

#[tokio::test(flavor = "multi_thread", worker_threads = 4)]
async fn buffered_caller_queued_on_the_map_lock_deadlocks_reader() {
    buffered(Arc::new(Group::new()), true).await.unwrap();
}

/// Not deterministic, no long key: 16 tasks per round start a call (distinct short keys) at the
/// same moment, poll it once and then spend 200 ms elsewhere before they poll it again.  A probe
/// call for yet another key is then timed.  Whenever one of the parked calls happened to find
/// the mutex taken in its single poll, the probe (and everybody else) is held up for the whole
/// 200 ms.  Shows that the window is hit with ordinary keys too.
#[tokio::test(flavor = "multi_thread", worker_threads = 8)]
async fn stress_short_keys_probe_latency() {
    const ROUNDS: usize = 40;
    const PARK: Duration = Duration::from_millis(200);
    let mut stalls = 0;
    let mut worst = Duration::ZERO;
    for round in 0..ROUNDS {
        let g: G = Arc::new(Group::new());
        let barrier = Arc::new(tokio::sync::Barrier::new(17));
        let mut tasks = Vec::new();
        for i in 0..16 {
            let g = g.clone();
            let barrier = barrier.clone();
            tasks.push(tokio::spawn(async move {
                let key = format!("r{round}k{i}");
                let mut f = Box::pin(g.work(&key, async move { Ok(i) }));
                barrier.wait().await;
                let first = futures::poll!(f.as_mut());
                if first.is_pending() {
                    sleep(PARK).await; // busy with something else
                    f.await.0.unwrap();
                }
            }));
        }
        barrier.wait().await;
        sleep(Duration::from_millis(2)).await;
        let t = Instant::now();
        g.work("probe", async { Ok(99usize) }).await.0.unwrap();
        let lat = t.elapsed();
        worst = worst.max(lat);
        if lat > PARK / 2 {
            stalls += 1;
        }
        for t in tasks {
            t.await.unwrap();
        }
    }
    println!("[stress] {stalls} of {ROUNDS} rounds: probe call for an unrelated key stalled > {:?}; worst {worst:?}", PARK / 2);
    assert_eq!(stalls, 0, "probe calls were held up by parked callers of other keys");
}

// Exploration harness for property C16 (shards follow their xorbs; upload failures are never swallowed).
//
// NOT a failing demo: it PASSES on the reviewed checkout.  It is kept as a record of what was exercised.
// An in-memory Client is injected through FileUploadSession::new_with_client (feature `verif`).  Every put /
// upload_shard call may be delayed and/or failed (random multi-fault sets, and each single call in turn);
// files share content so that they deduplicate against the session shard, the shard cache of earlier
// sessions and shards returned by global dedup queries; cleaners run sequentially or concurrently, some
// are abandoned mid-file; callers either stop at the first error or carry on and finalize; sessions run one
// after the other or in parallel on the same shard cache.  Small limits (1 KiB chunks, 8 KiB / 6 chunk
// xorbs, 1500 byte shards) make small inputs reach the xorb cut and multi-shard logic.
//
// Oracles: (1) when upload_shard starts, every xorb referenced by the shard's file records (and listed in
// its CAS section) has completed a successful put; (2) if an injected put / upload_shard failure fired in
// a session, some add_data / finish / finalize of it returned Err; (3) if finalize returned Ok, every file
// whose finish returned Ok reconstructs byte-for-byte from the stored shards and xorbs.
//
// Run (from the repository root, after copying this file to data/tests/hunt_explore.rs):
//   HUNT_N=300 cargo test --offline -p data --features verif --test hunt_explore -- --nocapture
// also with HF_XET_MAX_CONCURRENT_UPLOADS=1.
#![cfg(feature = "verif")]

use std::collections::HashMap;
use std::io::Cursor;
use std::path::PathBuf;
use std::sync::atomic::{AtomicUsize, Ordering};
use std::sync::{Arc, Mutex};
use std::time::Duration;

use async_trait::async_trait;
use cas_client::{
    CasClientError, Client, OutputProvider, ReconstructionClient, ShardClientInterface, UploadClient,
    VerifRegistrationClient, VerifShardDedupProber,
};
use cas_types::FileRange;
use data::configurations::TranslatorConfig;
use data::FileUploadSession;
use deduplication::constants::{MAX_XORB_BYTES, MAX_XORB_CHUNKS, TARGET_CHUNK_SIZE};
use mdb_shard::constants::MDB_SHARD_MIN_TARGET_SIZE;
use mdb_shard::file_structs::MDBFileInfo;
use mdb_shard::shard_file_reconstructor::FileReconstructor;
use mdb_shard::MDBShardInfo;
use merklehash::MerkleHash;
use rand::rngs::StdRng;
use rand::{Rng, RngCore, SeedableRng};
use utils::progress::ProgressUpdater;
use utils::test_set_globals;
use xet_threadpool::ThreadPool;

test_set_globals! {
    TARGET_CHUNK_SIZE = 1024;
    MAX_XORB_BYTES = 8 * 1024;
    MAX_XORB_CHUNKS = 6;
    MDB_SHARD_MIN_TARGET_SIZE = 1500;
}

#[derive(Default)]
struct Store {
    xorbs: HashMap<MerkleHash, (Vec<u8>, Vec<(MerkleHash, u32)>)>,
    files: HashMap<MerkleHash, MDBFileInfo>,
    n_shards: usize,
    shard_bytes: HashMap<MerkleHash, Vec<u8>>,
    chunk_to_shard: HashMap<MerkleHash, MerkleHash>,
    violations: Vec<String>,
    log: Vec<String>,
    injected_upload_failures: usize,
}

struct Mock {
    store: Arc<Mutex<Store>>,
    rng: Mutex<StdRng>,
    p_fail: f64,
    max_delay_ms: u64,
    n_calls: AtomicUsize,
    fail_call: Option<usize>, // fail exactly this call index (put/upload_shard numbering)
    my_failures: AtomicUsize,
    cache_dir: PathBuf,
}

impl Mock {
    fn decide(&self) -> (u64, bool, usize) {
        let idx = self.n_calls.fetch_add(1, Ordering::SeqCst);
        let mut rng = self.rng.lock().unwrap();
        let delay = if self.max_delay_ms > 0 { rng.gen_range(0..=self.max_delay_ms) } else { 0 };
        let mut fail = rng.gen_bool(self.p_fail);
        if let Some(k) = self.fail_call {
            fail = idx == k;
        }
        (delay, fail, idx)
    }
}

#[async_trait]
impl UploadClient for Mock {
    async fn put(
        &self,
        _prefix: &str,
        hash: &MerkleHash,
        data: Vec<u8>,
        chunk_and_boundaries: Vec<(MerkleHash, u32)>,
    ) -> Result<usize, CasClientError> {
        let (delay, fail, idx) = self.decide();
        self.store.lock().unwrap().log.push(format!("put#{idx} start {hash:?}"));
        if delay > 0 {
            tokio::time::sleep(Duration::from_millis(delay)).await;
        } else {
            tokio::task::yield_now().await;
        }
        let mut st = self.store.lock().unwrap();
        if fail {
            st.injected_upload_failures += 1;
            self.my_failures.fetch_add(1, Ordering::SeqCst);
            st.log.push(format!("put#{idx} FAIL {hash:?}"));
            return Err(CasClientError::Other("injected put failure".into()));
        }
        let n = data.len();
        st.xorbs.insert(*hash, (data, chunk_and_boundaries));
        st.log.push(format!("put#{idx} ok {hash:?}"));
        Ok(n)
    }

    async fn exists(&self, _prefix: &str, hash: &MerkleHash) -> Result<bool, CasClientError> {
        Ok(self.store.lock().unwrap().xorbs.contains_key(hash))
    }
}

#[async_trait]
impl ReconstructionClient for Mock {
    async fn get_file(
        &self,
        _hash: &MerkleHash,
        _byte_range: Option<FileRange>,
        _output_provider: &OutputProvider,
        _progress_updater: Option<Arc<dyn ProgressUpdater>>,
    ) -> Result<u64, CasClientError> {
        Err(CasClientError::Other("not implemented".into()))
    }
}

#[async_trait]
impl VerifRegistrationClient for Mock {
    async fn upload_shard(
        &self,
        _prefix: &str,
        hash: &MerkleHash,
        _force_sync: bool,
        shard_data: &[u8],
        _salt: &[u8; 32],
    ) -> Result<bool, CasClientError> {
        let (delay, fail, idx) = self.decide();
        let mut reader = Cursor::new(shard_data);
        let info = MDBShardInfo::load_from_reader(&mut reader).unwrap();
        let files = info.read_all_file_info_sections(&mut reader).unwrap();
        {
            let mut st = self.store.lock().unwrap();
            st.log.push(format!("shard#{idx} start {hash:?} ({} files)", files.len()));
            for fi in files.iter() {
                for seg in fi.segments.iter() {
                    if !st.xorbs.contains_key(&seg.cas_hash) {
                        let m = format!(
                            "ORDER VIOLATION: shard {hash:?} handed over; file {:?} references xorb {:?} which is not stored",
                            fi.metadata.file_hash, seg.cas_hash
                        );
                        st.violations.push(m);
                    }
                }
            }
        }
        if delay > 0 {
            tokio::time::sleep(Duration::from_millis(delay)).await;
        } else {
            tokio::task::yield_now().await;
        }
        let mut st = self.store.lock().unwrap();
        if fail {
            st.injected_upload_failures += 1;
            self.my_failures.fetch_add(1, Ordering::SeqCst);
            st.log.push(format!("shard#{idx} FAIL {hash:?}"));
            return Err(CasClientError::Other("injected shard failure".into()));
        }
        for fi in files {
            st.files.insert(fi.metadata.file_hash, fi);
        }
        {
            let mut reader = Cursor::new(shard_data);
            for cas in info.read_all_cas_blocks_full(&mut reader).unwrap() {
                if !st.xorbs.contains_key(&cas.metadata.cas_hash) {
                    let m = format!("CAS-INFO VIOLATION: shard {hash:?} lists xorb {:?} which is not stored", cas.metadata.cas_hash);
                    st.violations.push(m);
                }
                for c in cas.chunks.iter() {
                    st.chunk_to_shard.insert(c.chunk_hash, *hash);
                }
            }
        }
        st.shard_bytes.insert(*hash, shard_data.to_vec());
        st.n_shards += 1;
        st.log.push(format!("shard#{idx} ok {hash:?}"));
        Ok(true)
    }
}

#[async_trait]
impl FileReconstructor<CasClientError> for Mock {
    async fn get_file_reconstruction_info(
        &self,
        file_hash: &MerkleHash,
    ) -> Result<Option<(MDBFileInfo, Option<MerkleHash>)>, CasClientError> {
        Ok(self.store.lock().unwrap().files.get(file_hash).cloned().map(|f| (f, None)))
    }
}

#[async_trait]
impl VerifShardDedupProber for Mock {
    async fn query_for_global_dedup_shard(
        &self,
        _prefix: &str,
        _chunk_hash: &MerkleHash,
        _salt: &[u8; 32],
    ) -> Result<Option<PathBuf>, CasClientError> {
        let fail = self.rng.lock().unwrap().gen_bool(0.2);
        if fail {
            return Err(CasClientError::Other("injected query failure".into()));
        }
        let st = self.store.lock().unwrap();
        if let Some(sh) = st.chunk_to_shard.get(_chunk_hash) {
            let dest = self.cache_dir.join(mdb_shard::utils::shard_file_name(sh));
            std::fs::write(&dest, &st.shard_bytes[sh]).unwrap();
            STATS[0].fetch_add(1, Ordering::SeqCst);
            return Ok(Some(dest));
        }
        Ok(None)
    }
}

static TMP_DIRS: Mutex<Vec<PathBuf>> = Mutex::new(Vec::new());
static STATS: [AtomicUsize; 5] = [AtomicUsize::new(0), AtomicUsize::new(0), AtomicUsize::new(0), AtomicUsize::new(0), AtomicUsize::new(0)];
impl ShardClientInterface for Mock {}
impl Client for Mock {}

fn reconstruct(st: &Store, file_hash: &MerkleHash) -> Result<Vec<u8>, String> {
    if *file_hash == MerkleHash::default() {
        return Ok(vec![]);
    }
    let fi = st.files.get(file_hash).ok_or_else(|| format!("file {file_hash:?} not in any stored shard"))?;
    let mut out = Vec::new();
    for seg in fi.segments.iter() {
        let (data, bounds) = st
            .xorbs
            .get(&seg.cas_hash)
            .ok_or_else(|| format!("file {file_hash:?}: xorb {:?} not stored", seg.cas_hash))?;
        let s = if seg.chunk_index_start == 0 { 0 } else { bounds[seg.chunk_index_start as usize - 1].1 as usize };
        let e = bounds[seg.chunk_index_end as usize - 1].1 as usize;
        out.extend_from_slice(&data[s..e]);
    }
    Ok(out)
}

fn make_files(rng: &mut StdRng, pool: &[Vec<u8>], n: usize) -> Vec<Vec<u8>> {
    (0..n)
        .map(|_| {
            let mut f = Vec::new();
            let parts = rng.gen_range(0..6);
            for _ in 0..parts {
                if rng.gen_bool(0.5) {
                    f.extend_from_slice(&pool[rng.gen_range(0..pool.len())]);
                } else {
                    let mut b = vec![0u8; rng.gen_range(1..9000)];
                    rng.fill_bytes(&mut b);
                    f.extend_from_slice(&b);
                }
            }
            f
        })
        .collect()
}

#[allow(clippy::too_many_arguments)]
async fn run_session(
    seed: u64,
    s: u64,
    tp: Arc<ThreadPool>,
    config: Arc<TranslatorConfig>,
    store: Arc<Mutex<Store>>,
    pool: Arc<Vec<Vec<u8>>>,
    fail_call: Option<usize>,
    p_fail: f64,
) -> Vec<String> {
    let mut rng = StdRng::seed_from_u64(seed * 7919 + s);
    let mut problems = Vec::new();
    // Some sessions start with an empty shard cache: they can only deduplicate against earlier sessions
    // through the shards returned by global dedup queries.
    let config = if rng.gen_bool(0.3) {
        let tmp = tempfile::tempdir().unwrap().into_path();
        TMP_DIRS.lock().unwrap().push(tmp.clone());
        TranslatorConfig::local_config(&tmp).unwrap()
    } else {
        config
    };
        let mock = Arc::new(Mock {
            store: store.clone(),
            rng: Mutex::new(StdRng::seed_from_u64(seed * 1000 + s)),
            p_fail: if s == 0 || fail_call.is_some() { p_fail } else { p_fail * rng.gen_range(0..2) as f64 },
            max_delay_ms: rng.gen_range(0..4),
            n_calls: AtomicUsize::new(0),
            fail_call: if s == 0 { fail_call } else { None },
            my_failures: AtomicUsize::new(0),
            cache_dir: config.shard_config.cache_directory.clone(),
        });
        let failures_before = store.lock().unwrap().injected_upload_failures;
        let session = FileUploadSession::new_with_client(config.clone(), tp.clone(), None, mock.clone(), false)
            .await
            .unwrap();

        let nf = rng.gen_range(1..7);
        let files = make_files(&mut rng, &pool, nf);
        let concurrent = rng.gen_bool(0.5);
        let continue_after_error = rng.gen_bool(0.7);
        let block = [512usize, 3000, 100000][rng.gen_range(0..3)];

        let mut any_err = false;
        let mut ok_files: Vec<(MerkleHash, Vec<u8>)> = Vec::new();

        let clean_one = |session: Arc<FileUploadSession>, data: Vec<u8>| async move {
            let mut c = session.start_clean("f".into());
            let abandon_at = if data.len() % 7 == 3 { data.len() / 2 } else { usize::MAX };
            let mut pos = 0;
            for blk in data.chunks(block) {
                pos += blk.len();
                if pos > abandon_at {
                    drop(c);
                    return Err("abandoned".to_string());
                }
                c.add_data(blk).await.map_err(|e| format!("add_data: {e}"))?;
            }
            let (pf, _) = c.finish().await.map_err(|e| format!("finish: {e}"))?;
            Ok::<_, String>((pf.hash().unwrap(), data))
        };

        if concurrent {
            let mut hs = Vec::new();
            for f in files {
                hs.push(tokio::spawn(clean_one(session.clone(), f)));
            }
            for h in hs {
                match h.await.unwrap() {
                    Ok(x) => ok_files.push(x),
                    Err(e) => any_err |= e != "abandoned",
                }
            }
        } else {
            for f in files {
                match clean_one(session.clone(), f).await {
                    Ok(x) => ok_files.push(x),
                    Err(e) => {
                        if e == "abandoned" {
                            continue;
                        }
                        any_err = true;
                        if !continue_after_error {
                            break;
                        }
                    },
                }
            }
        }

        if any_err && !continue_after_error {
            drop(session);
            return problems;
        }

        let fin = session.finalize().await;
        STATS[1].fetch_add(1, Ordering::SeqCst);
        if fin.is_ok() { STATS[2].fetch_add(1, Ordering::SeqCst); }
        if let Err(e) = &fin { let m = format!("{e:?}"); if !m.contains("injected") && !m.contains("earlier xorb upload") { eprintln!("ODD-FINALIZE-ERROR seed {seed} s {s}: {m}"); } }
        if mock.my_failures.load(Ordering::SeqCst) > 0 { STATS[3].fetch_add(1, Ordering::SeqCst); }
        STATS[4].fetch_add(store.lock().unwrap().n_shards, Ordering::SeqCst);
        if fin.is_err() {
            any_err = true;
        }

        let st = store.lock().unwrap();
        let _ = failures_before;
        let failures = mock.my_failures.load(Ordering::SeqCst);
        if failures > 0 && !any_err {
            problems.push(format!("seed {seed} session {s}: {failures} injected upload failures but no call returned an error"));
        }
        if fin.is_ok() {
            for (h, data) in ok_files.iter() {
                match reconstruct(&st, h) {
                    Ok(d) if &d == data => {},
                    Ok(_) => problems.push(format!("seed {seed} session {s}: file {h:?} reconstructs to different bytes")),
                    Err(e) => problems.push(format!("seed {seed} session {s}: finalize Ok but {e}")),
                }
            }
        }

    problems
}

async fn run_scenario(seed: u64, tp: Arc<ThreadPool>, fail_call: Option<usize>, p_fail: f64) -> Vec<String> {
    let mut rng = StdRng::seed_from_u64(seed);
    // Kept until the end of the test: a failed finalize() leaves sibling shard upload tasks running detached,
    // and they panic (debug integrity check) if their directory disappears under them.
    let tmp = tempfile::tempdir().unwrap().into_path();
    TMP_DIRS.lock().unwrap().push(tmp.clone());
    let config = TranslatorConfig::local_config(&tmp).unwrap();
    let store = Arc::new(Mutex::new(Store::default()));
    let mut problems = Vec::new();

    let pool: Vec<Vec<u8>> = (0..6)
        .map(|_| {
            let mut b = vec![0u8; rng.gen_range(500..12000)];
            rng.fill_bytes(&mut b);
            b
        })
        .collect();

    let n_sessions = rng.gen_range(1..4);
    let pool = Arc::new(pool);
    let parallel_sessions = rng.gen_bool(0.4);
    if parallel_sessions {
        let mut hs = Vec::new();
        for s in 0..n_sessions {
            hs.push(tokio::spawn(run_session(seed, s, tp.clone(), config.clone(), store.clone(), pool.clone(), fail_call, p_fail)));
        }
        for h in hs {
            problems.extend(h.await.unwrap());
        }
    } else {
        for s in 0..n_sessions {
            problems.extend(run_session(seed, s, tp.clone(), config.clone(), store.clone(), pool.clone(), fail_call, p_fail).await);
        }
    }
    let st = store.lock().unwrap();
    for v in st.violations.iter() {
        problems.push(format!("seed {seed}: {v}"));
    }
    if !problems.is_empty() {
        for l in st.log.iter() {
            eprintln!("   {l}");
        }
    }
    problems
}

#[test]
fn explore() {
    let tp = Arc::new(ThreadPool::new().unwrap());
    let n: u64 = std::env::var("HUNT_N").ok().and_then(|s| s.parse().ok()).unwrap_or(300);
    let tp2 = tp.clone();
    let problems = tp
        .external_run_async_task(async move {
            let mut all = Vec::new();
            for seed in 0..n {
                let p = run_scenario(seed, tp2.clone(), None, 0.08).await;
                all.extend(p);
                // single failure in turn
                for k in 0..6 {
                    let p = run_scenario(seed, tp2.clone(), Some(k + (seed as usize % 5) * 6), 0.0).await;
                    all.extend(p);
                }
                if all.len() > 5 {
                    break;
                }
            }
            all
        })
        .unwrap();
    std::thread::sleep(Duration::from_millis(300));
    for d in TMP_DIRS.lock().unwrap().drain(..) {
        let _ = std::fs::remove_dir_all(d);
    }
    eprintln!("STATS global-dedup-hits={:?} finalizes={:?} finalize-ok={:?} sessions-with-failure={:?} shards(cum)={:?}", STATS[0], STATS[1], STATS[2], STATS[3], STATS[4]);
    for p in problems.iter() {
        eprintln!("PROBLEM: {p}");
    }
    assert!(problems.is_empty());
}

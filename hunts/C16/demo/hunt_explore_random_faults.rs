// Exploration harness for C16 (not a deliverable).
use std::collections::{HashMap, HashSet};
use std::io::Cursor;
use std::path::PathBuf;
use std::sync::atomic::{AtomicUsize, Ordering};
use std::sync::{Arc, Mutex};
use std::time::Duration;

use async_trait::async_trait;
use cas_client::{
    CasClientError, Client, OutputProvider, ReconstructionClient, ShardClientInterface, UploadClient,
    VerifRegistrationClient, VerifShardDedupProber,
};
use cas_types::FileRange;
use data::configurations::TranslatorConfig;
use data::{FileUploadSession, PointerFile};
use deduplication::constants::{MAX_XORB_BYTES, MAX_XORB_CHUNKS, TARGET_CHUNK_SIZE};
use mdb_shard::constants::MDB_SHARD_MIN_TARGET_SIZE;
use mdb_shard::file_structs::MDBFileInfo;
use mdb_shard::shard_file_reconstructor::FileReconstructor;
use mdb_shard::MDBShardInfo;
use merklehash::MerkleHash;
use rand::rngs::StdRng;
use rand::{Rng, RngCore, SeedableRng};
use tempfile::TempDir;
use utils::progress::ProgressUpdater;
use utils::test_set_globals;
use xet_threadpool::ThreadPool;

test_set_globals! {
    TARGET_CHUNK_SIZE = 1024;
    MAX_XORB_BYTES = 5 * (*TARGET_CHUNK_SIZE);
    MAX_XORB_CHUNKS = 8;
    MDB_SHARD_MIN_TARGET_SIZE = 2048;
}

#[derive(Clone, Copy, Debug, PartialEq)]
enum Fault {
    None,
    Fail,
    Delay(u64),
    DelayFail(u64),
}

#[derive(Default)]
struct Store {
    xorbs: HashMap<MerkleHash, (Vec<u8>, Vec<u32>)>,
    files: HashMap<MerkleHash, MDBFileInfo>,
    log: Vec<String>,
    violations: Vec<String>,
    failed_calls: usize,
}

struct FaultyClient {
    store: Arc<Mutex<Store>>,
    call_idx: AtomicUsize,
    plan: Mutex<HashMap<usize, Fault>>,
    failed: AtomicUsize,
}

impl FaultyClient {
    fn new(store: Arc<Mutex<Store>>, plan: HashMap<usize, Fault>) -> Arc<Self> {
        Arc::new(Self {
            store,
            call_idx: AtomicUsize::new(0),
            plan: Mutex::new(plan),
            failed: AtomicUsize::new(0),
        })
    }
    async fn fault(&self, what: &str) -> Result<usize, CasClientError> {
        let idx = self.call_idx.fetch_add(1, Ordering::SeqCst);
        let f = self.plan.lock().unwrap().get(&idx).copied().unwrap_or(Fault::None);
        self.store.lock().unwrap().log.push(format!("start #{idx} {what} {f:?}"));
        match f {
            Fault::None => Ok(idx),
            Fault::Fail => {
                self.failed.fetch_add(1, Ordering::SeqCst);
                Err(CasClientError::Other(format!("injected failure on call {idx} {what}")))
            },
            Fault::Delay(ms) => {
                tokio::time::sleep(Duration::from_millis(ms)).await;
                Ok(idx)
            },
            Fault::DelayFail(ms) => {
                tokio::time::sleep(Duration::from_millis(ms)).await;
                self.failed.fetch_add(1, Ordering::SeqCst);
                Err(CasClientError::Other(format!("injected failure on call {idx} {what}")))
            },
        }
    }
}

#[async_trait]
impl UploadClient for FaultyClient {
    async fn put(
        &self,
        _prefix: &str,
        hash: &MerkleHash,
        data: Vec<u8>,
        chunk_and_boundaries: Vec<(MerkleHash, u32)>,
    ) -> Result<usize, CasClientError> {
        let idx = self.fault(&format!("put {hash}")).await?;
        let n = data.len();
        let mut s = self.store.lock().unwrap();
        s.xorbs
            .insert(*hash, (data, chunk_and_boundaries.iter().map(|(_, b)| *b).collect()));
        s.log.push(format!("done  #{idx} put {hash}"));
        Ok(n)
    }
    async fn exists(&self, _prefix: &str, hash: &MerkleHash) -> Result<bool, CasClientError> {
        Ok(self.store.lock().unwrap().xorbs.contains_key(hash))
    }
}

#[async_trait]
impl ReconstructionClient for FaultyClient {
    async fn get_file(
        &self,
        _hash: &MerkleHash,
        _byte_range: Option<FileRange>,
        _output_provider: &OutputProvider,
        _progress_updater: Option<Arc<dyn ProgressUpdater>>,
    ) -> Result<u64, CasClientError> {
        unimplemented!()
    }
}

#[async_trait]
impl VerifRegistrationClient for FaultyClient {
    async fn upload_shard(
        &self,
        _prefix: &str,
        hash: &MerkleHash,
        _force_sync: bool,
        shard_data: &[u8],
        _salt: &[u8; 32],
    ) -> Result<bool, CasClientError> {
        // Oracle: at hand-over time, every referenced xorb must be stored already.
        let mut rd = Cursor::new(shard_data);
        let info = MDBShardInfo::load_from_reader(&mut rd).unwrap();
        let fis = info.read_all_file_info_sections(&mut rd).unwrap();
        {
            let mut s = self.store.lock().unwrap();
            for fi in fis.iter() {
                for seg in fi.segments.iter() {
                    if !s.xorbs.contains_key(&seg.cas_hash) {
                        let m = format!(
                            "shard {hash} handed over while xorb {} (file {}) is not stored",
                            seg.cas_hash, fi.metadata.file_hash
                        );
                        s.violations.push(m);
                    }
                }
            }
        }
        let idx = self.fault(&format!("upload_shard {hash}")).await?;
        let mut s = self.store.lock().unwrap();
        for fi in fis {
            s.files.insert(fi.metadata.file_hash, fi);
        }
        s.log.push(format!("done  #{idx} upload_shard {hash}"));
        Ok(true)
    }
}

#[async_trait]
impl FileReconstructor<CasClientError> for FaultyClient {
    async fn get_file_reconstruction_info(
        &self,
        _file_hash: &MerkleHash,
    ) -> Result<Option<(MDBFileInfo, Option<MerkleHash>)>, CasClientError> {
        Ok(None)
    }
}

#[async_trait]
impl VerifShardDedupProber for FaultyClient {
    async fn query_for_global_dedup_shard(
        &self,
        _prefix: &str,
        _chunk_hash: &MerkleHash,
        _salt: &[u8; 32],
    ) -> Result<Option<PathBuf>, CasClientError> {
        Ok(None)
    }
}

impl ShardClientInterface for FaultyClient {}
impl Client for FaultyClient {}

fn reconstruct(store: &Store, file_hash: &MerkleHash) -> Result<Vec<u8>, String> {
    let fi = store.files.get(file_hash).ok_or_else(|| format!("file {file_hash} not in any stored shard"))?;
    let mut out = Vec::new();
    for seg in fi.segments.iter() {
        let (data, bounds) = store
            .xorbs
            .get(&seg.cas_hash)
            .ok_or_else(|| format!("xorb {} of file {file_hash} not stored", seg.cas_hash))?;
        let s = seg.chunk_index_start as usize;
        let e = seg.chunk_index_end as usize;
        if e > bounds.len() || s >= e {
            return Err(format!("bad range {s}..{e} in xorb {} ({} chunks)", seg.cas_hash, bounds.len()));
        }
        let bs = if s == 0 { 0 } else { bounds[s - 1] as usize };
        let be = bounds[e - 1] as usize;
        out.extend_from_slice(&data[bs..be]);
    }
    Ok(out)
}

fn gen_files(seed: u64, n: usize) -> Vec<Vec<u8>> {
    let mut rng = StdRng::seed_from_u64(seed);
    // shared blocks to create dedup between files
    let mut blocks: Vec<Vec<u8>> = Vec::new();
    for _ in 0..4 {
        let len = rng.gen_range(1000..12000);
        let mut b = vec![0u8; len];
        rng.fill_bytes(&mut b);
        blocks.push(b);
    }
    let mut files = Vec::new();
    for _ in 0..n {
        let mut f = Vec::new();
        let parts = rng.gen_range(0..5);
        for _ in 0..parts {
            if rng.gen_bool(0.5) {
                let b = &blocks[rng.gen_range(0..blocks.len())];
                f.extend_from_slice(b);
            } else {
                let len = rng.gen_range(0..9000);
                let mut b = vec![0u8; len];
                rng.fill_bytes(&mut b);
                f.extend_from_slice(&b);
            }
        }
        files.push(f);
    }
    files
}

struct Outcome {
    any_err: bool,
    finalize_ok: bool,
    ok_files: Vec<(usize, PointerFile)>,
    failed: usize,
}

async fn run_session(
    cfg: Arc<TranslatorConfig>,
    store: Arc<Mutex<Store>>,
    plan: HashMap<usize, Fault>,
    files: &[Vec<u8>],
    concurrent: bool,
    block: usize,
) -> Outcome {
    let client = FaultyClient::new(store.clone(), plan);
    let client2 = client.clone();
    let session = FileUploadSession::new_with_client(cfg, ThreadPool::from_current_runtime(), None, client, false)
        .await
        .unwrap();
    let mut any_err = false;
    let mut ok_files = Vec::new();
    if concurrent {
        let mut js = tokio::task::JoinSet::new();
        for (i, f) in files.iter().enumerate() {
            let f = f.clone();
            let mut cleaner = session.start_clean(format!("f{i}"));
            js.spawn(async move {
                for part in f.chunks(block.max(1)) {
                    cleaner.add_data(part).await?;
                }
                let (pf, _) = cleaner.finish().await?;
                Ok::<_, data::errors::DataProcessingError>((i, pf))
            });
        }
        while let Some(r) = js.join_next().await {
            match r.unwrap() {
                Ok(x) => ok_files.push(x),
                Err(_) => any_err = true,
            }
        }
    } else {
        'files: for (i, f) in files.iter().enumerate() {
            let mut cleaner = session.start_clean(format!("f{i}"));
            for part in f.chunks(block.max(1)) {
                if cleaner.add_data(part).await.is_err() {
                    any_err = true;
                    if std::env::var("HUNT_ABORT").is_ok() { break 'files; }
                    continue 'files;
                }
            }
            match cleaner.finish().await {
                Ok((pf, _)) => ok_files.push((i, pf)),
                Err(_) => { any_err = true; if std::env::var("HUNT_ABORT").is_ok() { break 'files; } },
            }
        }
    }
    if any_err && std::env::var("HUNT_ABORT").is_ok() {
        drop(session);
        return Outcome { any_err, finalize_ok: false, ok_files, failed: client2.failed.load(Ordering::SeqCst) };
    }
    let finalize_ok = match session.finalize().await {
        Ok(_) => true,
        Err(_) => {
            any_err = true;
            false
        },
    };
    Outcome {
        any_err,
        finalize_ok,
        ok_files,
        failed: client2.failed.load(Ordering::SeqCst),
    }
}

fn check(store: &Arc<Mutex<Store>>, out: &Outcome, files: &[Vec<u8>], strict_continue: bool, tag: &str) -> Vec<String> {
    let s = store.lock().unwrap();
    let mut problems = Vec::new();
    for v in s.violations.iter() {
        problems.push(format!("[{tag}] ORDER: {v}"));
    }
    if out.failed > 0 && !out.any_err {
        problems.push(format!("[{tag}] SWALLOWED: {} calls failed but no session call returned an error", out.failed));
    }
    if !out.any_err || (strict_continue && out.finalize_ok) {
        for (i, pf) in out.ok_files.iter() {
            let h = pf.hash().unwrap();
            match reconstruct(&s, &h) {
                Ok(d) => {
                    if d != files[*i] {
                        problems.push(format!("[{tag}] file {i} reconstructs to different bytes"));
                    }
                },
                Err(e) => problems.push(format!("[{tag}] file {i}: {e}")),
            }
        }
    }
    problems
}

#[tokio::test(flavor = "multi_thread", worker_threads = 4)]
async fn explore_random() {
    let mut all_problems = Vec::new();
    let n_iter: u64 = std::env::var("HUNT_ITERS").ok().and_then(|s| s.parse().ok()).unwrap_or(150);
    for seed in 0..n_iter {
        let mut rng = StdRng::seed_from_u64(seed * 7919 + 13);
        let dir = TempDir::new().unwrap();
        let cfg = TranslatorConfig::local_config(dir.path()).unwrap();
        let store = Arc::new(Mutex::new(Store::default()));
        let n_sessions = rng.gen_range(1..4);
        for sidx in 0..n_sessions {
            let files = gen_files(seed / 2 * 31 + (sidx as u64 % 2), rng.gen_range(1..7));
            let mut plan = HashMap::new();
            let n_faults = rng.gen_range(0..5);
            for _ in 0..n_faults {
                let k = rng.gen_range(0..25);
                let f = match rng.gen_range(0..4) {
                    0 => Fault::Fail,
                    1 => Fault::Delay(rng.gen_range(1..40)),
                    2 => Fault::DelayFail(rng.gen_range(1..40)),
                    _ => Fault::Delay(rng.gen_range(1..10)),
                };
                plan.insert(k, f);
            }
            let concurrent = rng.gen_bool(0.5);
            let block = [100usize, 1000, 4096, 100000][rng.gen_range(0..4)];
            store.lock().unwrap().failed_calls = 0;
            let out = run_session(cfg.clone(), store.clone(), plan.clone(), &files, concurrent, block).await;
            let tag = format!("seed {seed} session {sidx} conc {concurrent} block {block} plan {plan:?}");
            let p = check(&store, &out, &files, false, &tag);
            if !p.is_empty() {
                for l in store.lock().unwrap().log.iter() {
                    eprintln!("   {l}");
                }
            }
            store.lock().unwrap().violations.clear();
            all_problems.extend(p);
        }
    }
    for p in all_problems.iter() {
        eprintln!("{p}");
    }
    assert!(all_problems.is_empty(), "{} problems", all_problems.len());
}

//! C16 demo: an xorb upload failure is reported exactly once (to whichever call happens to reap it)
//! and is NOT latched in the session.  If that call belongs to a different file and the caller goes
//! on to `finalize()`, finalize reports success and hands a shard to the store whose file records
//! reference an xorb that was never stored.  The poisoned shard is also moved to the local shard
//! cache, so a later, completely fault-free session dedups against the missing xorb and silently
//! produces an unreconstructible file.
//!
//! Run (from the repository root):
//!   cp OUT/demo/hunt_demo.rs data/tests/hunt_demo.rs
//!   cargo test --offline -p data --features verif --test hunt_demo -- --test-threads=1
//!
//! Both tests FAIL on the unmodified source.

use std::collections::HashMap;
use std::io::Cursor;
use std::path::PathBuf;
use std::sync::atomic::{AtomicBool, AtomicUsize, Ordering};
use std::sync::{Arc, Mutex};
use std::time::Duration;

use async_trait::async_trait;
use cas_client::{
    CasClientError, Client, OutputProvider, ReconstructionClient, ShardClientInterface, UploadClient,
    VerifRegistrationClient, VerifShardDedupProber,
};
use cas_types::FileRange;
use data::configurations::TranslatorConfig;
use data::{FileUploadSession, PointerFile};
use deduplication::constants::{MAX_XORB_BYTES, MAX_XORB_CHUNKS, TARGET_CHUNK_SIZE};
use mdb_shard::file_structs::MDBFileInfo;
use mdb_shard::shard_file_reconstructor::FileReconstructor;
use mdb_shard::MDBShardInfo;
use merklehash::MerkleHash;
use rand::rngs::StdRng;
use rand::{RngCore, SeedableRng};
use tempfile::TempDir;
use tokio::sync::Semaphore;
use utils::progress::ProgressUpdater;
use utils::test_set_globals;
use xet_threadpool::ThreadPool;

// Small chunks / xorbs so that a 20 KB file cuts several xorbs while data is being added.
test_set_globals! {
    TARGET_CHUNK_SIZE = 1024;
    MAX_XORB_BYTES = 5 * (*TARGET_CHUNK_SIZE);
    MAX_XORB_CHUNKS = 8;
}

/// What the "server" holds, plus the call log and the ordering oracle's verdicts.
#[derive(Default)]
struct Store {
    xorbs: HashMap<MerkleHash, (Vec<u8>, Vec<u32>)>,
    files: HashMap<MerkleHash, MDBFileInfo>,
    log: Vec<String>,
    order_violations: Vec<String>,
}

/// Injected `Client` wrapper.  `fail_put` = index (among all put/upload_shard calls of this client)
/// of the one call that fails; that call first waits for a permit on `gate`, i.e. it is a slow upload
/// that eventually fails.
struct InjectedClient {
    store: Arc<Mutex<Store>>,
    calls: AtomicUsize,
    fail_put: Option<usize>,
    gate: Arc<Semaphore>,
    failure_delivered: Arc<AtomicBool>,
}

#[async_trait]
impl UploadClient for InjectedClient {
    async fn put(
        &self,
        _prefix: &str,
        hash: &MerkleHash,
        data: Vec<u8>,
        chunk_and_boundaries: Vec<(MerkleHash, u32)>,
    ) -> Result<usize, CasClientError> {
        let idx = self.calls.fetch_add(1, Ordering::SeqCst);
        self.store.lock().unwrap().log.push(format!("#{idx} put {hash} start"));
        if self.fail_put == Some(idx) {
            let _p = self.gate.acquire().await.unwrap();
            self.store.lock().unwrap().log.push(format!("#{idx} put {hash} FAILED"));
            self.failure_delivered.store(true, Ordering::SeqCst);
            return Err(CasClientError::Other(format!("injected failure of put #{idx}")));
        }
        let n = data.len();
        let mut s = self.store.lock().unwrap();
        s.xorbs
            .insert(*hash, (data, chunk_and_boundaries.iter().map(|(_, b)| *b).collect()));
        s.log.push(format!("#{idx} put {hash} ok"));
        Ok(n)
    }

    async fn exists(&self, _prefix: &str, hash: &MerkleHash) -> Result<bool, CasClientError> {
        Ok(self.store.lock().unwrap().xorbs.contains_key(hash))
    }
}

#[async_trait]
impl VerifRegistrationClient for InjectedClient {
    async fn upload_shard(
        &self,
        _prefix: &str,
        hash: &MerkleHash,
        _force_sync: bool,
        shard_data: &[u8],
        _salt: &[u8; 32],
    ) -> Result<bool, CasClientError> {
        let idx = self.calls.fetch_add(1, Ordering::SeqCst);
        let mut rd = Cursor::new(shard_data);
        let info = MDBShardInfo::load_from_reader(&mut rd).unwrap();
        let file_infos = info.read_all_file_info_sections(&mut rd).unwrap();

        let mut s = self.store.lock().unwrap();
        s.log.push(format!("#{idx} upload_shard {hash} start"));

        // ORACLE (first sentence of C16): when the shard is handed over, every xorb referenced by
        // its file records must already be stored.
        for fi in file_infos.iter() {
            for seg in fi.segments.iter() {
                if !s.xorbs.contains_key(&seg.cas_hash) {
                    let m = format!(
                        "shard {hash} handed to the store while xorb {} (referenced by file {}) was never stored",
                        seg.cas_hash, fi.metadata.file_hash
                    );
                    s.order_violations.push(m);
                }
            }
        }
        for fi in file_infos {
            s.files.insert(fi.metadata.file_hash, fi);
        }
        s.log.push(format!("#{idx} upload_shard {hash} ok"));
        Ok(true)
    }
}

#[async_trait]
impl ReconstructionClient for InjectedClient {
    async fn get_file(
        &self,
        _hash: &MerkleHash,
        _byte_range: Option<FileRange>,
        _output_provider: &OutputProvider,
        _progress_updater: Option<Arc<dyn ProgressUpdater>>,
    ) -> Result<u64, CasClientError> {
        unimplemented!()
    }
}

#[async_trait]
impl FileReconstructor<CasClientError> for InjectedClient {
    async fn get_file_reconstruction_info(
        &self,
        _file_hash: &MerkleHash,
    ) -> Result<Option<(MDBFileInfo, Option<MerkleHash>)>, CasClientError> {
        Ok(None)
    }
}

#[async_trait]
impl VerifShardDedupProber for InjectedClient {
    async fn query_for_global_dedup_shard(
        &self,
        _prefix: &str,
        _chunk_hash: &MerkleHash,
        _salt: &[u8; 32],
    ) -> Result<Option<PathBuf>, CasClientError> {
        Ok(None)
    }
}

impl ShardClientInterface for InjectedClient {}
impl Client for InjectedClient {}

/// Rebuild a file purely from what the store holds.
fn reconstruct(store: &Store, file_hash: &MerkleHash) -> Result<Vec<u8>, String> {
    let fi = store
        .files
        .get(file_hash)
        .ok_or_else(|| format!("file {file_hash} is in no stored shard"))?;
    let mut out = Vec::new();
    for seg in fi.segments.iter() {
        let (data, bounds) = store
            .xorbs
            .get(&seg.cas_hash)
            .ok_or_else(|| format!("xorb {} needed by file {file_hash} is not in the store", seg.cas_hash))?;
        let (s, e) = (seg.chunk_index_start as usize, seg.chunk_index_end as usize);
        let bs = if s == 0 { 0 } else { bounds[s - 1] as usize };
        out.extend_from_slice(&data[bs..bounds[e - 1] as usize]);
    }
    Ok(out)
}

fn random_bytes(seed: u64, n: usize) -> Vec<u8> {
    let mut v = vec![0u8; n];
    StdRng::seed_from_u64(seed).fill_bytes(&mut v);
    v
}

struct Session1 {
    pointer_a: PointerFile,
    b_add_data_failed: bool,
    finalize_ok: bool,
}

/// Session 1: file A uploads fine from the caller's point of view; the put of A's first xorb is slow
/// and then fails.  The failure is reaped by file B's `add_data`.  The caller gives up on B only and
/// finalizes.
async fn run_session_1(cfg: Arc<TranslatorConfig>, store: Arc<Mutex<Store>>, file_a: &[u8], file_b: &[u8]) -> Session1 {
    let gate = Arc::new(Semaphore::new(0));
    let failure_delivered = Arc::new(AtomicBool::new(false));
    let client = Arc::new(InjectedClient {
        store: store.clone(),
        calls: AtomicUsize::new(0),
        fail_put: Some(0), // the first xorb cut from file A
        gate: gate.clone(),
        failure_delivered: failure_delivered.clone(),
    });

    let session = FileUploadSession::new_with_client(cfg, ThreadPool::from_current_runtime(), None, client, false)
        .await
        .unwrap();

    // File A: every call succeeds.
    let mut cleaner_a = session.start_clean("A".into());
    cleaner_a.add_data(file_a).await.expect("A.add_data");
    let (pointer_a, _) = cleaner_a.finish().await.expect("A.finish");

    // Now the slow put of A's first xorb completes -- with an error.
    gate.add_permits(1);
    while !failure_delivered.load(Ordering::SeqCst) {
        tokio::time::sleep(Duration::from_millis(5)).await;
    }
    tokio::time::sleep(Duration::from_millis(200)).await; // let the upload task finish

    // File B: its first xorb registration reaps A's failure.
    let mut cleaner_b = session.start_clean("B".into());
    let b_res = cleaner_b.add_data(file_b).await;
    let b_add_data_failed = b_res.is_err();
    drop(cleaner_b); // the caller gives up on B (only)

    let finalize_ok = session.finalize().await.is_ok();

    Session1 {
        pointer_a,
        b_add_data_failed,
        finalize_ok,
    }
}

#[tokio::test(flavor = "multi_thread", worker_threads = 4)]
async fn finalize_succeeds_and_uploads_shard_after_a_failed_xorb_upload() {
    let dir = TempDir::new().unwrap();
    let cfg = TranslatorConfig::local_config(dir.path()).unwrap();
    let store = Arc::new(Mutex::new(Store::default()));

    let file_a = random_bytes(1, 20_000);
    let file_b = random_bytes(2, 20_000);

    let s1 = run_session_1(cfg, store.clone(), &file_a, &file_b).await;

    let st = store.lock().unwrap();
    eprintln!("---- call log ----");
    for l in st.log.iter() {
        eprintln!("{l}");
    }
    eprintln!(
        "B.add_data returned Err: {}; finalize returned Ok: {}",
        s1.b_add_data_failed, s1.finalize_ok
    );

    // The failure was indeed surfaced once, on the *other* file.
    assert!(s1.b_add_data_failed, "expected the failure of A's xorb to surface on B.add_data");

    // C16, first sentence: no shard may be handed over before all xorbs it references are stored.
    assert!(
        st.order_violations.is_empty(),
        "ORDER VIOLATION (finalize returned Ok = {}):\n  {}",
        s1.finalize_ok,
        st.order_violations.join("\n  ")
    );

    // C16, second sentence: a finalize that reports success leaves every (successfully finished) file
    // reconstructible.
    if s1.finalize_ok {
        let rebuilt = reconstruct(&st, &s1.pointer_a.hash().unwrap());
        assert_eq!(rebuilt.as_deref(), Ok(&file_a[..]), "finalize() returned Ok but file A is not reconstructible");
    }
}

#[tokio::test(flavor = "multi_thread", worker_threads = 4)]
async fn later_fault_free_session_silently_produces_unreconstructible_file() {
    let dir = TempDir::new().unwrap();
    let cfg = TranslatorConfig::local_config(dir.path()).unwrap();
    let store = Arc::new(Mutex::new(Store::default()));

    let file_a = random_bytes(1, 20_000);
    let file_b = random_bytes(2, 20_000);

    // Session 1 as above (one xorb of A never reaches the store, finalize nevertheless succeeds).
    let s1 = run_session_1(cfg.clone(), store.clone(), &file_a, &file_b).await;
    eprintln!("session 1: B.add_data Err = {}, finalize Ok = {}", s1.b_add_data_failed, s1.finalize_ok);
    store.lock().unwrap().order_violations.clear();
    store.lock().unwrap().log.clear();

    // Session 2: same local shard cache, a client that never fails, and every call is checked.
    let client = Arc::new(InjectedClient {
        store: store.clone(),
        calls: AtomicUsize::new(0),
        fail_put: None,
        gate: Arc::new(Semaphore::new(0)),
        failure_delivered: Arc::new(AtomicBool::new(false)),
    });
    let session = FileUploadSession::new_with_client(cfg, ThreadPool::from_current_runtime(), None, client, false)
        .await
        .unwrap();
    let mut cleaner = session.start_clean("A-again".into());
    cleaner.add_data(&file_a).await.expect("session 2: add_data");
    let (pointer, _) = cleaner.finish().await.expect("session 2: finish");
    session.finalize().await.expect("session 2: finalize");

    let st = store.lock().unwrap();
    eprintln!("---- session 2 call log ----");
    for l in st.log.iter() {
        eprintln!("{l}");
    }

    assert!(
        st.order_violations.is_empty(),
        "session 2 had no failure at all, yet:\n  {}",
        st.order_violations.join("\n  ")
    );
    let rebuilt = reconstruct(&st, &pointer.hash().unwrap());
    assert_eq!(
        rebuilt.as_deref(),
        Ok(&file_a[..]),
        "session 2 reported success on every call but the file is not reconstructible"
    );
}

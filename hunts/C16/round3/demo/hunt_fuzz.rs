// Exploratory randomized harness for property C16 (not a deliverable by itself).
#![cfg(feature = "verif")]

use std::collections::{HashMap, HashSet};
use std::io::Cursor;
use std::path::PathBuf;
use std::sync::atomic::{AtomicUsize, Ordering};
use std::sync::{Arc, Mutex};

use async_trait::async_trait;
use cas_client::{
    CasClientError, Client, OutputProvider, ReconstructionClient, ShardClientInterface, UploadClient,
    VerifRegistrationClient, VerifShardDedupProber,
};
use cas_types::FileRange;
use data::configurations::TranslatorConfig;
use data::FileUploadSession;
use mdb_shard::file_structs::MDBFileInfo;
use mdb_shard::shard_file_reconstructor::FileReconstructor;
use mdb_shard::MDBShardInfo;
use merklehash::MerkleHash;
use rand::prelude::*;
use utils::progress::ProgressUpdater;
use xet_threadpool::ThreadPool;

#[derive(Default)]
struct Store {
    xorbs: HashMap<MerkleHash, (Vec<u8>, Vec<(MerkleHash, u32)>)>,
    shards: Vec<Vec<u8>>,
    log: Vec<String>,
    violations: Vec<String>,
}

struct FaultClient {
    store: Arc<Mutex<Store>>,
    call_no: AtomicUsize,
    fail_calls: HashSet<usize>,
    delay_seed: u64,
    n_failed: AtomicUsize,
    gd_cache_dir: Option<PathBuf>,
}

impl FaultClient {
    fn new(fail_calls: HashSet<usize>, delay_seed: u64) -> Self {
        Self {
            store: Default::default(),
            call_no: AtomicUsize::new(0),
            fail_calls,
            delay_seed,
            n_failed: AtomicUsize::new(0),
            gd_cache_dir: None,
        }
    }

    async fn delay(&self, n: usize) {
        let mut rng = StdRng::seed_from_u64(self.delay_seed ^ (n as u64).wrapping_mul(0x9E3779B97F4A7C15));
        let k = rng.gen_range(0..4);
        for _ in 0..k {
            tokio::task::yield_now().await;
        }
        if rng.gen_bool(0.5) {
            tokio::time::sleep(std::time::Duration::from_millis(rng.gen_range(0..6))).await;
        }
    }
}

fn shard_file_infos(data: &[u8]) -> Vec<MDBFileInfo> {
    let mut c = Cursor::new(data);
    let info = MDBShardInfo::load_from_reader(&mut c).unwrap();
    info.read_all_file_info_sections(&mut c).unwrap()
}

#[async_trait]
impl UploadClient for FaultClient {
    async fn put(
        &self,
        _prefix: &str,
        hash: &MerkleHash,
        data: Vec<u8>,
        chunk_and_boundaries: Vec<(MerkleHash, u32)>,
    ) -> Result<usize, CasClientError> {
        let n = self.call_no.fetch_add(1, Ordering::SeqCst);
        self.store.lock().unwrap().log.push(format!("#{n} put start {hash:?}"));
        self.delay(n).await;
        if self.fail_calls.contains(&n) {
            self.n_failed.fetch_add(1, Ordering::SeqCst);
            self.store.lock().unwrap().log.push(format!("#{n} put FAIL {hash:?}"));
            return Err(CasClientError::Other(format!("injected put failure #{n}")));
        }
        let len = data.len();
        let mut s = self.store.lock().unwrap();
        s.xorbs.insert(*hash, (data, chunk_and_boundaries));
        s.log.push(format!("#{n} put ok {hash:?}"));
        Ok(len)
    }

    async fn exists(&self, _prefix: &str, hash: &MerkleHash) -> Result<bool, CasClientError> {
        Ok(self.store.lock().unwrap().xorbs.contains_key(hash))
    }
}

#[async_trait]
impl ReconstructionClient for FaultClient {
    async fn get_file(
        &self,
        _hash: &MerkleHash,
        _byte_range: Option<FileRange>,
        _output_provider: &OutputProvider,
        _progress_updater: Option<Arc<dyn ProgressUpdater>>,
    ) -> Result<u64, CasClientError> {
        unimplemented!()
    }
}

#[async_trait]
impl VerifRegistrationClient for FaultClient {
    async fn upload_shard(
        &self,
        _prefix: &str,
        hash: &MerkleHash,
        _force_sync: bool,
        shard_data: &[u8],
        _salt: &[u8; 32],
    ) -> Result<bool, CasClientError> {
        let n = self.call_no.fetch_add(1, Ordering::SeqCst);
        {
            // check at START: all xorbs referenced by file records must be stored
            let mut s = self.store.lock().unwrap();
            s.log.push(format!("#{n} upload_shard start {hash:?}"));
            for fi in shard_file_infos(shard_data) {
                for seg in fi.segments.iter() {
                    if !s.xorbs.contains_key(&seg.cas_hash) {
                        let m = format!(
                            "shard {hash:?} handed over while xorb {:?} of file {:?} not stored",
                            seg.cas_hash, fi.metadata.file_hash
                        );
                        s.violations.push(m);
                    }
                }
            }
        }
        self.delay(n).await;
        if self.fail_calls.contains(&n) {
            self.n_failed.fetch_add(1, Ordering::SeqCst);
            self.store.lock().unwrap().log.push(format!("#{n} upload_shard FAIL {hash:?}"));
            return Err(CasClientError::Other(format!("injected shard failure #{n}")));
        }
        let mut s = self.store.lock().unwrap();
        s.shards.push(shard_data.to_vec());
        s.log.push(format!("#{n} upload_shard ok {hash:?}"));
        Ok(true)
    }
}

#[async_trait]
impl FileReconstructor<CasClientError> for FaultClient {
    async fn get_file_reconstruction_info(
        &self,
        _file_hash: &MerkleHash,
    ) -> Result<Option<(MDBFileInfo, Option<MerkleHash>)>, CasClientError> {
        Ok(None)
    }
}

#[async_trait]
impl VerifShardDedupProber for FaultClient {
    async fn query_for_global_dedup_shard(
        &self,
        _prefix: &str,
        chunk_hash: &MerkleHash,
        _salt: &[u8; 32],
    ) -> Result<Option<PathBuf>, CasClientError> {
        let Some(dir) = self.gd_cache_dir.as_ref() else { return Ok(None) };
        let shards = self.store.lock().unwrap().shards.clone();
        for sh in shards {
            let mut c = Cursor::new(&sh[..]);
            let info = MDBShardInfo::load_from_reader(&mut c).unwrap();
            let blocks = info.read_all_cas_blocks_full(&mut c).unwrap();
            if blocks.iter().any(|b| b.chunks.iter().any(|ch| ch.chunk_hash == *chunk_hash)) {
                let f = mdb_shard::MDBShardFile::write_out_from_reader(dir, &mut Cursor::new(&sh[..])).unwrap();
                return Ok(Some(f.path.clone()));
            }
        }
        Ok(None)
    }
}

impl ShardClientInterface for FaultClient {}
impl Client for FaultClient {}

fn reconstruct(store: &Store, file_hash: &MerkleHash) -> Result<Vec<u8>, String> {
    let mut result: Option<Vec<u8>> = None;
    for sh in store.shards.iter() {
        for fi in shard_file_infos(sh) {
            if fi.metadata.file_hash == *file_hash {
                let mut out = Vec::new();
                for seg in fi.segments.iter() {
                    let Some((data, bounds)) = store.xorbs.get(&seg.cas_hash) else {
                        return Err(format!("xorb {:?} missing", seg.cas_hash));
                    };
                    let s = seg.chunk_index_start as usize;
                    let e = seg.chunk_index_end as usize;
                    if e > bounds.len() || s >= e {
                        return Err(format!("bad chunk range {s}..{e} of {}", bounds.len()));
                    }
                    let bs = if s == 0 { 0 } else { bounds[s - 1].1 as usize };
                    let be = bounds[e - 1].1 as usize;
                    if be - bs != seg.unpacked_segment_bytes as usize {
                        return Err(format!("segment bytes mismatch {} vs {}", be - bs, seg.unpacked_segment_bytes));
                    }
                    out.extend_from_slice(&data[bs..be]);
                }
                if let Some(prev) = result.as_ref() {
                    if *prev != out {
                        return Err("two records of the file reconstruct differently".into());
                    }
                }
                result = Some(out);
            }
        }
    }
    result.ok_or_else(|| "file record not in any stored shard".to_string())
}

trait CloneCfg { fn clone_cfg(&self) -> TranslatorConfig; }
impl CloneCfg for TranslatorConfig {
    fn clone_cfg(&self) -> TranslatorConfig {
        use data::configurations::*;
        TranslatorConfig {
            data_config: DataConfig {
                endpoint: Endpoint::FileSystem(PathBuf::from("/nonexistent")),
                compression: None,
                auth: None,
                prefix: self.data_config.prefix.clone(),
                cache_config: data::CacheConfig { cache_directory: self.data_config.cache_config.cache_directory.clone(), cache_size: self.data_config.cache_config.cache_size },
                staging_directory: None,
            },
            shard_config: ShardConfig {
                prefix: self.shard_config.prefix.clone(),
                session_directory: self.shard_config.session_directory.clone(),
                cache_directory: self.shard_config.cache_directory.clone(),
                global_dedup_policy: self.shard_config.global_dedup_policy,
                repo_salt: self.shard_config.repo_salt,
            },
            repo_info: None,
        }
    }
}

struct Scenario {
    files: Vec<Vec<u8>>,
    block: usize,
    concurrent: bool,
    abandon: bool,
}

fn gen_pool(rng: &mut StdRng) -> Vec<Vec<u8>> {
    let n_pool = rng.gen_range(1..6);
    (0..n_pool)
        .map(|_| {
            let len = rng.gen_range(1..12000);
            let mut v = vec![0u8; len];
            rng.fill_bytes(&mut v);
            v
        })
        .collect()
}

fn gen_scenario(rng: &mut StdRng, pool: &[Vec<u8>]) -> Scenario {
    let n_files = rng.gen_range(1..6);
    let mut files: Vec<Vec<u8>> = (0..n_files)
        .map(|_| {
            let mut f = Vec::new();
            let parts = rng.gen_range(0..5);
            for _ in 0..parts {
                if rng.gen_bool(0.7) {
                    let p = &pool[rng.gen_range(0..pool.len())];
                    let a = rng.gen_range(0..p.len());
                    let b = rng.gen_range(a..=p.len());
                    if rng.gen_bool(0.5) {
                        f.extend_from_slice(p);
                    } else {
                        f.extend_from_slice(&p[a..b]);
                    }
                } else {
                    let len = rng.gen_range(0..3000);
                    let mut v = vec![0u8; len];
                    rng.fill_bytes(&mut v);
                    f.extend_from_slice(&v);
                }
            }
            f
        })
        .collect();
    while rng.gen_bool(0.3) {
        let k = rng.gen_range(0..files.len());
        let dup = files[k].clone();
        files.push(dup);
    }
    Scenario {
        files,
        block: rng.gen_range(1..9000),
        concurrent: rng.gen_bool(0.5),
        abandon: rng.gen_bool(0.3),
    }
}

/// returns (any call returned error, file hashes)
async fn run_session(
    cfg: Arc<TranslatorConfig>,
    client: Arc<FaultClient>,
    sc: &Scenario,
) -> (bool, Vec<Option<MerkleHash>>, Vec<String>) {
    let tp = ThreadPool::from_current_runtime();
    let session = FileUploadSession::new_with_client(cfg, tp, None, client.clone(), false)
        .await
        .unwrap();
    let mut errs = Vec::new();
    let mut hashes = vec![None; sc.files.len()];

    if sc.abandon && !sc.files.is_empty() {
        // a file that is started and then given up
        let mut cleaner = session.start_clean("abandoned".into());
        let f = &sc.files[0];
        let _ = cleaner.add_data(&f[..f.len() / 2]).await;
        drop(cleaner);
    }

    if sc.concurrent {
        let mut js = tokio::task::JoinSet::new();
        for (i, f) in sc.files.iter().enumerate() {
            let mut cleaner = session.start_clean(format!("f{i}"));
            let f = f.clone();
            let block = sc.block;
            js.spawn(async move {
                let mut errs = Vec::new();
                for part in f.chunks(block) {
                    if let Err(e) = cleaner.add_data(part).await {
                        errs.push(format!("add_data f{i}: {e}"));
                        return (i, None, errs);
                    }
                    tokio::task::yield_now().await;
                }
                match cleaner.finish().await {
                    Ok((pf, _)) => (i, Some(pf.hash().unwrap()), errs),
                    Err(e) => {
                        errs.push(format!("finish f{i}: {e}"));
                        (i, None, errs)
                    },
                }
            });
        }
        while let Some(r) = js.join_next().await {
            let (i, h, e) = r.unwrap();
            hashes[i] = h;
            errs.extend(e);
        }
    } else {
        for (i, f) in sc.files.iter().enumerate() {
            let mut cleaner = session.start_clean(format!("f{i}"));
            let mut failed = false;
            for part in f.chunks(sc.block) {
                if let Err(e) = cleaner.add_data(part).await {
                    errs.push(format!("add_data f{i}: {e}"));
                    failed = true;
                    break;
                }
            }
            if failed {
                continue;
            }
            match cleaner.finish().await {
                Ok((pf, _)) => hashes[i] = Some(pf.hash().unwrap()),
                Err(e) => errs.push(format!("finish f{i}: {e}")),
            }
        }
    }

    if sc.abandon {
        if let Err(e) = session.finalize_with_file_info().await {
            errs.push(format!("finalize: {e}"));
        }
    } else if let Err(e) = session.finalize().await {
        errs.push(format!("finalize: {e}"));
    }
    (!errs.is_empty(), hashes, errs)
}

fn set_env() {
    std::env::set_var("HF_XET_TARGET_CHUNK_SIZE", "1024");
    std::env::set_var("HF_XET_MAX_XORB_BYTES", std::env::var("T_XB").unwrap_or("8192".into()));
    std::env::set_var("HF_XET_MAX_XORB_CHUNKS", std::env::var("T_XC").unwrap_or("6".into()));
    std::env::set_var("HF_XET_MDB_SHARD_MIN_TARGET_SIZE", std::env::var("T_SH").unwrap_or("1500".into()));
    std::env::set_var("HF_XET_MAX_CONCURRENT_UPLOADS", std::env::var("T_UP").unwrap_or("3".into()));
}

#[test]
fn fuzz_sessions() {
    set_env();
    let rt = if std::env::var("T_ST").is_ok() {
        tokio::runtime::Builder::new_current_thread().enable_all().build().unwrap()
    } else {
        tokio::runtime::Builder::new_multi_thread()
            .worker_threads(4)
            .enable_all()
            .build()
            .unwrap()
    };
    let start: u64 = std::env::var("T_START").ok().and_then(|s| s.parse().ok()).unwrap_or(0);
    let n: u64 = std::env::var("T_N").ok().and_then(|s| s.parse().ok()).unwrap_or(200);

    rt.block_on(async move {
        let mut bad = 0;
        let mut stats = [0usize; 5];
        for seed in start..start + n {
            let mut rng = StdRng::seed_from_u64(seed);
            let tmp = tempfile::tempdir().unwrap();
            let cfg = TranslatorConfig::local_config(tmp.path()).unwrap();
            let n_rounds = rng.gen_range(1..4);
            let pool = gen_pool(&mut rng);
            let store: Arc<Mutex<Store>> = Default::default();
            for sidx in 0..n_rounds {
                let n_par = if rng.gen_bool(0.3) { 2 } else { 1 };
                let mut scs = Vec::new();
                let mut clients = Vec::new();
                for _ in 0..n_par {
                    scs.push(gen_scenario(&mut rng, &pool));
                    let mut fails = HashSet::new();
                    let mode = rng.gen_range(0..3);
                    if mode == 1 {
                        fails.insert(rng.gen_range(0..12));
                    } else if mode == 2 {
                        for _ in 0..rng.gen_range(1..4) {
                            fails.insert(rng.gen_range(0..12));
                        }
                    }
                    let mut client = FaultClient::new(fails.clone(), rng.gen());
                    client.store = store.clone();
                    clients.push(Arc::new(client));
                }
                let results = if n_par == 2 {
                    let (a, b) = tokio::join!(
                        run_session(cfg.clone(), clients[0].clone(), &scs[0]),
                        run_session(cfg.clone(), clients[1].clone(), &scs[1])
                    );
                    vec![a, b]
                } else {
                    vec![run_session(cfg.clone(), clients[0].clone(), &scs[0]).await]
                };
                for (k, (any_err, hashes, errs)) in results.into_iter().enumerate() {
                    let client = &clients[k];
                    let sc = &scs[k];
                    let n_failed = client.n_failed.load(Ordering::SeqCst);
                    let mut store = store.lock().unwrap();
                    let mut problems = std::mem::take(&mut store.violations);
                    if n_failed > 0 && !any_err {
                        problems.push(format!("{n_failed} injected failures but no call returned an error"));
                    }
                    if any_err && n_failed == 0 {
                        problems.push(format!("SPURIOUS error without injected failure: {errs:?}"));
                    }
                    if !any_err {
                        for (i, h) in hashes.iter().enumerate() {
                            match reconstruct(&store, h.as_ref().unwrap()) {
                                Ok(d) => {
                                    if d != sc.files[i] {
                                        problems.push(format!("file {i} reconstructs to different bytes"));
                                    }
                                },
                                Err(e) => problems.push(format!("file {i} not reconstructible: {e}")),
                            }
                        }
                    }
                    stats[0] += 1;
                    if n_failed > 0 { stats[1] += 1; }
                    if !any_err { stats[2] += 1; }
                    stats[3] = store.shards.len();
                    stats[4] = store.xorbs.len();
                    if !problems.is_empty() {
                        bad += 1;
                        eprintln!("=== seed {seed} round {sidx}.{k} fails={:?} errs={errs:?}", client.fail_calls);
                        for p in problems {
                            eprintln!("   PROBLEM: {p}");
                        }
                        for l in store.log.iter() {
                            eprintln!("      {l}");
                        }
                    }
                }
                store.lock().unwrap().log.clear();
            }
        }
        eprintln!("stats sessions/failed-injected/success/shards/xorbs = {stats:?}");
        assert_eq!(bad, 0, "{bad} bad sessions");
    });
}

//! C19 demo 1 (core mechanism): SafeFileCreator publishes a PARTIAL file under the final name
//! when a write fails and the creator is then dropped (the normal `?` error path).
//!
//! Copy to file_utils/tests/ and run:
//!   cargo test --offline -p file_utils --test hunt_c19_safe_file_creator -- --nocapture
//!
//! The write failure is a real one produced by the kernel: RLIMIT_FSIZE is lowered (soft limit)
//! and SIGXFSZ is ignored, so write(2) past the limit returns EFBIG after a short write --
//! the same shape as ENOSPC / EDQUOT / EIO on a full or failing disk.
//! Linux only (constants below are the Linux values).

use std::io::Write;

use file_utils::SafeFileCreator;

#[repr(C)]
struct RLimit {
    cur: u64,
    max: u64,
}
extern "C" {
    fn getrlimit(resource: i32, rlim: *mut RLimit) -> i32;
    fn setrlimit(resource: i32, rlim: *const RLimit) -> i32;
    fn signal(signum: i32, handler: usize) -> usize;
}
const RLIMIT_FSIZE: i32 = 1;
const SIGXFSZ: i32 = 25;
const SIG_IGN: usize = 1;

fn set_fsize_soft_limit(cur: Option<u64>) {
    unsafe {
        let mut rl = RLimit { cur: 0, max: 0 };
        assert_eq!(getrlimit(RLIMIT_FSIZE, &mut rl), 0);
        rl.cur = cur.unwrap_or(rl.max);
        assert_eq!(setrlimit(RLIMIT_FSIZE, &rl), 0);
    }
}

/// What every caller in the code base does: create, write, close, with `?` on each step.
fn write_final_file(dest: &std::path::Path, payload: &[u8]) -> std::io::Result<()> {
    let mut f = SafeFileCreator::new(dest)?;
    f.write_all(payload)?; // <- fails half way; `f` is dropped by the early return
    f.close()?;
    Ok(())
}

#[test]
fn failed_write_must_not_publish_a_partial_file_under_the_final_name() {
    unsafe { signal(SIGXFSZ, SIG_IGN) };

    let dir = tempfile::tempdir().unwrap();
    let dest = dir.path().join("final_name.bin");
    let payload = vec![0xABu8; 64 * 1024];

    set_fsize_soft_limit(Some(20_000));
    let res = write_final_file(&dest, &payload);
    set_fsize_soft_limit(None);

    eprintln!("write result: {res:?}");
    assert!(res.is_err(), "the injected EFBIG must surface as an error");

    let listing: Vec<_> = std::fs::read_dir(dir.path())
        .unwrap()
        .map(|e| {
            let e = e.unwrap();
            (e.file_name().into_string().unwrap(), e.metadata().unwrap().len())
        })
        .collect();
    eprintln!("directory after the failed write: {listing:?}");

    // The property: an interrupted write never leaves a partial file under the final name.
    assert!(
        !dest.exists(),
        "DEFECT: the write failed ({:?}) but a partial file of {} bytes (payload is {} bytes) was renamed to the final name {:?}",
        res,
        std::fs::metadata(&dest).map(|m| m.len()).unwrap_or(0),
        payload.len(),
        dest
    );
}

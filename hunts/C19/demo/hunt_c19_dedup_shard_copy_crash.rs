//! C19 demo 4 (pure process-crash model): LocalClient::query_for_global_dedup_shard places the shard
//! into the shard cache directory with `std::fs::copy(src, <cache>/<hash>.mdb)` -- i.e. it creates the
//! FINAL hash-derived name first and fills it afterwards (cas_client/src/local_client.rs:374).  A
//! process stop between the open(O_CREAT|O_TRUNC) and the end of the copy leaves a truncated file
//! under the final name `<hash>.mdb`; on restart ShardFileManager::new_in_cache_directory on that
//! directory fails (or panics in the debug integrity check), so NOTHING in the shard cache is
//! retrievable any more -- including every shard that was there before.
//! (RemoteClient's implementation of the same call uses SafeFileCreator::new_unnamed + rename.)
//!
//! Copy to cas_client/tests/ and run:
//!   cargo test --offline -p cas_client --test hunt_c19_dedup_shard_copy_crash -- --nocapture --test-threads=1
//!
//! How the stop is injected: the test re-executes itself as a child process; the child lowers
//! RLIMIT_FSIZE and leaves SIGXFSZ at its default disposition, so the KERNEL KILLS the child inside
//! the write/copy_file_range system call that crosses the limit.  That is exactly the process-crash
//! model: all completed system calls persist, nothing after them runs (no destructors).  Linux only.
//!
//! A control test does the same to LocalClient::put (temp name + rename) and shows that a kill at the
//! same kind of point leaves only a dot-temp file there -- so the harness itself is not the culprit.

use std::path::{Path, PathBuf};
use std::process::Command;

use cas_client::{LocalClient, ShardClientInterface, UploadClient};
use mdb_shard::shard_format::test_routines::gen_random_shard_with_cas_references;
use mdb_shard::utils::parse_shard_filename;
use mdb_shard::{MDBShardInfo, ShardFileManager};
use merklehash::{compute_data_hash, MerkleHash};

#[repr(C)]
struct RLimit {
    cur: u64,
    max: u64,
}
extern "C" {
    fn getrlimit(resource: i32, rlim: *mut RLimit) -> i32;
    fn setrlimit(resource: i32, rlim: *const RLimit) -> i32;
}
const RLIMIT_FSIZE: i32 = 1;
const SIGXFSZ: i32 = 25;

fn set_fsize_soft_limit(cur: u64) {
    unsafe {
        let mut rl = RLimit { cur: 0, max: 0 };
        assert_eq!(getrlimit(RLIMIT_FSIZE, &mut rl), 0);
        rl.cur = cur;
        assert_eq!(setrlimit(RLIMIT_FSIZE, &rl), 0);
    }
}

const CHILD_ENV: &str = "HUNT_C19_CHILD_BASE";
const SALT: [u8; 32] = [1; 32];

fn list(dir: &Path) -> Vec<(String, u64)> {
    let mut v: Vec<_> = std::fs::read_dir(dir)
        .unwrap()
        .map(|e| {
            let e = e.unwrap();
            (e.file_name().into_string().unwrap(), e.metadata().unwrap().len())
        })
        .collect();
    v.sort();
    v
}

// supertrait methods (upload_shard / query_for_global_dedup_shard) are reachable through the bound
async fn upload<C: ShardClientInterface>(c: &C, hash: &MerkleHash, data: &[u8]) {
    c.upload_shard("default", hash, true, data, &SALT).await.unwrap();
}
async fn query<C: ShardClientInterface>(c: &C, chunk: &MerkleHash) -> Option<PathBuf> {
    c.query_for_global_dedup_shard("default", chunk, &SALT).await.unwrap()
}

/// Runs this very test again in a child process with CHILD_ENV set; returns the signal that killed it.
fn run_child(test_name: &str, base: &Path) -> Option<i32> {
    use std::os::unix::process::ExitStatusExt;
    let st = Command::new(std::env::current_exe().unwrap())
        .args(["--exact", test_name, "--nocapture", "--test-threads=1"])
        .env(CHILD_ENV, base)
        .status()
        .unwrap();
    eprintln!("child exit status: {st:?}");
    st.signal()
}

fn build_shard(scratch: &Path, seed: u64) -> (MerkleHash, Vec<u8>, MerkleHash) {
    std::fs::create_dir_all(scratch).unwrap();
    let shard = gen_random_shard_with_cas_references(seed, &[16; 8], &[2; 20], true, true).unwrap();
    let p = shard.write_to_directory(scratch).unwrap();
    let hash = parse_shard_filename(&p).unwrap();
    let bytes = std::fs::read(&p).unwrap();
    let dedup = MDBShardInfo::filter_cas_chunks_for_global_dedup(&mut std::io::Cursor::new(&bytes)).unwrap();
    assert!(!dedup.is_empty());
    (hash, bytes, dedup[0])
}

#[tokio::test(flavor = "multi_thread", worker_threads = 2)]
async fn crash_while_fetching_a_global_dedup_shard_into_the_shard_cache() {
    const NAME: &str = "crash_while_fetching_a_global_dedup_shard_into_the_shard_cache";

    // ---------------------------------------------------------------- child: the process that stops
    if let Ok(base) = std::env::var(CHILD_ENV) {
        let base = PathBuf::from(base);
        let client = LocalClient::new(base.join("store"), Some(base.join("shard_cache"))).unwrap();
        let (_h2, _b2, chunk2) = build_shard(&base.join("scratch2"), 2); // same seed => same shard as the parent uploaded
        set_fsize_soft_limit(4096); // SIGXFSZ stays at SIG_DFL: the kernel kills us inside the copy
        let _ = query(&client, &chunk2).await;
        eprintln!("child: query returned without being killed (unexpected)");
        std::process::exit(0);
    }

    // ---------------------------------------------------------------- parent
    let tmp = tempfile::tempdir().unwrap();
    let base = tmp.path().to_path_buf();
    let cache_dir = base.join("shard_cache");
    std::fs::create_dir_all(&cache_dir).unwrap();

    let (h1, b1, chunk1) = build_shard(&base.join("scratch1"), 1);
    let (h2, b2, _chunk2) = build_shard(&base.join("scratch2"), 2);

    // prior history: the store knows two shards; shard 1 was fetched into the shard cache earlier
    {
        let client = LocalClient::new(base.join("store"), Some(cache_dir.clone())).unwrap();
        upload(&client, &h1, &b1).await;
        upload(&client, &h2, &b2).await;
        let p = query(&client, &chunk1).await.unwrap();
        assert_eq!(std::fs::read(p).unwrap(), b1);
    }
    // before the interrupted operation the shard cache opens fine and shard 1's records are retrievable
    {
        let d = cache_dir.clone();
        let before = tokio::spawn(async move { ShardFileManager::new_in_session_directory(&d).await.map(|_| ()) }).await;
        eprintln!("shard cache BEFORE the interrupted fetch: {:?}; open -> {before:?}", list(&cache_dir));
        assert!(matches!(before, Ok(Ok(()))));
    }

    // the interrupted operation: fetch shard 2 into the cache, process killed inside the copy
    let sig = run_child(NAME, &base);
    assert_eq!(sig, Some(SIGXFSZ), "the child was expected to be killed by the kernel inside the copy");

    // ---------------------------------------------------------------- restart
    let after = list(&cache_dir);
    eprintln!("shard cache AFTER the process stop: {after:?}   (complete shard 2 has {} bytes)", b2.len());
    let final_name = format!("{}.mdb", h2.hex());
    let partial = after.iter().find(|(n, _)| *n == final_name).cloned();

    let d = cache_dir.clone();
    let reopened = tokio::spawn(async move { ShardFileManager::new_in_cache_directory(&d).await.map(|_| ()) }).await;
    let reopened_desc = match &reopened {
        Ok(Ok(())) => "Ok".to_string(),
        Ok(Err(e)) => format!("Err({e:?})"),
        Err(j) => format!("PANIC (is_panic = {})", j.is_panic()),
    };
    eprintln!("re-opening a ShardFileManager on the shard cache after restart -> {reopened_desc}");

    assert!(
        partial.as_ref().map_or(true, |(_, len)| *len == b2.len() as u64) && matches!(reopened, Ok(Ok(()))),
        "DEFECT: after a process stop inside query_for_global_dedup_shard the shard cache holds {partial:?} under the \
         final hash-derived name (complete shard: {} bytes); re-opening the directory -> {reopened_desc}, so shard {} \
         that was retrievable before is not retrievable either",
        b2.len(),
        h1.hex()
    );
}

/// Control: the same kind of kill inside LocalClient::put (temp name + rename) leaves no final-named xorb.
#[tokio::test(flavor = "multi_thread", worker_threads = 2)]
async fn control_crash_while_putting_a_xorb_leaves_only_a_temp_file() {
    const NAME: &str = "control_crash_while_putting_a_xorb_leaves_only_a_temp_file";
    let data: Vec<u8> = (0..128 * 1024u32).map(|i| (i.wrapping_mul(2654435761) >> 13) as u8).collect();
    let hash = compute_data_hash(&data);
    let chunks = vec![(compute_data_hash(&data[..65536]), 65536u32), (compute_data_hash(&data[65536..]), 131072u32)];

    if let Ok(base) = std::env::var(CHILD_ENV) {
        let client = LocalClient::new(PathBuf::from(base).join("store"), None).unwrap();
        set_fsize_soft_limit(50_000);
        let _ = client.put("default", &hash, data, chunks).await;
        std::process::exit(0);
    }

    let tmp = tempfile::tempdir().unwrap();
    drop(LocalClient::new(tmp.path().join("store"), None).unwrap());
    assert_eq!(run_child(NAME, tmp.path()), Some(SIGXFSZ));
    let after = list(&tmp.path().join("store").join("xorbs"));
    eprintln!("xorbs/ after the process stop: {after:?}");
    assert!(after.iter().all(|(n, _)| n.starts_with('.') && n.ends_with(".tmp")));
    let client = LocalClient::new(tmp.path().join("store"), None).unwrap();
    assert!(client.get_all_entries().unwrap().is_empty());
    client.put("default", &hash, data.clone(), chunks).await.unwrap();
    assert_eq!(client.get(&hash).unwrap(), data);
}

//! C19 demo 2: LocalClient::put (a xorb written to the local store) leaves a TRUNCATED xorb under the
//! final name `xorbs/default.<hash>` when the write is interrupted by an I/O error (or by a panic),
//! because the SafeFileCreator is dropped on the `?` path and its Drop impl renames whatever was
//! written so far to the destination.  After that the store is stuck: the file is visible under the
//! final name, cannot be read, and the same xorb can never be put again (`exists` errors out).
//!
//! Copy to cas_client/tests/ and run:
//!   cargo test --offline -p cas_client --test hunt_c19_local_xorb_put -- --nocapture --test-threads=1
//!
//! The write failure is produced by the kernel: RLIMIT_FSIZE (soft) is lowered and SIGXFSZ ignored,
//! so write(2) returns EFBIG after a short write -- the same shape as ENOSPC/EDQUOT/EIO.  Linux only.

use std::sync::Mutex;

use cas_client::{LocalClient, UploadClient};
use merklehash::{compute_data_hash, MerkleHash};

#[repr(C)]
struct RLimit {
    cur: u64,
    max: u64,
}
extern "C" {
    fn getrlimit(resource: i32, rlim: *mut RLimit) -> i32;
    fn setrlimit(resource: i32, rlim: *const RLimit) -> i32;
    fn signal(signum: i32, handler: usize) -> usize;
}
const RLIMIT_FSIZE: i32 = 1;
const SIGXFSZ: i32 = 25;
const SIG_IGN: usize = 1;

fn set_fsize_soft_limit(cur: Option<u64>) {
    unsafe {
        let mut rl = RLimit { cur: 0, max: 0 };
        assert_eq!(getrlimit(RLIMIT_FSIZE, &mut rl), 0);
        rl.cur = cur.unwrap_or(rl.max);
        assert_eq!(setrlimit(RLIMIT_FSIZE, &rl), 0);
    }
}

// the rlimit is process wide: never run the two tests at the same time
static SERIAL: Mutex<()> = Mutex::new(());

fn xorb_payload() -> (MerkleHash, Vec<u8>) {
    let data: Vec<u8> = (0..128 * 1024u32).map(|i| (i.wrapping_mul(2654435761) >> 13) as u8).collect();
    (compute_data_hash(&data), data)
}

fn list(dir: &std::path::Path) -> Vec<(String, u64)> {
    let mut v: Vec<_> = std::fs::read_dir(dir)
        .unwrap()
        .map(|e| {
            let e = e.unwrap();
            (e.file_name().into_string().unwrap(), e.metadata().unwrap().len())
        })
        .collect();
    v.sort();
    v
}

#[tokio::test(flavor = "multi_thread", worker_threads = 2)]
async fn io_error_during_put_must_not_leave_a_partial_xorb_under_the_final_name() {
    let _g = SERIAL.lock().unwrap_or_else(|e| e.into_inner());
    unsafe { signal(SIGXFSZ, SIG_IGN) };

    let base = tempfile::tempdir().unwrap();
    let client = LocalClient::new(base.path(), None).unwrap();
    let xorb_dir = base.path().join("xorbs");

    // one legitimate xorb: two chunks of 64 KiB
    let (hash, data) = xorb_payload();
    let c0 = compute_data_hash(&data[..65536]);
    let c1 = compute_data_hash(&data[65536..]);
    let chunks = vec![(c0, 65536u32), (c1, 131072u32)];

    // --- the interrupted write ---
    set_fsize_soft_limit(Some(50_000));
    let res = client.put("default", &hash, data.clone(), chunks.clone()).await;
    set_fsize_soft_limit(None);
    eprintln!("put under the injected write failure: {res:?}");
    assert!(res.is_err(), "the injected failure must surface");

    let after = list(&xorb_dir);
    eprintln!("xorbs/ after the failed put: {after:?}");
    let final_name = format!("default.{hash:?}");
    let published = after.iter().find(|(n, _)| *n == final_name).cloned();

    // --- "restart": a fresh client on the same directory; the failure condition is gone ---
    drop(client);
    let client = LocalClient::new(base.path(), None).unwrap();
    let entries = client.get_all_entries().unwrap();
    let get_res = client.get(&hash);
    let reput = client.put("default", &hash, data.clone(), chunks.clone()).await;
    eprintln!("after restart: get_all_entries() = {entries:?}");
    eprintln!("after restart: get(hash) = {:?}", get_res.as_ref().map(|d| d.len()));
    eprintln!("after restart: put(hash) again = {reput:?}");

    assert!(
        published.is_none(),
        "DEFECT: the put failed, yet a partial xorb {:?} (complete one is > {} bytes) is visible under its final name; \
         the store lists it ({} entries), get() -> {:?}, and a retried put() -> {:?}",
        published,
        data.len(),
        entries.len(),
        get_res.as_ref().map(|d| d.len()),
        reput
    );
    // if nothing was published the retried put must simply have worked
    assert!(reput.is_ok());
    assert_eq!(client.get(&hash).unwrap(), data);
}

#[tokio::test(flavor = "multi_thread", worker_threads = 2)]
async fn panic_during_put_must_not_leave_a_partial_xorb_under_the_final_name() {
    let _g = SERIAL.lock().unwrap_or_else(|e| e.into_inner());

    let base = tempfile::tempdir().unwrap();
    let client = std::sync::Arc::new(LocalClient::new(base.path(), None).unwrap());
    let xorb_dir = base.path().join("xorbs");

    let (hash, data) = xorb_payload();
    let c = compute_data_hash(&data[..10]);
    // boundaries that pass put()'s own validation (last == data.len()) but are not monotonic:
    // CasObject::serialize writes chunk 0 and then panics slicing chunk 1.
    let chunks = vec![(c, 65536u32), (c, 10u32), (c, 131072u32)];

    let cl = client.clone();
    let d = data.clone();
    let jh = tokio::spawn(async move { cl.put("default", &hash, d, chunks).await });
    let res = jh.await;
    eprintln!("put with the interrupting panic: is_panic = {:?}", res.as_ref().err().map(|e| e.is_panic()));
    assert!(res.is_err(), "expected the put task to be interrupted by a panic");

    let after = list(&xorb_dir);
    eprintln!("xorbs/ after the interrupted put: {after:?}");
    let final_name = format!("default.{hash:?}");
    let published = after.iter().find(|(n, _)| *n == final_name).cloned();
    assert!(
        published.is_none(),
        "DEFECT: the put was interrupted by a panic, yet a partial xorb {published:?} is visible under its final name; get() -> {:?}",
        client.get(&hash).map(|d| d.len())
    );
}

//! C19 demo 3: DiskCache::put (an item inserted into the chunk cache) leaves a TRUNCATED cache file
//! under a final item name (the name encodes range, length and crc32) when the write is interrupted
//! by an I/O error: `fw.write_all(data)?` returns early, the SafeFileCreator is dropped and its Drop
//! impl renames the partial temp file to the final name.
//!
//! Copy to chunk_cache/tests/ and run:
//!   cargo test --offline -p chunk_cache --test hunt_c19_cache_put -- --nocapture
//!
//! The write failure is produced by the kernel: RLIMIT_FSIZE (soft) is lowered and SIGXFSZ ignored,
//! so write(2) returns EFBIG after a short write -- the same shape as ENOSPC/EDQUOT/EIO.  Linux only.

use base64::engine::general_purpose::URL_SAFE;
use base64::Engine;
use cas_types::{ChunkRange, Key};
use chunk_cache::{CacheConfig, ChunkCache, DiskCache};
use merklehash::MerkleHash;

#[repr(C)]
struct RLimit {
    cur: u64,
    max: u64,
}
extern "C" {
    fn getrlimit(resource: i32, rlim: *mut RLimit) -> i32;
    fn setrlimit(resource: i32, rlim: *const RLimit) -> i32;
    fn signal(signum: i32, handler: usize) -> usize;
}
const RLIMIT_FSIZE: i32 = 1;
const SIGXFSZ: i32 = 25;
const SIG_IGN: usize = 1;

fn set_fsize_soft_limit(cur: Option<u64>) {
    unsafe {
        let mut rl = RLimit { cur: 0, max: 0 };
        assert_eq!(getrlimit(RLIMIT_FSIZE, &mut rl), 0);
        rl.cur = cur.unwrap_or(rl.max);
        assert_eq!(setrlimit(RLIMIT_FSIZE, &rl), 0);
    }
}

/// every regular file below the cache root: (relative path, file name, on-disk length)
fn walk(root: &std::path::Path) -> Vec<(String, String, u64)> {
    let mut out = vec![];
    let mut stack = vec![root.to_path_buf()];
    while let Some(d) = stack.pop() {
        for e in std::fs::read_dir(&d).unwrap() {
            let e = e.unwrap();
            let md = e.metadata().unwrap();
            if md.is_dir() {
                stack.push(e.path());
            } else {
                out.push((
                    e.path().strip_prefix(root).unwrap().display().to_string(),
                    e.file_name().into_string().unwrap(),
                    md.len(),
                ));
            }
        }
    }
    out
}

/// decodes a final cache item name: base64(start u32, end u32, len u64, crc32 u32), little endian
fn parse_item_name(name: &str) -> Option<(u32, u32, u64, u32)> {
    let b = URL_SAFE.decode(name).ok()?;
    if b.len() != 20 {
        return None;
    }
    Some((
        u32::from_le_bytes(b[0..4].try_into().unwrap()),
        u32::from_le_bytes(b[4..8].try_into().unwrap()),
        u64::from_le_bytes(b[8..16].try_into().unwrap()),
        u32::from_le_bytes(b[16..20].try_into().unwrap()),
    ))
}

#[test]
fn io_error_during_cache_put_must_not_leave_a_partial_file_under_a_final_item_name() {
    unsafe { signal(SIGXFSZ, SIG_IGN) };

    let root = tempfile_dir();
    let cache = DiskCache::initialize(&CacheConfig {
        cache_directory: root.clone(),
        cache_size: 1 << 30,
    })
    .unwrap();

    let key = Key {
        prefix: "default".into(),
        hash: MerkleHash::from([7u64, 8, 9, 10]),
    };
    let range = ChunkRange { start: 0, end: 2 };
    let data: Vec<u8> = (0..128 * 1024u32).map(|i| (i.wrapping_mul(2654435761) >> 11) as u8).collect();
    let offsets = [0u32, 65536, 131072];

    // --- the interrupted write ---
    set_fsize_soft_limit(Some(50_000));
    let res = cache.put(&key, &range, &offsets, &data);
    set_fsize_soft_limit(None);
    eprintln!("put under the injected write failure: {res:?}");
    assert!(res.is_err(), "the injected failure must surface");

    // --- what is on disk now (this is what a restarted process finds) ---
    let files = walk(&root);
    eprintln!("cache directory after the failed put: {files:?}");
    let mut bad = vec![];
    for (rel, name, len) in &files {
        if let Some((s, e, name_len, crc)) = parse_item_name(name) {
            // a file under a FINAL item name
            let bytes = std::fs::read(root.join(rel)).unwrap();
            let real_crc = crc32(&bytes);
            eprintln!(
                "final-named item {rel}: name says range {s}-{e}, len {name_len}, crc {crc}; file has len {len}, crc {real_crc}"
            );
            if *len != name_len || real_crc != crc {
                bad.push((rel.clone(), name_len, *len));
            }
        }
    }
    let _ = std::fs::remove_dir_all(&root);
    assert!(
        bad.is_empty(),
        "DEFECT: the put failed, yet a partial cache file is visible under a final item name, inconsistent with the \
         length/checksum in that name: (path, length in name, real length) = {bad:?}"
    );
}

fn tempfile_dir() -> std::path::PathBuf {
    let p = std::env::temp_dir().join(format!("hunt_c19_cache_{}", std::process::id()));
    let _ = std::fs::remove_dir_all(&p);
    std::fs::create_dir_all(&p).unwrap();
    p
}

// small table-less crc32 (IEEE), to avoid depending on crates that are not dependencies of chunk_cache's tests
fn crc32(data: &[u8]) -> u32 {
    let mut crc = 0xFFFF_FFFFu32;
    for &b in data {
        crc ^= b as u32;
        for _ in 0..8 {
            let mask = (!(crc & 1)).wrapping_add(1);
            crc = (crc >> 1) ^ (0xEDB8_8320 & mask);
        }
    }
    !crc
}

// LD_PRELOAD shim: process-crash injection. After the program "arms" the shim by calling
// access("/__arm__", 0), every file-system effect (creating open, write to a regular file, rename,
// unlink, mkdir, rmdir, chmod, truncate) is counted; the process _exit(77)s right BEFORE effect
// number $CRASH_AT.  access("/__disarm__",0) stops counting.  With CRASH_AT=0 it only counts and
// prints the total to the file named by $CRASH_COUNT_FILE at disarm.
#define _GNU_SOURCE
#include <dlfcn.h>
#include <fcntl.h>
#include <stdarg.h>
#include <stdio.h>
#include <stdlib.h>
#include <string.h>
#include <sys/stat.h>
#include <sys/uio.h>
#include <unistd.h>
#include <pthread.h>

static int armed = 0;
static long count = 0;
static long crash_at = -1;
static pthread_mutex_t mu = PTHREAD_MUTEX_INITIALIZER;

static void effect(const char *what, const char *path) {
    if (!armed) return;
    pthread_mutex_lock(&mu);
    if (crash_at < 0) { const char *e = getenv("CRASH_AT"); crash_at = e ? atol(e) : 0; }
    count++;
    if (getenv("CRASH_TRACE")) { fprintf(stderr, "[shim] #%ld %s %s\n", count, what, path ? path : ""); }
    if (crash_at > 0 && count == crash_at) { _exit(77); }
    pthread_mutex_unlock(&mu);
}

int access(const char *path, int mode) {
    static int (*real)(const char *, int);
    if (!real) real = dlsym(RTLD_NEXT, "access");
    if (path && strcmp(path, "/__arm__") == 0) { armed = 1; return 0; }
    if (path && strcmp(path, "/__disarm__") == 0) {
        armed = 0;
        const char *f = getenv("CRASH_COUNT_FILE");
        if (f) { FILE *o = fopen(f, "w"); if (o) { fprintf(o, "%ld\n", count); fclose(o); } }
        return 0;
    }
    return real(path, mode);
}

static int isreg(int fd) { struct stat st; return fd > 2 && fstat(fd, &st) == 0 && S_ISREG(st.st_mode); }

#define OPEN_IMPL(NAME) \
int NAME(const char *path, int flags, ...) { \
    static int (*real)(const char *, int, ...); \
    if (!real) real = dlsym(RTLD_NEXT, #NAME); \
    mode_t mode = 0; \
    if (flags & (O_CREAT | O_TMPFILE)) { va_list ap; va_start(ap, flags); mode = va_arg(ap, mode_t); va_end(ap); } \
    if (flags & (O_CREAT | O_TRUNC)) effect(#NAME, path); \
    return real(path, flags, mode); \
}
OPEN_IMPL(open)
OPEN_IMPL(open64)

#define OPENAT_IMPL(NAME) \
int NAME(int dfd, const char *path, int flags, ...) { \
    static int (*real)(int, const char *, int, ...); \
    if (!real) real = dlsym(RTLD_NEXT, #NAME); \
    mode_t mode = 0; \
    if (flags & (O_CREAT | O_TMPFILE)) { va_list ap; va_start(ap, flags); mode = va_arg(ap, mode_t); va_end(ap); } \
    if (flags & (O_CREAT | O_TRUNC)) effect(#NAME, path); \
    return real(dfd, path, flags, mode); \
}
OPENAT_IMPL(openat)
OPENAT_IMPL(openat64)

ssize_t write(int fd, const void *buf, size_t n) {
    static ssize_t (*real)(int, const void *, size_t);
    if (!real) real = dlsym(RTLD_NEXT, "write");
    if (armed && isreg(fd)) effect("write", NULL);
    return real(fd, buf, n);
}
ssize_t writev(int fd, const struct iovec *iov, int c) {
    static ssize_t (*real)(int, const struct iovec *, int);
    if (!real) real = dlsym(RTLD_NEXT, "writev");
    if (armed && isreg(fd)) effect("writev", NULL);
    return real(fd, iov, c);
}
ssize_t pwrite(int fd, const void *buf, size_t n, off_t off) {
    static ssize_t (*real)(int, const void *, size_t, off_t);
    if (!real) real = dlsym(RTLD_NEXT, "pwrite");
    if (armed && isreg(fd)) effect("pwrite", NULL);
    return real(fd, buf, n, off);
}
ssize_t pwrite64(int fd, const void *buf, size_t n, off64_t off) {
    static ssize_t (*real)(int, const void *, size_t, off64_t);
    if (!real) real = dlsym(RTLD_NEXT, "pwrite64");
    if (armed && isreg(fd)) effect("pwrite64", NULL);
    return real(fd, buf, n, off);
}
int rename(const char *a, const char *b) {
    static int (*real)(const char *, const char *);
    if (!real) real = dlsym(RTLD_NEXT, "rename");
    effect("rename", b);
    return real(a, b);
}
int unlink(const char *a) {
    static int (*real)(const char *);
    if (!real) real = dlsym(RTLD_NEXT, "unlink");
    effect("unlink", a);
    return real(a);
}
int unlinkat(int d, const char *a, int f) {
    static int (*real)(int, const char *, int);
    if (!real) real = dlsym(RTLD_NEXT, "unlinkat");
    effect("unlinkat", a);
    return real(d, a, f);
}
int mkdir(const char *a, mode_t m) {
    static int (*real)(const char *, mode_t);
    if (!real) real = dlsym(RTLD_NEXT, "mkdir");
    effect("mkdir", a);
    return real(a, m);
}
int rmdir(const char *a) {
    static int (*real)(const char *);
    if (!real) real = dlsym(RTLD_NEXT, "rmdir");
    effect("rmdir", a);
    return real(a);
}
int chmod(const char *a, mode_t m) {
    static int (*real)(const char *, mode_t);
    if (!real) real = dlsym(RTLD_NEXT, "chmod");
    effect("chmod", a);
    return real(a, m);
}
int ftruncate64(int fd, off64_t l) {
    static int (*real)(int, off64_t);
    if (!real) real = dlsym(RTLD_NEXT, "ftruncate64");
    effect("ftruncate64", NULL);
    return real(fd, l);
}

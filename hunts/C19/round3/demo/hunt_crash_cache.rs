// Crash-point enumeration for DiskCache::put (driven by OUT/demo/run_crash.py with the LD_PRELOAD shim).
// HUNT_MODE=child  : build a prior history, arm the shim, run the operations under test.
// HUNT_MODE=verify : reopen the cache directory and check property C19.
use std::ffi::CString;
use std::path::{Path, PathBuf};

use base64::Engine;
use cas_types::{ChunkRange, Key};
use chunk_cache::{CacheConfig, ChunkCache, DiskCache};
use merklehash::compute_data_hash;

extern "C" {
    fn access(path: *const std::os::raw::c_char, mode: i32) -> i32;
}
fn shim(p: &str) {
    let c = CString::new(p).unwrap();
    unsafe {
        access(c.as_ptr(), 0);
    }
}

fn key(i: u8) -> Key {
    Key {
        prefix: "default".into(),
        hash: compute_data_hash(&[i; 8]),
    }
}

fn chunk(i: u8, j: u32) -> Vec<u8> {
    vec![(i as u32 * 31 + j) as u8; 10 + j as usize + 1500 * (i as usize)]
}

fn range_data(i: u8, s: u32, e: u32) -> (Vec<u32>, Vec<u8>) {
    let mut idx = vec![0u32];
    let mut data = vec![];
    for j in s..e {
        data.extend(chunk(i, j));
        idx.push(data.len() as u32);
    }
    (idx, data)
}

fn put(c: &DiskCache, i: u8, s: u32, e: u32) {
    let (idx, data) = range_data(i, s, e);
    c.put(&key(i), &ChunkRange { start: s, end: e }, &idx, &data).unwrap();
}

fn prior() -> Vec<(u8, u32, u32)> {
    vec![(1, 0, 3), (1, 3, 5), (2, 0, 2), (1, 6, 8), (4, 0, 1)]
}
fn under_test() -> Vec<(u8, u32, u32)> {
    vec![(1, 0, 5), (3, 1, 4), (2, 0, 4), (1, 2, 7), (4, 0, 1), (5, 0, 9)]
}

fn walk(dir: &Path, out: &mut Vec<PathBuf>) {
    for e in std::fs::read_dir(dir).unwrap() {
        let e = e.unwrap();
        if e.file_type().unwrap().is_dir() {
            walk(&e.path(), out);
        } else {
            out.push(e.path());
        }
    }
}

#[test]
fn hunt_entry() {
    let Ok(mode) = std::env::var("HUNT_MODE") else { return };
    let dir = PathBuf::from(std::env::var("HUNT_DIR").unwrap());
    let cap: u64 = std::env::var("HUNT_CAP").map(|s| s.parse().unwrap()).unwrap_or(1 << 30);
    let cfg = CacheConfig {
        cache_directory: dir.clone(),
        cache_size: cap,
    };
    if mode == "child" {
        let c = DiskCache::initialize(&cfg).unwrap();
        for (i, s, e) in prior() {
            put(&c, i, s, e);
        }
        shim("/__arm__");
        for (i, s, e) in under_test() {
            put(&c, i, s, e);
        }
        shim("/__disarm__");
        return;
    }
    // verify
    // 1. every file visible under a final name is complete and consistent with its name
    let mut files = vec![];
    walk(&dir, &mut files);
    for f in &files {
        let name = f.file_name().unwrap().to_str().unwrap();
        if name.starts_with('.') && name.ends_with(".tmp") {
            continue; // temp
        }
        let buf = base64::engine::general_purpose::URL_SAFE.decode(name).expect("final name decodes");
        assert_eq!(buf.len(), 20, "{f:?}");
        let len = u64::from_le_bytes(buf[8..16].try_into().unwrap());
        let crc = u32::from_le_bytes(buf[16..20].try_into().unwrap());
        let content = std::fs::read(f).unwrap();
        assert_eq!(content.len() as u64, len, "length of {f:?}");
        assert_eq!(crc32fast::hash(&content), crc, "checksum of {f:?}");
    }
    // 2. reopen
    let c = DiskCache::initialize(&cfg).expect("reopen");
    let evicting = cap < (1 << 20);
    for (i, s, e) in prior() {
        let r = c.get(&key(i), &ChunkRange { start: s, end: e }).expect("get");
        match r {
            Some(cr) => {
                let (idx, data) = range_data(i, s, e);
                assert_eq!(&cr.data[..], &data[..]);
                assert_eq!(&cr.offsets[..], &idx[..]);
            },
            None => assert!(evicting, "range {i}:{s}-{e} retrievable before the interrupted put is lost"),
        }
    }
    for (i, s, e) in under_test() {
        if let Some(cr) = c.get(&key(i), &ChunkRange { start: s, end: e }).expect("get") {
            let (_, data) = range_data(i, s, e);
            assert_eq!(&cr.data[..], &data[..]);
        }
    }
    // 3. the cache keeps working: redo the operations
    for (i, s, e) in under_test() {
        put(&c, i, s, e);
    }
    if !evicting {
        for (i, s, e) in prior().into_iter().chain(under_test()) {
            assert!(c.get(&key(i), &ChunkRange { start: s, end: e }).unwrap().is_some());
        }
    }
    // 4. leftover temporaries cleaned up (or at least not counted)
    let mut files = vec![];
    walk(&dir, &mut files);
    for f in &files {
        let name = f.file_name().unwrap().to_str().unwrap();
        // a leftover temp larger than the whole capacity is skipped (ignored) by the scan, which the property allows
        let ignored = std::fs::metadata(f).unwrap().len() > cap;
        assert!(ignored || !name.ends_with(".tmp"), "leftover temp {f:?} after reopen");
    }
}

// Crash-point enumeration for LocalClient::put / upload_shard (driven by OUT/demo/run_crash.py with the shim).
use std::ffi::CString;
use std::path::PathBuf;

use cas_client::{Client, LocalClient};
use mdb_shard::shard_file_reconstructor::FileReconstructor;
use mdb_shard::shard_format::test_routines::{convert_to_file, gen_specific_shard, simple_hash};
use merklehash::{compute_data_hash, MerkleHash};

extern "C" {
    fn access(path: *const std::os::raw::c_char, mode: i32) -> i32;
}
fn shim(p: &str) {
    let c = CString::new(p).unwrap();
    unsafe {
        access(c.as_ptr(), 0);
    }
}

fn xorb(k: u8) -> (MerkleHash, Vec<u8>, Vec<(MerkleHash, u32)>) {
    let mut data = vec![];
    let mut cb = vec![];
    for j in 0..8u32 {
        let c: Vec<u8> = (0..5000 + j * 13).map(|x| (x as u8).wrapping_mul(k).wrapping_add(j as u8)).collect();
        data.extend(&c);
        cb.push((compute_data_hash(&c), data.len() as u32));
    }
    (compute_data_hash(&data), data, cb)
}

fn shard(k: u64) -> (MerkleHash, Vec<u8>) {
    let chunks: Vec<(u64, u32)> = (0..300).map(|j| (10_000 * (k + 1) + j, 10 + j as u32)).collect();
    let s = gen_specific_shard(&[(100 + k, &chunks[..])], &[(500 + k, &[(100 + k, (0, 50))])], None, None).unwrap();
    let b = convert_to_file(&s).unwrap();
    (compute_data_hash(&b), b)
}

async fn do_put<C: Client>(c: &C, k: u8) {
    let (h, d, cb) = xorb(k);
    c.put("default", &h, d, cb).await.unwrap();
}
async fn do_shard<C: Client>(c: &C, k: u64) {
    let (h, b) = shard(k);
    c.upload_shard("default", &h, false, &b, &[0u8; 32]).await.unwrap();
}

#[test]
fn hunt_entry() {
    let Ok(mode) = std::env::var("HUNT_MODE") else { return };
    let dir = PathBuf::from(std::env::var("HUNT_DIR").unwrap());
    let rt = tokio::runtime::Builder::new_multi_thread().worker_threads(1).enable_all().build().unwrap();
    let m = mode.clone();
    let d = dir.clone();
    rt.block_on(async move {
        let h = tokio::spawn(async move {
            if m == "child" {
                let c = LocalClient::new(&d, None).unwrap();
                do_put(&c, 1).await;
                do_shard(&c, 1).await;
                shim("/__arm__");
                do_put(&c, 2).await;
                do_shard(&c, 2).await;
                do_put(&c, 1).await;
                do_put(&c, 3).await;
                shim("/__disarm__");
                return;
            }
            // every file under a final name is complete
            for e in std::fs::read_dir(d.join("xorbs")).unwrap() {
                let p = e.unwrap().path();
                let name = p.file_name().unwrap().to_str().unwrap().to_string();
                if name.starts_with('.') && name.ends_with(".tmp") {
                    continue;
                }
                let hex = name.strip_prefix("default.").expect("final xorb name");
                let hash = MerkleHash::from_hex(hex).unwrap();
                let mut r = std::io::BufReader::new(std::fs::File::open(&p).unwrap());
                let cas = cas_object::CasObject::deserialize(&mut r).expect("xorb footer");
                assert_eq!(cas.info.cashash, hash);
                let all = cas.get_all_bytes(&mut r).expect("xorb body");
                assert_eq!(compute_data_hash(&all), hash, "xorb {name} content");
            }
            for e in std::fs::read_dir(d.join("shards")).unwrap() {
                let p = e.unwrap().path();
                let name = p.file_name().unwrap().to_str().unwrap().to_string();
                if name.ends_with(".mdb") {
                    let data = std::fs::read(&p).unwrap();
                    assert_eq!(format!("{}.mdb", compute_data_hash(&data).hex()), name);
                }
            }
            let c = LocalClient::new(&d, None).expect("reopen");
            let (h, data, _) = xorb(1);
            assert_eq!(c.get(&h).expect("xorb 1 retrievable"), data);
            assert!(c.get_file_reconstruction_info(&simple_hash(501)).await.unwrap().is_some(), "file 501 lost");
            for k in c.get_all_entries().unwrap() {
                c.get(&k.hash).expect("listed entry readable");
            }
            // and it keeps working
            do_put(&c, 2).await;
            do_shard(&c, 2).await;
            do_put(&c, 3).await;
            assert_eq!(c.get(&xorb(2).0).unwrap(), xorb(2).1);
            assert!(c.get_file_reconstruction_info(&simple_hash(502)).await.unwrap().is_some());
        });
        h.await.unwrap();
    });
}

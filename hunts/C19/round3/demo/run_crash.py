#!/usr/bin/env python3
"""Crash-point enumeration driver.
usage: run_crash.py <test-binary> [ENV=VAL ...]
For N = 1, 2, ...: run the binary in child mode under the shim with CRASH_AT=N in a fresh directory
(the child _exit(77)s right before its N-th file-system effect after arming), then run the binary in
verify mode (no shim) on the directory left behind.  Stops when the child survives (N > #effects)."""
import os, shutil, subprocess, sys, tempfile

here = os.path.dirname(os.path.abspath(__file__))
shim = os.environ.get("SHIM", os.path.join(here, "..", "work", "crashshim.so"))
binary = sys.argv[1]
extra = dict(a.split("=", 1) for a in sys.argv[2:])
fails = 0
n = 1
while True:
    d = tempfile.mkdtemp(prefix="c19crash")
    env = dict(os.environ, **extra, HUNT_MODE="child", HUNT_DIR=d, CRASH_AT=str(n), LD_PRELOAD=shim)
    r = subprocess.run([binary, "hunt_entry", "--nocapture", "--test-threads=1"], env=env,
                       stdout=subprocess.PIPE, stderr=subprocess.STDOUT)
    crashed = r.returncode == 77
    if not crashed and r.returncode != 0:
        print(f"N={n}: child failed rc={r.returncode}\n{r.stdout.decode()[-3000:]}")
        fails += 1
    env = dict(os.environ, **extra, HUNT_MODE="verify", HUNT_DIR=d)
    v = subprocess.run([binary, "hunt_entry", "--nocapture", "--test-threads=1"], env=env,
                       stdout=subprocess.PIPE, stderr=subprocess.STDOUT)
    if v.returncode != 0:
        fails += 1
        print(f"N={n}: VERIFY FAILED (crashed={crashed})\n{v.stdout.decode()[-3000:]}")
        if os.environ.get("KEEP"):
            print("kept", d)
            d = None
    if d:
        shutil.rmtree(d, ignore_errors=True)
    if not crashed:
        break
    n += 1
print(f"crash points explored: {n - 1}; failures: {fails}")
sys.exit(1 if fails else 0)

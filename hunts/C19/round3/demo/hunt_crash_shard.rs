// Crash-point enumeration for ShardFileManager::flush + consolidate_shards_in_directory
// (driven by OUT/demo/run_crash.py with the LD_PRELOAD shim).
use std::ffi::CString;
use std::path::PathBuf;

use mdb_shard::file_structs::MDBFileInfo;
use mdb_shard::session_directory::consolidate_shards_in_directory;
use mdb_shard::shard_file_reconstructor::FileReconstructor;
use mdb_shard::shard_format::test_routines::gen_specific_shard;
use mdb_shard::shard_in_memory::MDBInMemoryShard;
use mdb_shard::{MDBShardInfo, ShardFileManager};
use merklehash::compute_data_hash;

extern "C" {
    fn access(path: *const std::os::raw::c_char, mode: i32) -> i32;
}
fn shim(p: &str) {
    let c = CString::new(p).unwrap();
    unsafe {
        access(c.as_ptr(), 0);
    }
}

fn spec(k: u64) -> MDBInMemoryShard {
    // xorb 100+k with 300 chunks; file 500+k over it; plus (k>0) file 500 again with other optional parts
    let chunks: Vec<(u64, u32)> = (0..300).map(|j| (10_000 * (k + 1) + j, 10 + j as u32)).collect();
    let cas = [(100 + k, &chunks[..])];
    let mut s = gen_specific_shard(&cas, &[(500 + k, &[(100 + k, (0, 50)), (100 + k, (60, 70))])], None, None).unwrap();
    if k == 1 {
        let t = gen_specific_shard(&[], &[(500, &[(100, (0, 50)), (100, (60, 70))])], None, Some(&[77])).unwrap();
        for fi in t.file_content.values() {
            s.add_file_reconstruction_info(fi.clone()).unwrap();
        }
    }
    if k == 2 {
        let t = gen_specific_shard(&[], &[(500, &[(100, (0, 50)), (100, (60, 70))])], Some(&[&[5, 6]]), None).unwrap();
        for fi in t.file_content.values() {
            s.add_file_reconstruction_info(fi.clone()).unwrap();
        }
    }
    s
}

async fn add(sfm: &ShardFileManager, s: &MDBInMemoryShard) {
    for c in s.cas_content.values() {
        sfm.add_cas_block((**c).clone()).await.unwrap();
    }
    for f in s.file_content.values() {
        sfm.add_file_reconstruction_info(f.clone()).await.unwrap();
    }
}

async fn check_present(sfm: &ShardFileManager, s: &MDBInMemoryShard, what: &str) {
    for (h, f) in s.file_content.iter() {
        let got: Option<(MDBFileInfo, _)> = sfm.get_file_reconstruction_info(h).await.unwrap();
        let (got, _) = got.unwrap_or_else(|| panic!("{what}: file {h:?} lost"));
        assert_eq!(got.segments, f.segments, "{what}");
    }
    for c in s.cas_content.values() {
        let q: Vec<_> = c.chunks.iter().map(|c| c.chunk_hash).collect();
        let r = sfm.chunk_hash_dedup_query(&q[3..9]).await.unwrap();
        let (n, fse) = r.unwrap_or_else(|| panic!("{what}: chunks of {:?} lost", c.metadata.cas_hash));
        assert_eq!(n, 6);
        assert_eq!(fse.cas_hash, c.metadata.cas_hash);
    }
}

fn check_files(dir: &PathBuf) {
    for e in std::fs::read_dir(dir).unwrap() {
        let p = e.unwrap().path();
        let name = p.file_name().unwrap().to_str().unwrap().to_string();
        if name.ends_with(".mdb") {
            let data = std::fs::read(&p).unwrap();
            assert_eq!(format!("{}.mdb", compute_data_hash(&data).hex()), name, "content hash of {p:?}");
            MDBShardInfo::load_from_reader(&mut std::io::Cursor::new(&data)).expect("shard loads");
        } else {
            assert!(name.starts_with('.') && name.ends_with(".mdb_temp"), "unexpected file {name}");
        }
    }
}

#[test]
fn hunt_entry() {
    let Ok(mode) = std::env::var("HUNT_MODE") else { return };
    let dir = PathBuf::from(std::env::var("HUNT_DIR").unwrap());
    let target: u64 = std::env::var("HUNT_TARGET").map(|s| s.parse().unwrap()).unwrap_or(1 << 30);
    let rt = tokio::runtime::Builder::new_current_thread().enable_all().build().unwrap();
    rt.block_on(async {
        if mode == "child" {
            let sfm = ShardFileManager::new_in_session_directory(&dir).await.unwrap();
            add(&sfm, &spec(0)).await;
            sfm.flush().await.unwrap();
            std::thread::sleep(std::time::Duration::from_millis(20));
            add(&sfm, &spec(1)).await;
            sfm.flush().await.unwrap();
            std::thread::sleep(std::time::Duration::from_millis(20));
            shim("/__arm__");
            add(&sfm, &spec(2)).await;
            sfm.flush().await.unwrap();
            consolidate_shards_in_directory(&dir, target).unwrap();
            std::thread::sleep(std::time::Duration::from_millis(20));
            let sfm = ShardFileManager::new_in_session_directory(&dir).await.unwrap();
            add(&sfm, &spec(3)).await;
            sfm.flush().await.unwrap();
            consolidate_shards_in_directory(&dir, target).unwrap();
            shim("/__disarm__");
            return;
        }
        check_files(&dir);
        let sfm = ShardFileManager::new_in_session_directory(&dir).await.expect("reopen");
        check_present(&sfm, &spec(0), "reopen").await;
        check_present(&sfm, &spec(1), "reopen").await;
        drop(sfm);
        // recovery: run the consolidation again on what was left behind
        let l = consolidate_shards_in_directory(&dir, target).expect("consolidate after restart");
        let mut hs: Vec<_> = l.iter().map(|s| s.shard_hash).collect();
        let n = hs.len();
        hs.sort();
        hs.dedup();
        if hs.len() != n {
            eprintln!("NOTE: consolidate returned the same shard more than once ({n} entries, {} distinct)", hs.len());
        }
        for s in &l {
            assert!(s.path.exists(), "returned shard {:?} does not exist", s.path);
        }
        check_files(&dir);
    });
    // reopen in this process is served from the process-wide shard cache for paths seen above, which is
    // fine for shards (content addressed).
    rt.block_on(async {
        if mode != "child" {
            let sfm = ShardFileManager::new_in_session_directory(&dir).await.expect("reopen 2");
            check_present(&sfm, &spec(0), "after re-consolidation").await;
            check_present(&sfm, &spec(1), "after re-consolidation").await;
        }
    });
}

// Crash-point lab for the disk chunk cache (property C19).
// Copy to chunk_cache/examples/hunt_cache.rs ; driven by OUT/demo/sweep.sh (strace SIGKILL injection).
//
//   hunt_cache put   <dir> <capacity> <key:start:end> ...   initialize the cache and put the ranges in order
//   hunt_cache check <dir> <capacity> <key:start:end> ...   initialize (restart), then: every file under a key
//        directory has a valid name, the length and the checksum of its name; no temporary file is left;
//        every listed range is served with the right bytes
use std::path::PathBuf;

use base64::engine::general_purpose::URL_SAFE;
use base64::Engine;
use cas_types::{ChunkRange, Key};
use chunk_cache::{CacheConfig, ChunkCache, DiskCache};
use merklehash::compute_data_hash;

fn key(i: u32) -> Key {
    Key {
        prefix: "default".into(),
        hash: compute_data_hash(format!("key-{i}").as_bytes()),
    }
}

fn range_data(k: u32, start: u32, end: u32) -> (Vec<u32>, Vec<u8>) {
    let mut offsets = vec![0u32];
    let mut data = vec![];
    for c in start..end {
        let len = 100 + (c % 7) as usize;
        data.extend(std::iter::repeat((k * 31 + c) as u8).take(len));
        offsets.push(data.len() as u32);
    }
    (offsets, data)
}

fn parse(s: &str) -> (u32, u32, u32) {
    let v: Vec<u32> = s.split(':').map(|x| x.parse().unwrap()).collect();
    (v[0], v[1], v[2])
}

fn main() {
    let args: Vec<String> = std::env::args().collect();
    let dir = PathBuf::from(&args[2]);
    let cap: u64 = args[3].parse().unwrap();
    let config = CacheConfig {
        cache_directory: dir.clone(),
        cache_size: cap,
    };
    match args[1].as_str() {
        "put" => {
            let cache = DiskCache::initialize(&config).unwrap();
            for a in &args[4..] {
                let (k, s, e) = parse(a);
                let (off, data) = range_data(k, s, e);
                cache.put(&key(k), &ChunkRange { start: s, end: e }, &off, &data).unwrap();
            }
            println!("items {} bytes {}", cache.num_items().unwrap(), cache.total_bytes().unwrap());
        },
        "check" => {
            let mut bad = vec![];
            let cache = match DiskCache::initialize(&config) {
                Ok(c) => c,
                Err(e) => {
                    println!("CHECK FAIL: cache does not initialize: {e:?}");
                    std::process::exit(3);
                },
            };
            let mut nfiles = 0;
            if dir.exists() {
                for p in std::fs::read_dir(&dir).unwrap() {
                    let p = p.unwrap().path();
                    if !p.is_dir() {
                        bad.push(format!("unexpected file at the root: {p:?}"));
                        continue;
                    }
                    for kd in std::fs::read_dir(&p).unwrap() {
                        let kd = kd.unwrap().path();
                        if !kd.is_dir() {
                            bad.push(format!("unexpected file in a prefix directory: {kd:?}"));
                            continue;
                        }
                        for f in std::fs::read_dir(&kd).unwrap() {
                            let f = f.unwrap();
                            let name = f.file_name().to_str().unwrap().to_owned();
                            let bytes = std::fs::read(f.path()).unwrap();
                            nfiles += 1;
                            let Ok(buf) = URL_SAFE.decode(&name) else {
                                bad.push(format!("file {name} left after restart (len {}): not an item name", bytes.len()));
                                continue;
                            };
                            if buf.len() != 20 {
                                bad.push(format!("file {name}: bad name"));
                                continue;
                            }
                            let len = u64::from_le_bytes(buf[8..16].try_into().unwrap());
                            let crc = u32::from_le_bytes(buf[16..20].try_into().unwrap());
                            if len != bytes.len() as u64 {
                                bad.push(format!("file {name}: name says len {len}, file has {}", bytes.len()));
                            } else if crc != crc32fast::hash(&bytes) {
                                bad.push(format!("file {name}: checksum of the name does not match the content"));
                            }
                        }
                    }
                }
            }
            for a in &args[4..] {
                let (k, s, e) = parse(a);
                let (off, data) = range_data(k, s, e);
                match cache.get(&key(k), &ChunkRange { start: s, end: e }) {
                    Ok(Some(r)) => {
                        if r.data.as_ref() != data.as_slice() || r.offsets.as_ref() != off.as_slice() {
                            bad.push(format!("range {a}: wrong bytes served"));
                        }
                    },
                    other => bad.push(format!("range {a} not retrievable: {:?}", other.map(|o| o.is_some()))),
                }
            }
            if bad.is_empty() {
                println!(
                    "CHECK OK ({nfiles} files, tracked items {} bytes {})",
                    cache.num_items().unwrap(),
                    cache.total_bytes().unwrap()
                );
            } else {
                for b in &bad {
                    println!("CHECK FAIL: {b}");
                }
                std::process::exit(3);
            }
        },
        _ => panic!("unknown mode"),
    }
}

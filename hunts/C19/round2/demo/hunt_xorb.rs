// Crash-point lab for LocalClient::put (xorb written to the local store) (property C19).
// Copy to cas_client/examples/hunt_xorb.rs ; driven by OUT/demo/sweep.sh (strace SIGKILL injection).
//
//   hunt_xorb put   <dir> <i> ...     LocalClient::new(dir), put xorb i ...
//   hunt_xorb upload <dir> <shard file>   LocalClient::new(dir), upload_shard(bytes of the file)
//        (check the result with: hunt_shard check <dir>/shards <seeds>)
//   hunt_xorb check <dir> <i> ...     LocalClient::new(dir) (restart); every file under xorbs/ is either a
//        temporary name that get_all_entries ignores or a complete xorb that validates against the hash in its
//        name; the listed xorbs are returned with the right bytes
use std::io::Cursor;
use std::path::PathBuf;

use cas_client::{Client, LocalClient, UploadClient};
use cas_object::CasObject;
use merkledb::aggregate_hashes::cas_node_hash;
use merklehash::{compute_data_hash, MerkleHash};

fn xorb(i: u32) -> (MerkleHash, Vec<u8>, Vec<(MerkleHash, u32)>) {
    let mut data = vec![];
    let mut cb = vec![];
    let mut hs = vec![];
    for c in 0..(3 + i % 3) {
        let len = 5000 + 17 * c as usize;
        let chunk: Vec<u8> = (0..len).map(|j| (j as u32 * (i + 3) + c) as u8).collect();
        let h = compute_data_hash(&chunk);
        data.extend_from_slice(&chunk);
        cb.push((h, data.len() as u32));
        hs.push((h, len));
    }
    (cas_node_hash(&hs), data, cb)
}

#[tokio::main(flavor = "multi_thread", worker_threads = 2)]
async fn main() {
    let args: Vec<String> = std::env::args().collect();
    let dir = PathBuf::from(&args[2]);
    if args[1] == "upload" {
        let client: std::sync::Arc<dyn Client> = std::sync::Arc::new(LocalClient::new(&dir, None).unwrap());
        let data = std::fs::read(&args[3]).unwrap();
        let hash = compute_data_hash(&data);
        client.upload_shard("default", &hash, false, &data, &[7u8; 32]).await.unwrap();
        return;
    }
    let ids: Vec<u32> = args[3..].iter().map(|s| s.parse().unwrap()).collect();
    match args[1].as_str() {
        "put" => {
            let client = LocalClient::new(&dir, None).unwrap();
            for i in ids {
                let (h, data, cb) = xorb(i);
                client.put("default", &h, data, cb).await.unwrap();
            }
        },
        "check" => {
            let mut bad = vec![];
            let client = match LocalClient::new(&dir, None) {
                Ok(c) => c,
                Err(e) => {
                    println!("CHECK FAIL: client does not open: {e:?}");
                    std::process::exit(3);
                },
            };
            let entries = client.get_all_entries().unwrap();
            let mut temps = 0;
            for f in std::fs::read_dir(dir.join("xorbs")).unwrap() {
                let f = f.unwrap();
                let name = f.file_name().to_str().unwrap().to_owned();
                let listed = entries.iter().find(|k| format!("{}.{:?}", k.prefix, k.hash) == name);
                match listed {
                    None => {
                        if name.starts_with('.') && name.ends_with(".tmp") {
                            temps += 1;
                        } else {
                            bad.push(format!("file {name} neither temporary nor listed"));
                        }
                    },
                    Some(k) => {
                        let bytes = std::fs::read(f.path()).unwrap();
                        match CasObject::validate_cas_object(&mut Cursor::new(&bytes), &k.hash) {
                            Ok(Some(_)) => {},
                            other => bad.push(format!(
                                "final name {name} (len {}) is not a complete xorb of that hash: {:?}",
                                bytes.len(),
                                other.map(|o| o.is_some())
                            )),
                        }
                        if let Err(e) = client.get(&k.hash) {
                            bad.push(format!("listed xorb {name} is not readable: {e:?}"));
                        }
                    },
                }
            }
            for i in ids {
                let (h, data, _) = xorb(i);
                match client.get(&h) {
                    Ok(d) if d == data => {},
                    Ok(_) => bad.push(format!("xorb {i}: wrong bytes")),
                    Err(e) => bad.push(format!("xorb {i} not retrievable: {e:?}")),
                }
            }
            if bad.is_empty() {
                println!("CHECK OK ({} entries, {temps} temp files ignored)", entries.len());
            } else {
                for b in &bad {
                    println!("CHECK FAIL: {b}");
                }
                std::process::exit(3);
            }
        },
        _ => panic!("unknown mode"),
    }
}

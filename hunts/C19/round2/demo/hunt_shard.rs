// Crash-point lab for shard flush / consolidation (property C19).
// Copy to mdb_shard/examples/hunt_shard.rs ; driven by OUT/demo/sweep.sh (strace SIGKILL injection).
//
//   hunt_shard make  <dir> <seed>            add the records of <seed> to a manager on <dir> and flush
//   hunt_shard cons  <dir> <target_size>     consolidate_shards_in_directory(dir, target)
//   hunt_shard export <dir> <outdir>         export_with_expiration of every shard of dir to outdir
//   hunt_shard check <dir> <seed,seed,...>   every final-name file consistent; all records of the seeds retrievable
use std::path::{Path, PathBuf};

use mdb_shard::cas_structs::{CASChunkSequenceEntry, CASChunkSequenceHeader, MDBCASInfo};
use mdb_shard::file_structs::{
    FileDataSequenceEntry, FileDataSequenceHeader, FileMetadataExt, FileVerificationEntry, MDBFileInfo,
};
use mdb_shard::session_directory::consolidate_shards_in_directory;
use mdb_shard::shard_file_reconstructor::FileReconstructor;
use mdb_shard::{MDBShardFile, ShardFileManager};
use merklehash::{compute_data_hash, MerkleHash};

fn h(tag: &str, i: u64) -> MerkleHash {
    compute_data_hash(format!("{tag}-{i}").as_bytes())
}

fn cas_block(hash: MerkleHash, chunk_base: u64, n: u64) -> MDBCASInfo {
    let mut chunks = vec![];
    let mut pos = 0u32;
    for k in 0..n {
        let sz = 1000 + k as u32;
        chunks.push(CASChunkSequenceEntry::new(h("chunk", chunk_base + k), sz, pos));
        pos += sz;
    }
    MDBCASInfo {
        metadata: CASChunkSequenceHeader::new(hash, n as u32, pos),
        chunks,
    }
}

fn file_info(hash: MerkleHash, cas: &[MerkleHash], verif: bool, ext: bool) -> MDBFileInfo {
    let segments: Vec<_> = cas.iter().map(|c| FileDataSequenceEntry::new(*c, 2001u32, 0u32, 2u32)).collect();
    MDBFileInfo {
        metadata: FileDataSequenceHeader::new(hash, segments.len(), verif, ext),
        verification: if verif {
            cas.iter().map(|c| FileVerificationEntry::new(*c)).collect()
        } else {
            vec![]
        },
        metadata_ext: if ext { Some(FileMetadataExt::new(hash)) } else { None },
        segments,
    }
}

fn records(seed: u64) -> (Vec<MDBCASInfo>, Vec<MDBFileInfo>) {
    let mut cas = vec![];
    let mut files = vec![];
    for j in 0..2 {
        cas.push(cas_block(h("cas", seed * 10 + j), seed * 100 + j * 10, 3));
    }
    // a block and a file shared by all seeds (different optional parts -> merge path of the union)
    cas.push(cas_block(h("sharedcas", 0), 999_000, 4));
    let c0 = h("cas", seed * 10);
    let c1 = h("cas", seed * 10 + 1);
    files.push(file_info(h("file", seed * 10), &[c0, c1], true, false));
    files.push(file_info(h("file", seed * 10 + 1), &[c1], false, seed % 2 == 1));
    files.push(file_info(h("sharedfile", 0), &[h("sharedcas", 0)], seed % 2 == 0, seed % 2 == 1));
    (cas, files)
}

fn is_final_name(name: &str) -> bool {
    name.len() == 68 && name.ends_with(".mdb") && name[..64].chars().all(|c| c.is_ascii_hexdigit())
}

fn main() {
    let args: Vec<String> = std::env::args().collect();
    let rt = tokio::runtime::Builder::new_current_thread().enable_all().build().unwrap();
    let dir = PathBuf::from(&args[2]);
    match args[1].as_str() {
        "make" => {
            // <seed> may be several seeds joined by '+': all of them go into one shard
            let seeds: Vec<u64> = args[3].split('+').map(|s| s.parse().unwrap()).collect();
            rt.block_on(async {
                let m = ShardFileManager::new_in_session_directory(&dir).await.unwrap();
                for seed in seeds {
                    let (cas, files) = records(seed);
                    for c in cas {
                        m.add_cas_block(c).await.unwrap();
                    }
                    for f in files {
                        m.add_file_reconstruction_info(f).await.unwrap();
                    }
                }
                m.flush().await.unwrap();
            });
        },
        "cons" => {
            let target: u64 = args[3].parse().unwrap();
            let r = consolidate_shards_in_directory(&dir, target).unwrap();
            println!("consolidated to {} shards", r.len());
        },
        "export" => {
            let out = PathBuf::from(&args[3]);
            for s in MDBShardFile::load_all_valid(&dir).unwrap() {
                s.export_with_expiration(&out, std::time::Duration::from_secs(3600)).unwrap();
            }
        },
        "check" => {
            let seeds: Vec<u64> = args[3].split(',').filter(|s| !s.is_empty()).map(|s| s.parse().unwrap()).collect();
            let mut bad = vec![];
            let mut temps = 0;
            for e in std::fs::read_dir(&dir).unwrap() {
                let e = e.unwrap();
                let name = e.file_name().to_str().unwrap().to_owned();
                if is_final_name(&name) {
                    let data = std::fs::read(e.path()).unwrap();
                    if compute_data_hash(&data).hex() != name[..64] {
                        bad.push(format!("final name {name} does not match content hash (len {})", data.len()));
                        continue;
                    }
                    match MDBShardFile::load_from_file(&e.path()) {
                        Ok(s) => s.verify_shard_integrity(),
                        Err(err) => bad.push(format!("final name {name} not loadable: {err:?}")),
                    }
                } else if name.starts_with('.') && name.ends_with(".mdb_temp") {
                    temps += 1;
                } else {
                    bad.push(format!("unexpected file {name}"));
                }
            }
            if bad.is_empty() {
                rt.block_on(async {
                    let m = match ShardFileManager::new_in_session_directory(&dir).await {
                        Ok(m) => m,
                        Err(e) => {
                            bad.push(format!("manager does not open: {e:?}"));
                            return;
                        },
                    };
                    for seed in &seeds {
                        let (cas, files) = records(*seed);
                        for f in files {
                            match m.get_file_reconstruction_info(&f.metadata.file_hash).await {
                                Ok(Some((fi, _))) => {
                                    if fi.segments != f.segments {
                                        bad.push(format!("seed {seed}: file {:?} segments differ", f.metadata.file_hash));
                                    }
                                },
                                other => bad.push(format!(
                                    "seed {seed}: file {:?} not retrievable: {:?}",
                                    f.metadata.file_hash,
                                    other.map(|o| o.is_some())
                                )),
                            }
                        }
                        for c in cas {
                            let q: Vec<MerkleHash> = c.chunks.iter().map(|x| x.chunk_hash).collect();
                            match m.chunk_hash_dedup_query(&q).await {
                                Ok(Some((n, e))) if n == q.len() && e.cas_hash == c.metadata.cas_hash => {},
                                other => bad.push(format!(
                                    "seed {seed}: chunks of {:?} not retrievable: {:?}",
                                    c.metadata.cas_hash, other
                                )),
                            }
                        }
                    }
                });
            }
            if bad.is_empty() {
                println!("CHECK OK ({temps} temp files ignored)");
            } else {
                for b in &bad {
                    println!("CHECK FAIL: {b}");
                }
                std::process::exit(3);
            }
        },
        _ => panic!("unknown mode"),
    }
    let _ = Path::new("");
}

#!/bin/bash
# Crash-point sweep: run an operation under strace and SIGKILL the process on entry of the n-th call of
# one file-system system call (everything before it completed: process-crash model), then run a checker
# on what is left.  strace counts "when=n" per system call, so the sweep is over (syscall, n) pairs; this
# visits every point that lies directly before a file-system effect.
#   sweep.sh <base_dir> <work_dir> <max_n> -- <op command using WORK> -- <check command using WORK>
# In the commands, the literal token WORK is replaced by the work directory.
set -u
BASE=$1; WORK=$2; MAXN=$3; shift 4
OP=(); while [ "$1" != "--" ]; do OP+=("${1//WORK/$WORK}"); shift; done; shift
CHECK=(); while [ $# -gt 0 ]; do CHECK+=("${1//WORK/$WORK}"); shift; done
CALLS=${CALLS:-"openat write pwrite64 rename unlink unlinkat mkdir rmdir chmod fchmod fchmodat chown fchown utimensat ftruncate fsync fdatasync msync"}
fails=0; points=0
for sc in $CALLS; do
  for ((n=1; n<=MAXN; n++)); do
    rm -rf "$WORK"; cp -a "$BASE" "$WORK"
    ( strace -f -o /dev/null -e trace=$sc -e inject=$sc:signal=KILL:when=$n "${OP[@]}"; exit $? ) >/dev/null 2>&1
    rc=$?
    if [ $rc -eq 0 ]; then break; fi
    points=$((points+1))
    out=$("${CHECK[@]}" 2>&1); crc=$?
    if [ $crc -ne 0 ]; then
      fails=$((fails+1))
      echo "=== stop before $sc #$n (op rc=$rc): check rc=$crc"; echo "$out" | tail -8
      echo "--- directory:"; find "$WORK" -type f | sed "s|$WORK/||" | sort | head -30
    fi
  done
done
echo "sweep done: $points stop points, $fails failing"
exit $((fails>0))

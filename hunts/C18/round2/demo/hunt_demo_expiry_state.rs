//! C18 demos 2 and 3: expiry versus state that a ShardFileManager keeps.
//!
//! copy to mdb_shard/tests/ and run (the env var makes the grace period 0 so the test does not need 7 days):
//!   HF_XET_MDB_SHARD_EXPIRATION_BUFFER_SECS=0 cargo test --offline -p mdb_shard --test hunt_demo_expiry_state -- --nocapture --test-threads=1

use std::time::Duration;

use mdb_shard::cas_structs::{CASChunkSequenceEntry, CASChunkSequenceHeader, MDBCASInfo};
use mdb_shard::shard_in_memory::MDBInMemoryShard;
use mdb_shard::{MDBShardFile, ShardFileManager};
use merklehash::{compute_data_hash, MerkleHash};
use tempdir::TempDir;

fn h(tag: &str, i: usize) -> MerkleHash {
    compute_data_hash(format!("{tag}-{i}").as_bytes())
}

fn small_shard(tag: &str) -> MDBInMemoryShard {
    let mut shard = MDBInMemoryShard::default();
    let chunks = (0..4u32)
        .map(|i| CASChunkSequenceEntry::new(h(tag, i as usize), 100u32, 100 * i))
        .collect();
    shard
        .add_cas_block(MDBCASInfo {
            metadata: CASChunkSequenceHeader::new(h(&format!("{tag}-xorb"), 0), 4u32, 400u32),
            chunks,
        })
        .unwrap();
    shard
}

fn n_shard_files(dir: &std::path::Path) -> usize {
    std::fs::read_dir(dir)
        .unwrap()
        .filter(|e| e.as_ref().unwrap().file_name().to_str().unwrap().ends_with(".mdb"))
        .count()
}

/// Demo 2: the cache-directory manager (the one `data::SessionShardInterface` uses, shared process wide through
/// MDB_SHARD_FILE_MANAGER_CACHE) goes on answering dedup queries from a keyed shard long after its expiry:
/// `new_in_cache_directory` on the same directory re-runs `refresh_shard_dir`, but that only ADDS shards.
/// A manager that is created fresh on the very same directory (a new process) does not load the shard.
#[tokio::test]
async fn expired_shard_is_still_used_by_the_cached_manager() {
    let src = TempDir::new("c18_src").unwrap();
    let cache_dir = TempDir::new("c18_cache").unwrap();

    let p = small_shard("exp").write_to_directory(src.path()).unwrap();
    let sf = MDBShardFile::load_from_file(&p).unwrap();
    let key = h("key", 7);
    sf.export_as_keyed_shard(cache_dir.path(), key, Duration::from_secs(1), true, true, true)
        .unwrap();

    let query = vec![h("exp", 0), h("exp", 1)];

    let m1 = ShardFileManager::new_in_cache_directory(cache_dir.path()).await.unwrap();
    assert!(m1.chunk_hash_dedup_query(&query).await.unwrap().is_some());

    // Let the shard expire (expiry = creation + 1s, `now <= expiry` still counts as valid).
    std::thread::sleep(Duration::from_millis(2100));

    // The expiry filter itself works:
    assert!(MDBShardFile::load_all_valid(cache_dir.path()).unwrap().is_empty());
    // ... and a manager that really loads the directory now does not see the shard:
    let fresh = ShardFileManager::new_in_session_directory(cache_dir.path()).await.unwrap();
    assert!(fresh.registered_shard_list().await.unwrap().is_empty());
    assert!(fresh.chunk_hash_dedup_query(&query).await.unwrap().is_none());

    // A new session asks for the cache directory manager again, after the expiry.
    let m2 = ShardFileManager::new_in_cache_directory(cache_dir.path()).await.unwrap();
    let n_registered = m2.registered_shard_list().await.unwrap().len();
    let answer = m2.chunk_hash_dedup_query(&query).await.unwrap();
    eprintln!("after expiry: cached manager has {n_registered} shard(s) registered, dedup answer = {answer:?}");

    assert!(
        answer.is_none() && n_registered == 0,
        "a shard past its expiry is still registered ({n_registered}) and used for dedup ({answer:?}) by the manager \
         returned from new_in_cache_directory"
    );
}

/// Demo 3: ShardFileManager::clean_expired_shards_if_needed has its once-flag inverted: the FIRST call never
/// cleans (swap returns the previous value `false`), every later call does.
#[tokio::test]
async fn clean_expired_shards_if_needed_does_nothing_on_first_call() {
    assert_eq!(
        *mdb_shard::constants::MDB_SHARD_EXPIRATION_BUFFER_SECS, 0,
        "run with HF_XET_MDB_SHARD_EXPIRATION_BUFFER_SECS=0"
    );

    let src = TempDir::new("c18_src2").unwrap();
    let dir = TempDir::new("c18_clean").unwrap();

    let p = small_shard("cl").write_to_directory(src.path()).unwrap();
    let sf = MDBShardFile::load_from_file(&p).unwrap();
    sf.export_with_expiration(dir.path(), Duration::from_secs(0)).unwrap();
    assert_eq!(n_shard_files(dir.path()), 1);

    std::thread::sleep(Duration::from_millis(2100));

    let m = ShardFileManager::new_in_session_directory(dir.path()).await.unwrap();
    assert!(m.registered_shard_list().await.unwrap().is_empty()); // expired: not loaded

    // reference: the plain cleaner would delete it now (grace period 0, expired for 2 s) -- checked on a copy
    {
        let copy_dir = TempDir::new("c18_clean_copy").unwrap();
        for e in std::fs::read_dir(dir.path()).unwrap() {
            let e = e.unwrap();
            std::fs::copy(e.path(), copy_dir.path().join(e.file_name())).unwrap();
        }
        MDBShardFile::clean_expired_shards(copy_dir.path(), 0).unwrap();
        assert_eq!(n_shard_files(copy_dir.path()), 0);
    }

    m.clean_expired_shards_if_needed().unwrap();
    let after_first = n_shard_files(dir.path());
    m.clean_expired_shards_if_needed().unwrap();
    let after_second = n_shard_files(dir.path());
    eprintln!("expired shard files left: after 1st call {after_first}, after 2nd call {after_second}");

    assert_eq!(after_first, 0, "the first clean_expired_shards_if_needed() call left the expired shard in place");
}

//! C18 demo 4 (low severity): two different chunks whose hashes share the first 64 bits.
//! Through the ShardFileManager the ORIGINAL (unkeyed) shard cannot find one of them (the manager keeps a single
//! location per truncated hash, shard_file_manager.rs:37,259, and never looks at the other rows of the on-disk
//! table), its keyed re-export finds both (the HMAC separates the prefixes) -- so the keyed shard does not give
//! "the same answers as the original".  MDBShardFile::chunk_hash_dedup_query on the original finds both.
//!
//! copy to mdb_shard/tests/ and run:
//!   cargo test --offline -p mdb_shard --test hunt_demo_prefix_collision -- --nocapture

use std::time::Duration;

use mdb_shard::cas_structs::{CASChunkSequenceEntry, CASChunkSequenceHeader, MDBCASInfo};
use mdb_shard::shard_in_memory::MDBInMemoryShard;
use mdb_shard::{MDBShardFile, ShardFileManager};
use merklehash::{compute_data_hash, MerkleHash};
use tempdir::TempDir;

#[tokio::test]
async fn prefix_collision_original_misses_keyed_hits() {
    let a = MerkleHash::from([42, 1, 0, 0]);
    let b = MerkleHash::from([42, 2, 0, 0]); // same first u64 as `a`
    let c = MerkleHash::from([43, 3, 0, 0]);

    let mut shard = MDBInMemoryShard::default();
    shard
        .add_cas_block(MDBCASInfo {
            metadata: CASChunkSequenceHeader::new(compute_data_hash(b"xorb"), 3u32, 300u32),
            chunks: vec![
                CASChunkSequenceEntry::new(a, 100u32, 0u32),
                CASChunkSequenceEntry::new(c, 100u32, 100u32),
                CASChunkSequenceEntry::new(b, 100u32, 200u32),
            ],
        })
        .unwrap();

    let d0 = TempDir::new("c18_pc_orig").unwrap();
    let p = shard.write_to_directory(d0.path()).unwrap();
    let sf = MDBShardFile::load_from_file(&p).unwrap();

    let d1 = TempDir::new("c18_pc_keyed").unwrap();
    sf.export_as_keyed_shard(d1.path(), compute_data_hash(b"key"), Duration::from_secs(1000), true, true, true)
        .unwrap();

    let m0 = ShardFileManager::new_in_session_directory(d0.path()).await.unwrap();
    let m1 = ShardFileManager::new_in_session_directory(d1.path()).await.unwrap();

    // The shard itself knows both chunks:
    assert!(sf.chunk_hash_dedup_query(&[a]).unwrap().is_some());
    assert!(sf.chunk_hash_dedup_query(&[b]).unwrap().is_some());

    for (name, q) in [("a", a), ("b", b), ("c", c)] {
        let o = m0.chunk_hash_dedup_query(&[q]).await.unwrap();
        let k = m1.chunk_hash_dedup_query(&[q]).await.unwrap();
        eprintln!("chunk {name}: original {:?}  keyed {:?}", o.as_ref().map(|x| x.0), k.as_ref().map(|x| x.0));
        assert_eq!(o, k, "chunk {name}: original and keyed shard answer differently");
    }
}

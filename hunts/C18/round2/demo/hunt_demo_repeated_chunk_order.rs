//! C18 demo 1: a shard that contains a chunk more than once (here: the same chunk `A` at the start of
//! every xorb, think "block of zeros") gives DIFFERENT dedup answers through the ShardFileManager after
//! it has been re-exported -- even with the zero key ("unkeyed") and all three optional tables included,
//! i.e. an export that is supposed to be the identity.
//!
//! Mechanism: the chunk lookup table of the original is ordered with `sort_unstable_by_key`
//! (shard_format.rs:441), the re-export rebuilds it with the stable `sort_by_key` (shard_format.rs:1186),
//! and the manager keeps, per truncated hash, the LAST row it reads (HashMap::insert,
//! shard_file_manager.rs:259).  So the location the manager remembers for a repeated chunk differs
//! between the original and the export, and with it the number of chunks a query can match.
//!
//! copy to mdb_shard/tests/ and run:
//!   cargo test --offline -p mdb_shard --test hunt_demo_repeated_chunk_order -- --nocapture

use std::path::Path;
use std::time::Duration;

use mdb_shard::cas_structs::{CASChunkSequenceEntry, CASChunkSequenceHeader, MDBCASInfo};
use mdb_shard::file_structs::FileDataSequenceEntry;
use mdb_shard::shard_in_memory::MDBInMemoryShard;
use mdb_shard::{MDBShardFile, ShardFileManager};
use merklehash::{compute_data_hash, HMACKey, MerkleHash};
use tempdir::TempDir;

fn h(tag: &str, i: usize) -> MerkleHash {
    compute_data_hash(format!("{tag}-{i}").as_bytes())
}

const N_XORBS: usize = 40;

async fn answers(dir: &Path, queries: &[Vec<MerkleHash>]) -> Vec<Option<(usize, FileDataSequenceEntry)>> {
    let m = ShardFileManager::new_in_session_directory(dir).await.unwrap();
    let mut out = vec![];
    for q in queries {
        out.push(m.chunk_hash_dedup_query(q).await.unwrap());
    }
    out
}

#[tokio::test]
async fn reexport_changes_dedup_answers_for_repeated_chunks() {
    let a = h("A", 0);

    // xorb i = [A, U_i, V_i]
    let mut shard = MDBInMemoryShard::default();
    for i in 0..N_XORBS {
        let chunks = vec![
            CASChunkSequenceEntry::new(a, 100u32, 0u32),
            CASChunkSequenceEntry::new(h("U", i), 100u32, 100u32),
            CASChunkSequenceEntry::new(h("V", i), 100u32, 200u32),
        ];
        shard
            .add_cas_block(MDBCASInfo {
                metadata: CASChunkSequenceHeader::new(h("xorb", i), 3u32, 300u32),
                chunks,
            })
            .unwrap();
    }

    let dir0 = TempDir::new("c18_orig").unwrap();
    let path = shard.write_to_directory(dir0.path()).unwrap();
    let sf = MDBShardFile::load_from_file(&path).unwrap();

    // The queries a file made of "A U_i" would issue.
    let queries: Vec<Vec<MerkleHash>> = (0..N_XORBS).map(|i| vec![a, h("U", i)]).collect();

    let original = answers(dir0.path(), &queries).await;

    let mut failures = vec![];
    let mut n_count_diffs = 0; // answers that differ in the NUMBER of chunks matched, not only in the location
    for (name, key) in [("zero key", HMACKey::default()), ("hmac key", h("key", 1))] {
        for flags in 0..8u32 {
            let dir1 = TempDir::new("c18_export").unwrap();
            sf.export_as_keyed_shard(
                dir1.path(),
                key,
                Duration::from_secs(3600),
                flags & 1 != 0,
                flags & 2 != 0,
                flags & 4 != 0,
            )
            .unwrap();

            let exported = answers(dir1.path(), &queries).await;

            for (i, (o, e)) in original.iter().zip(exported.iter()).enumerate() {
                if o != e {
                    if o.as_ref().map(|x| x.0) != e.as_ref().map(|x| x.0) {
                        n_count_diffs += 1;
                    } else if n_count_diffs > 0 || failures.len() >= 2 {
                        failures.push(String::new());
                        continue;
                    }
                    failures.push(format!(
                        "{name}, flags (file,cas,chunk)={:03b}: query [A, U_{i}]\n    original: {:?}\n    exported: {:?}",
                        flags, o, e
                    ));
                }
            }
        }
    }

    for f in failures.iter().filter(|f| !f.is_empty()).take(6) {
        eprintln!("{f}");
    }
    assert!(
        failures.is_empty(),
        "{} (export, query) pairs answered differently from the original shard; {} of them match a different number of chunks",
        failures.len(),
        n_count_diffs
    );
}

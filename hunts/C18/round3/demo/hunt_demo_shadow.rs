// C18 demo: a keyed shard that was valid when loaded, later expired and was deleted by
// clean_expired_shards (after the grace period), makes the manager lose dedup for chunks
// that a second, still valid and registered shard under the same key also holds.
use std::time::Duration;

use mdb_shard::cas_structs::*;
use mdb_shard::shard_format::test_routines::rng_hash;
use mdb_shard::shard_in_memory::MDBInMemoryShard;
use mdb_shard::{MDBShardFile, ShardFileManager};
use merklehash::MerkleHash;
use tempdir::TempDir;

#[tokio::test]
async fn deleted_expired_shard_shadows_valid_shard_of_same_key() {
    // One original shard with one xorb of 4 chunks.
    let orig_dir = TempDir::new("c18_orig").unwrap();
    let mut mem = MDBInMemoryShard::default();
    let mut chunks = vec![];
    for i in 0..4u32 {
        chunks.push(CASChunkSequenceEntry::new(rng_hash(100 + i as u64), 1000u32, 1000 * i));
    }
    let hashes: Vec<MerkleHash> = chunks.iter().map(|c| c.chunk_hash).collect();
    mem.add_cas_block(MDBCASInfo {
        metadata: CASChunkSequenceHeader::new(rng_hash(7), 4u32, 4000u32),
        chunks,
    })
    .unwrap();
    let orig_path = mem.write_to_directory(orig_dir.path()).unwrap();
    let orig = MDBShardFile::load_from_file(&orig_path).unwrap();

    // Reference: the manager over the original answers the query.
    let m_orig = ShardFileManager::new_in_session_directory(orig_dir.path()).await.unwrap();
    let expected = m_orig.chunk_hash_dedup_query(&hashes).await.unwrap();
    assert!(expected.is_some());

    // Two re-exports under the SAME key into one directory: one valid for 1 s, one for 1000 s.
    let key = rng_hash(42);
    let dir = TempDir::new("c18_keyed").unwrap();
    let short = orig
        .export_as_keyed_shard(dir.path(), key, Duration::from_secs(1), true, true, true)
        .unwrap();
    std::thread::sleep(Duration::from_millis(50));
    let long = orig
        .export_as_keyed_shard(dir.path(), key, Duration::from_secs(1000), true, true, true)
        .unwrap();
    assert_ne!(short.shard_hash, long.shard_hash);

    // Both are valid now and both are loaded.
    let m = ShardFileManager::new_in_session_directory(dir.path()).await.unwrap();
    assert_eq!(m.registered_shard_list().await.unwrap().len(), 2);
    assert_eq!(m.chunk_hash_dedup_query(&hashes).await.unwrap(), expected);

    // Let the short one expire, and delete it only after the (zero) grace period has passed as well.
    std::thread::sleep(Duration::from_millis(2100));
    MDBShardFile::clean_expired_shards(dir.path(), 0).unwrap();
    assert!(!short.path.exists());
    assert!(long.path.exists());

    // The long-lived shard is valid, present, registered, and holds all four chunks ...
    assert_eq!(MDBShardFile::load_all_valid(dir.path()).unwrap().len(), 1);
    assert!(m.shard_is_registered(&long.shard_hash).await);
    m.refresh_shard_dir().await.unwrap();

    // ... so the answer must still be the one of the original.
    let got = m.chunk_hash_dedup_query(&hashes).await.unwrap();
    assert_eq!(got, expected, "dedup answer lost although a valid registered shard holds the chunks");
}

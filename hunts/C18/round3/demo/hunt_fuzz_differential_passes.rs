use std::time::Duration;

use mdb_shard::cas_structs::*;
use mdb_shard::file_structs::*;
use mdb_shard::shard_file_reconstructor::FileReconstructor;
use mdb_shard::shard_format::test_routines::*;
use mdb_shard::shard_in_memory::MDBInMemoryShard;
use mdb_shard::{MDBShardFile, ShardFileManager};
use merklehash::{HMACKey, MerkleHash};
use rand::prelude::*;
use tempdir::TempDir;

fn build_shard(rng: &mut StdRng) -> MDBInMemoryShard {
    let mut shard = MDBInMemoryShard::default();
    let n_cas = rng.gen_range(0..5);
    for _ in 0..n_cas {
        let n = rng.gen_range(0..6usize);
        let mut chunks = vec![];
        let mut pos = 0u32;
        for _ in 0..n {
            let sz = rng.gen_range(1..20000u32);
            chunks.push(CASChunkSequenceEntry::new(rng_hash(rng.gen()), sz, pos));
            pos += sz;
        }
        shard
            .add_cas_block(MDBCASInfo {
                metadata: CASChunkSequenceHeader::new(rng_hash(rng.gen()), n, pos),
                chunks,
            })
            .unwrap();
    }
    let n_files = rng.gen_range(0..5);
    for _ in 0..n_files {
        let n = rng.gen_range(0..5usize);
        let (v, e): (bool, bool) = (rng.gen(), rng.gen());
        let fi = gen_random_file_info(rng, &n, v, e);
        shard.add_file_reconstruction_info(fi).unwrap();
    }
    shard
}

#[tokio::test]
async fn fuzz_keyed_export() {
    for seed in 0..60u64 {
        let mut rng = StdRng::seed_from_u64(seed);
        let orig_dir = TempDir::new("hunt_orig").unwrap();
        let n_shards = rng.gen_range(1..5);
        let mut mems = vec![];
        let mut paths = vec![];
        for _ in 0..n_shards {
            let s = build_shard(&mut rng);
            if s.is_empty() && rng.gen() {
                continue;
            }
            let p = s.write_to_directory(orig_dir.path()).unwrap();
            mems.push(s);
            paths.push(p);
        }
        let keys = [HMACKey::default(), rng_hash(1), rng_hash(2)];
        for flags in 0..8u32 {
            let (f, c, k) = (flags & 1 != 0, flags & 2 != 0, flags & 4 != 0);
            let exp_dir = TempDir::new("hunt_exp").unwrap();
            for p in paths.iter() {
                let sf = MDBShardFile::load_from_file(p).unwrap();
                let key = keys[rng.gen_range(0..3)];
                let out = sf
                    .export_as_keyed_shard(exp_dir.path(), key, Duration::from_secs(1000), f, c, k)
                    .unwrap();
                // all chunk hashes replaced
                let orig_cas = sf.shard.read_all_cas_blocks_full(&mut sf.get_reader().unwrap()).unwrap();
                let new_cas = out.shard.read_all_cas_blocks_full(&mut out.get_reader().unwrap()).unwrap();
                assert_eq!(orig_cas.len(), new_cas.len());
                for (a, b) in orig_cas.iter().zip(new_cas.iter()) {
                    assert_eq!(a.metadata, b.metadata);
                    for (x, y) in a.chunks.iter().zip(b.chunks.iter()) {
                        let expect = if key == HMACKey::default() { x.chunk_hash } else { x.chunk_hash.hmac(key) };
                        assert_eq!(y.chunk_hash, expect);
                        assert_eq!(x.unpacked_segment_bytes, y.unpacked_segment_bytes);
                        assert_eq!(x.chunk_byte_range_start, y.chunk_byte_range_start);
                    }
                }
                let of = sf.read_all_file_info_sections().unwrap();
                let nf = out.read_all_file_info_sections().unwrap();
                if f {
                    assert_eq!(of, nf);
                } else {
                    assert!(nf.is_empty());
                }
                assert_eq!(out.shard.metadata.cas_lookup_num_entry as usize, if c { orig_cas.len() } else { 0 });
                let nchunks: usize = orig_cas.iter().map(|c| c.chunks.len()).sum();
                assert_eq!(out.shard.metadata.chunk_lookup_num_entry as usize, if k { nchunks } else { 0 });
                assert_eq!(out.shard.metadata.stored_bytes, sf.shard.metadata.stored_bytes);
                if f {
                    assert_eq!(out.shard.metadata.materialized_bytes, sf.shard.metadata.materialized_bytes);
                }
            }
            let m_orig = ShardFileManager::new_in_session_directory(orig_dir.path()).await.unwrap();
            let m_exp = ShardFileManager::new_in_session_directory(exp_dir.path()).await.unwrap();

            for s in mems.iter() {
                for (_, cas) in s.cas_content.iter() {
                    for i in 0..cas.chunks.len() {
                        for len in 1..=4usize {
                            let mut q: Vec<MerkleHash> =
                                cas.chunks[i..(i + len).min(cas.chunks.len())].iter().map(|c| c.chunk_hash).collect();
                            if rng.gen() {
                                q.push(rng_hash(rng.gen()));
                            }
                            let a = m_orig.chunk_hash_dedup_query(&q).await.unwrap();
                            let b = m_exp.chunk_hash_dedup_query(&q).await.unwrap();
                            assert_eq!(a, b, "seed {seed} flags {flags}");
                            assert!(a.is_some());
                        }
                    }
                }
                let q = vec![rng_hash(rng.gen())];
                assert_eq!(m_exp.chunk_hash_dedup_query(&q).await.unwrap(), None);
                for (h, _) in s.file_content.iter() {
                    let a = m_orig.get_file_reconstruction_info(h).await.unwrap().map(|x| x.0);
                    let b = m_exp.get_file_reconstruction_info(h).await.unwrap().map(|x| x.0);
                    if f {
                        assert_eq!(a, b);
                    } else {
                        assert!(b.is_none());
                    }
                    assert!(a.is_some());
                }
            }
        }
    }
}

use std::time::Duration;
use mdb_shard::cas_structs::*;
use mdb_shard::shard_in_memory::MDBInMemoryShard;
use mdb_shard::{MDBShardFile, ShardFileManager};
use merklehash::MerkleHash;

fn shard() -> MDBInMemoryShard {
    let mut s = MDBInMemoryShard::default();
    s.add_cas_block(MDBCASInfo {
        metadata: CASChunkSequenceHeader::new(MerkleHash::from([5, 6, 7, 8]), 1u32, 10u32),
        chunks: vec![CASChunkSequenceEntry::new(MerkleHash::from([1, 2, 3, 4]), 10u32, 0u32)],
    }).unwrap();
    s
}

#[test]
fn relative_file_path() {
    std::fs::create_dir_all("hunt_rel_dir").unwrap();
    let p = shard().write_to_directory(std::path::Path::new("hunt_rel_dir")).unwrap();
    let rel = std::path::Path::new("hunt_rel_dir").join(p.file_name().unwrap());
    let r = MDBShardFile::load_all_valid(&rel);
    let _ = std::fs::remove_dir_all("hunt_rel_dir");
    eprintln!("relative: {:?}", r.as_ref().map(|v| v.len()));
    let _ = Duration::from_secs(1);
    assert_eq!(r.unwrap().len(), 1);
}

#[tokio::test]
async fn empty_query() {
    let d = tempdir::TempDir::new("hunt_side").unwrap();
    shard().write_to_directory(d.path()).unwrap();
    let m = ShardFileManager::new_in_session_directory(d.path()).await.unwrap();
    let r = m.chunk_hash_dedup_query(&[]).await.unwrap();
    assert!(r.is_none());
}

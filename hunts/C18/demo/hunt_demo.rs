//! Demonstrations for property C18 (keyed shards: protect chunk hashes, keep dedup working, expire).
//! Every test runs against the unmodified sources and FAILS because of the defect it names.
//!
//!   cargo test --offline -p mdb_shard --test hunt_demo -- --test-threads=1

use std::path::Path;
use std::sync::Arc;
use std::time::{Duration, SystemTime, UNIX_EPOCH};

use mdb_shard::cas_structs::*;
use mdb_shard::file_structs::*;
use mdb_shard::shard_in_memory::MDBInMemoryShard;
use mdb_shard::{MDBShardFile, ShardFileManager};
use merklehash::{HMACKey, MerkleHash};
use tempdir::TempDir;

fn h(n: u64) -> MerkleHash {
    // spread the value over the four words so the 64-bit prefixes are all distinct
    MerkleHash::from([n.wrapping_mul(0x9E37_79B9_7F4A_7C15) | 1, n, !n, 7])
}

fn now_secs() -> u64 {
    SystemTime::now().duration_since(UNIX_EPOCH).unwrap().as_secs()
}

/// A small local (unkeyed, never expiring) shard: 2 xorbs with 3 chunks each, one file.
fn base_shard(tag: u64) -> MDBInMemoryShard {
    let mut s = MDBInMemoryShard::default();
    for x in 0..2u64 {
        let chunks: Vec<_> = (0..3u64)
            .map(|c| CASChunkSequenceEntry::new(h(tag * 1000 + x * 10 + c), 100u32, (c * 100) as u32))
            .collect();
        s.add_cas_block(MDBCASInfo {
            metadata: CASChunkSequenceHeader::new(h(tag * 1000 + 500 + x), 3u32, 300u32),
            chunks,
        })
        .unwrap();
    }
    s.add_file_reconstruction_info(MDBFileInfo {
        metadata: FileDataSequenceHeader::new(h(tag * 1000 + 900), 2u32, false, false),
        segments: vec![
            FileDataSequenceEntry::new(h(tag * 1000 + 500), 300u32, 0u32, 3u32),
            FileDataSequenceEntry::new(h(tag * 1000 + 501), 300u32, 0u32, 3u32),
        ],
        verification: vec![],
        metadata_ext: None,
    })
    .unwrap();
    s
}

fn write_shard(dir: &Path, s: &MDBInMemoryShard) -> Arc<MDBShardFile> {
    let p = s.write_to_directory(dir).unwrap();
    MDBShardFile::load_from_file(&p).unwrap()
}

fn n_files(dir: &Path) -> usize {
    std::fs::read_dir(dir).unwrap().count()
}

// ---------------------------------------------------------------------------------------------
// F1.  clean_expired_shards deletes a shard DURING the last second of the grace period; with a
//      grace period of 0 it deletes a shard that load_all_valid still accepts as valid.
//      load_all:             valid  <=>  now <= expiry
//      clean_expired_shards: delete <=>  expiry + grace <= now      (should be  <  )
// ---------------------------------------------------------------------------------------------
#[test]
fn f1_shard_deleted_while_still_valid_at_expiry_second() {
    let src_dir = TempDir::new("hunt_f1_src").unwrap();
    let src = write_shard(src_dir.path(), &base_shard(1));

    for attempt in 0..5 {
        let dir = TempDir::new("hunt_f1").unwrap();
        let out = src.export_with_expiration(dir.path(), Duration::from_secs(2)).unwrap();
        let expiry = out.shard.metadata.shard_key_expiry;

        // wait for the wall clock to reach exactly the expiry second
        while now_secs() < expiry {
            std::thread::sleep(Duration::from_millis(5));
        }
        let t0 = now_secs();
        let loaded = MDBShardFile::load_all_valid(dir.path()).unwrap();
        MDBShardFile::clean_expired_shards(dir.path(), 0).unwrap();
        let t1 = now_secs();
        if t0 != expiry || t1 != expiry {
            eprintln!("attempt {attempt}: crossed a second boundary, retrying");
            continue;
        }

        // now == expiry for the whole window: the shard is NOT past its expiry ...
        assert_eq!(loaded.len(), 1, "at now == expiry the shard is still valid and is loaded");
        // ... so it must not be deleted, whatever the grace period.
        assert_eq!(
            n_files(dir.path()),
            1,
            "shard with expiry {expiry} was deleted at now == {t1} (not past expiry, grace period not elapsed)"
        );
        return;
    }
    panic!("could not get a quiet second");
}

// ---------------------------------------------------------------------------------------------
// F2.  A validity that does not fit the system clock ("never expires": Duration::MAX,
//      Duration::from_secs(u64::MAX), e.g. HF_XET_MDB_SHARD_LOCAL_CACHE_EXPIRATION_SECS=u64::MAX)
//      panics in SystemTime::add instead of saturating to "no expiry".
// ---------------------------------------------------------------------------------------------
#[test]
fn f2_export_with_expiration_never_expires_panics() {
    let src_dir = TempDir::new("hunt_f2_src").unwrap();
    let src = write_shard(src_dir.path(), &base_shard(2));
    let dir = TempDir::new("hunt_f2").unwrap();

    let r = std::panic::catch_unwind(|| {
        src.export_with_expiration(dir.path(), Duration::from_secs(u64::MAX))
            .map(|s| s.shard.metadata.shard_key_expiry)
    });
    match r {
        Ok(Ok(expiry)) => assert!(expiry > now_secs() + 1_000_000_000, "expiry {expiry}"),
        Ok(Err(e)) => panic!("export_with_expiration returned an error: {e:?}"),
        Err(_) => panic!("export_with_expiration(.., Duration::from_secs(u64::MAX)) PANICKED instead of saturating"),
    }
}

#[test]
fn f2_export_as_keyed_shard_never_expires_panics() {
    let src_dir = TempDir::new("hunt_f2b_src").unwrap();
    let src = write_shard(src_dir.path(), &base_shard(3));
    let dir = TempDir::new("hunt_f2b").unwrap();

    let r = std::panic::catch_unwind(|| {
        src.export_as_keyed_shard(dir.path(), h(77), Duration::MAX, true, true, true)
            .map(|s| s.shard.metadata.shard_key_expiry)
    });
    match r {
        Ok(Ok(expiry)) => assert!(expiry > now_secs() + 1_000_000_000, "expiry {expiry}"),
        Ok(Err(e)) => panic!("export_as_keyed_shard returned an error: {e:?}"),
        Err(_) => panic!("export_as_keyed_shard(.., Duration::MAX, ..) PANICKED instead of saturating"),
    }
}

// ---------------------------------------------------------------------------------------------
// F3.  Re-exporting a shard that is ALREADY keyed.  The export never looks at the key of its
//      source: the chunk hashes get HMAC'ed a second time and the footer names only the new key
//      (or, for the zero key, claims "unkeyed" while holding keyed hashes).  No error is raised
//      and dedup with unkeyed hashes silently stops working for that shard.
// ---------------------------------------------------------------------------------------------
#[tokio::test]
async fn f3_rekeying_a_keyed_shard_silently_breaks_dedup() {
    let src_dir = TempDir::new("hunt_f3_src").unwrap();
    let s = base_shard(4);
    let src = write_shard(src_dir.path(), &s);
    let first_chunk = s.cas_content.values().next().unwrap().chunks[0].chunk_hash;
    let query = vec![first_chunk];

    let m0 = ShardFileManager::new_in_session_directory(src_dir.path()).await.unwrap();
    let orig = m0.chunk_hash_dedup_query(&query).await.unwrap();
    assert!(orig.is_some());

    let k1 = h(1001);
    let k2 = h(1002);

    let d1 = TempDir::new("hunt_f3_k1").unwrap();
    let keyed1 = src
        .export_as_keyed_shard(d1.path(), k1, Duration::from_secs(1000), true, true, true)
        .unwrap();
    let m1 = ShardFileManager::new_in_session_directory(d1.path()).await.unwrap();
    assert_eq!(m1.chunk_hash_dedup_query(&query).await.unwrap(), orig); // fine

    // (a) rotate to a second key
    let d2 = TempDir::new("hunt_f3_k2").unwrap();
    let r2 = keyed1.export_as_keyed_shard(d2.path(), k2, Duration::from_secs(1000), true, true, true);
    // (b) "remove" the key with the zero key
    let d3 = TempDir::new("hunt_f3_k0").unwrap();
    let r3 = keyed1.export_as_keyed_shard(d3.path(), HMACKey::default(), Duration::from_secs(1000), true, true, true);

    let mut failures = vec![];
    if let Ok(out2) = r2 {
        let m2 = ShardFileManager::new_in_session_directory(d2.path()).await.unwrap();
        let a = m2.chunk_hash_dedup_query(&query).await.unwrap();
        let stored = out2.shard.read_all_cas_blocks_full(&mut out2.get_reader().unwrap()).unwrap()[0].chunks[0].chunk_hash;
        if a != orig {
            failures.push(format!(
                "re-key K1->K2 succeeded silently; footer key = K2, stored chunk hash is hmac(hmac(h,K1),K2)={}, \
                 expected keyed form hmac(h,K2)={}; dedup answer {a:?} != original {orig:?}",
                stored == first_chunk.hmac(k1).hmac(k2),
                stored == first_chunk.hmac(k2)
            ));
        }
    }
    if let Ok(out3) = r3 {
        let m3 = ShardFileManager::new_in_session_directory(d3.path()).await.unwrap();
        let a = m3.chunk_hash_dedup_query(&query).await.unwrap();
        let stored = out3.shard.read_all_cas_blocks_full(&mut out3.get_reader().unwrap()).unwrap()[0].chunks[0].chunk_hash;
        if a != orig {
            failures.push(format!(
                "re-export K1->zero key succeeded silently; footer says unkeyed ({:?}) but stored chunk hash is still \
                 hmac(h,K1) ({}); dedup answer {a:?} != original {orig:?}",
                out3.chunk_hmac_key(),
                stored == first_chunk.hmac(k1)
            ));
        }
    }
    assert!(failures.is_empty(), "\n{}", failures.join("\n"));
}

// ---------------------------------------------------------------------------------------------
// F4.  A debug assertion fires on a legitimate input: re-exporting a shard that was itself
//      exported WITHOUT the CAS lookup table, this time WITH it.  The assertion compares the
//      rebuilt table with the (absent, hence 0 entries) table of the source.
// ---------------------------------------------------------------------------------------------
#[test]
fn f4_reexport_of_tableless_shard_trips_debug_assertion() {
    let src_dir = TempDir::new("hunt_f4_src").unwrap();
    let src = write_shard(src_dir.path(), &base_shard(5));

    // step 1: a perfectly valid, loadable shard without the optional tables (zero key = unkeyed)
    let d1 = TempDir::new("hunt_f4_a").unwrap();
    let tableless = src
        .export_as_keyed_shard(d1.path(), HMACKey::default(), Duration::from_secs(1000), true, false, false)
        .unwrap();
    assert_eq!(tableless.shard.metadata.cas_lookup_num_entry, 0);
    assert_eq!(MDBShardFile::load_all_valid(d1.path()).unwrap().len(), 1);

    // step 2: export that shard under a key, asking for the tables to be (re)built.
    let d2 = TempDir::new("hunt_f4_b").unwrap();
    let r = std::panic::catch_unwind(|| {
        tableless
            .export_as_keyed_shard(d2.path(), h(42), Duration::from_secs(1000), true, true, true)
            .map(|s| s.shard.metadata.cas_lookup_num_entry)
    });
    match r {
        Ok(Ok(n)) => assert_eq!(n, 2),
        Ok(Err(e)) => panic!("error {e:?}"),
        Err(_) => panic!("export_as_keyed_shard PANICKED (debug_assert_eq!(cas_lookup.len(), source cas_lookup_num_entry))"),
    }
}

// ---------------------------------------------------------------------------------------------
// F5.  include_file_info == false does not skip the file's data entries: it only discards the
//      verification / metadata-ext bytes and then re-reads every following 48-byte record as if
//      it were a file header.  This happens to resynchronise as long as the bytes that alias
//      `file_flags` (FileDataSequenceEntry::cas_flags) are zero; a segment carrying a flag in
//      bit 31/30 sends the reader off into the xorb section.
// ---------------------------------------------------------------------------------------------
#[test]
fn f5_dropping_file_info_misparses_segments_with_flags() {
    let src_dir = TempDir::new("hunt_f5_src").unwrap();
    let mut s = base_shard(6);
    let mut seg = FileDataSequenceEntry::new(h(6500), 1_000_000u32, 0u32, 1u32);
    seg.cas_flags = 1 << 31; // a flag bit on the xorb reference; opaque to the shard format
    s.add_file_reconstruction_info(MDBFileInfo {
        metadata: FileDataSequenceHeader::new(h(6901), 2u32, false, false),
        segments: vec![seg, FileDataSequenceEntry::new(h(6501), 300u32, 0u32, 3u32)],
        verification: vec![],
        metadata_ext: None,
    })
    .unwrap();
    let src = write_shard(src_dir.path(), &s);

    // keeping the file info works ...
    let d1 = TempDir::new("hunt_f5_a").unwrap();
    src.export_as_keyed_shard(d1.path(), h(43), Duration::from_secs(1000), true, true, true)
        .unwrap();

    // ... dropping it does not.
    let d2 = TempDir::new("hunt_f5_b").unwrap();
    let r = std::panic::catch_unwind(|| {
        src.export_as_keyed_shard(d2.path(), h(43), Duration::from_secs(1000), false, true, true)
            .map(|o| o.read_all_cas_blocks().unwrap().len())
    });
    match r {
        Ok(Ok(n)) => assert_eq!(n, 2, "xorbs lost"),
        Ok(Err(e)) => panic!("export with include_file_info=false failed: {e:?}"),
        Err(_) => panic!("export with include_file_info=false PANICKED (reader ran past the file section)"),
    }
}

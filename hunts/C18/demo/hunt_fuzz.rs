use std::collections::HashMap;
use std::path::Path;
use std::time::Duration;

use mdb_shard::cas_structs::*;
use mdb_shard::file_structs::*;
use mdb_shard::shard_in_memory::MDBInMemoryShard;
use mdb_shard::{MDBShardFile, ShardFileManager};
use merklehash::{HMACKey, MerkleHash};
use rand::prelude::*;
use tempdir::TempDir;

fn rh(rng: &mut StdRng) -> MerkleHash {
    MerkleHash::from([rng.gen(), rng.gen(), rng.gen(), rng.gen()])
}

struct Gen {
    shard: MDBInMemoryShard,
    xorbs: Vec<MDBCASInfo>,
}

fn gen_shard(rng: &mut StdRng, pool: &[MerkleHash], unique: bool, n_xorbs: usize, n_files: usize) -> Gen {
    let mut shard = MDBInMemoryShard::default();
    let mut xorbs = vec![];
    for _ in 0..n_xorbs {
        let n = rng.gen_range(0..12usize);
        let mut chunks = vec![];
        let mut pos = 0u32;
        for _ in 0..n {
            let h = if unique { rh(rng) } else { pool[rng.gen_range(0..pool.len())] };
            let sz = rng.gen_range(1..5000u32);
            chunks.push(CASChunkSequenceEntry::new(h, sz, pos));
            pos += sz;
        }
        let mut md = CASChunkSequenceHeader::new(rh(rng), n, pos);
        md.num_bytes_on_disk = rng.gen_range(0..pos + 1);
        let ci = MDBCASInfo { metadata: md, chunks };
        xorbs.push(ci.clone());
        shard.add_cas_block(ci).unwrap();
    }
    for _ in 0..n_files {
        let n = rng.gen_range(0..6usize);
        let ver = rng.gen_bool(0.5);
        let ext = rng.gen_bool(0.5);
        let segments: Vec<_> = (0..n)
            .map(|_| {
                let lb = rng.gen_range(0..100u32);
                let ub = lb + rng.gen_range(1..100u32);
                FileDataSequenceEntry::new(rh(rng), rng.gen_range(1..100000u32), lb, ub)
            })
            .collect();
        let verification = if ver { (0..n).map(|_| FileVerificationEntry::new(rh(rng))).collect() } else { vec![] };
        let metadata_ext = ext.then(|| FileMetadataExt::new(rh(rng)));
        shard
            .add_file_reconstruction_info(MDBFileInfo {
                metadata: FileDataSequenceHeader::new(rh(rng), n, ver, ext),
                segments,
                verification,
                metadata_ext,
            })
            .unwrap();
    }
    Gen { shard, xorbs }
}

fn queries(rng: &mut StdRng, xorbs: &[MDBCASInfo], pool: &[MerkleHash]) -> Vec<Vec<MerkleHash>> {
    let mut qs = vec![];
    for x in xorbs {
        for s in 0..x.chunks.len() {
            for len in [1usize, 2, 3, 20] {
                let e = (s + len).min(x.chunks.len());
                let mut q: Vec<_> = x.chunks[s..e].iter().map(|c| c.chunk_hash).collect();
                qs.push(q.clone());
                // extension by a foreign hash
                q.push(rh(rng));
                qs.push(q.clone());
                if q.len() > 2 {
                    let i = rng.gen_range(1..q.len());
                    q[i] = pool[rng.gen_range(0..pool.len())];
                    qs.push(q);
                }
            }
        }
    }
    for _ in 0..10 {
        qs.push(vec![rh(rng)]);
    }
    qs
}

fn valid_answer(
    all_xorbs: &HashMap<MerkleHash, Vec<MDBCASInfo>>,
    q: &[MerkleHash],
    ans: &(usize, FileDataSequenceEntry),
) -> bool {
    let (n, fse) = ans;
    if *n == 0 || *n > q.len() {
        return false;
    }
    let Some(xs) = all_xorbs.get(&fse.cas_hash) else { return false };
    xs.iter().any(|x| {
        let s = fse.chunk_index_start as usize;
        let e = fse.chunk_index_end as usize;
        if e - s != *n || e > x.chunks.len() {
            return false;
        }
        let ok = x.chunks[s..e].iter().zip(q.iter()).all(|(c, h)| c.chunk_hash == *h);
        let bytes: u32 = x.chunks[s..e].iter().map(|c| c.unpacked_segment_bytes).sum();
        // maximality
        let maximal = e == x.chunks.len() || *n == q.len() || x.chunks[e].chunk_hash != q[*n];
        ok && bytes == fse.unpacked_segment_bytes && maximal
    })
}

async fn run_case(seed: u64, unique: bool) {
    let mut rng = StdRng::seed_from_u64(seed);
    let pool: Vec<_> = (0..15).map(|_| rh(&mut rng)).collect();
    let keys: Vec<HMACKey> = vec![HMACKey::default(), rh(&mut rng), rh(&mut rng)];

    let orig_dir = TempDir::new("hunt_orig").unwrap();
    let n_shards = rng.gen_range(1..4usize);
    let mut gens = vec![];
    let mut paths = vec![];
    for _ in 0..n_shards {
        let nx = rng.gen_range(0..6);
        let nf = rng.gen_range(0..4);
        let g = gen_shard(&mut rng, &pool, unique, nx, nf);
        if g.shard.is_empty() {
            continue;
        }
        let p = g.shard.write_to_directory(orig_dir.path()).unwrap();
        paths.push(p);
        gens.push(g);
    }
    let mut all_xorbs: HashMap<MerkleHash, Vec<MDBCASInfo>> = HashMap::new();
    let mut flat = vec![];
    for g in &gens {
        for x in &g.xorbs {
            all_xorbs.entry(x.metadata.cas_hash).or_default().push(x.clone());
            flat.push(x.clone());
        }
    }
    let qs = queries(&mut rng, &flat, &pool);

    let m_orig = ShardFileManager::new_in_session_directory(orig_dir.path()).await.unwrap();
    let mut orig_ans = vec![];
    for q in &qs {
        orig_ans.push(m_orig.chunk_hash_dedup_query(q).await.unwrap());
    }

    for flags in 0..8u32 {
        let (fi, cl, ch) = (flags & 1 != 0, flags & 2 != 0, flags & 4 != 0);
        let kd = TempDir::new("hunt_keyed").unwrap();
        let mut outs = vec![];
        for (i, p) in paths.iter().enumerate() {
            let key = keys[(i + seed as usize + flags as usize) % keys.len()];
            let sf = MDBShardFile::load_from_file(p).unwrap();
            let out = sf
                .export_as_keyed_shard(kd.path(), key, Duration::from_secs(1000), fi, cl, ch)
                .unwrap();
            check_export(&sf, &out, key, fi, cl, ch);
            outs.push(out);
        }
        let m = ShardFileManager::new_in_session_directory(kd.path()).await.unwrap();
        for (q, oa) in qs.iter().zip(orig_ans.iter()) {
            let a = m.chunk_hash_dedup_query(q).await.unwrap();
            if unique {
                assert_eq!(&a, oa, "seed {seed} flags {flags} query differs");
            } else {
                assert_eq!(a.is_some(), oa.is_some(), "seed {seed} flags {flags} some/none differs q={q:?}");
                if let Some(a) = &a {
                    assert!(valid_answer(&all_xorbs, q, a), "seed {seed} flags {flags} invalid {a:?}");
                }
                if let Some(a) = oa {
                    assert!(valid_answer(&all_xorbs, q, a), "seed {seed} ORIG invalid {a:?}");
                }
            }
        }
        // file info
        use mdb_shard::shard_file_reconstructor::FileReconstructor;
        for g in &gens {
            for (fh, fi_) in g.shard.file_content.iter() {
                let r = m.get_file_reconstruction_info(fh).await.unwrap();
                if fi {
                    assert_eq!(r.map(|x| x.0), Some(fi_.clone()));
                } else {
                    assert!(r.is_none());
                }
            }
        }
    }
}

fn check_export(src: &MDBShardFile, out: &MDBShardFile, key: HMACKey, fi: bool, cl: bool, ch: bool) {
    let s_cas = src.shard.read_all_cas_blocks_full(&mut src.get_reader().unwrap()).unwrap();
    let o_cas = out.shard.read_all_cas_blocks_full(&mut out.get_reader().unwrap()).unwrap();
    assert_eq!(s_cas.len(), o_cas.len());
    for (a, b) in s_cas.iter().zip(o_cas.iter()) {
        assert_eq!(a.metadata, b.metadata);
        assert_eq!(a.chunks.len(), b.chunks.len());
        for (c, d) in a.chunks.iter().zip(b.chunks.iter()) {
            let expect = if key == HMACKey::default() { c.chunk_hash } else { c.chunk_hash.hmac(key) };
            assert_eq!(d.chunk_hash, expect);
            assert_eq!(c.unpacked_segment_bytes, d.unpacked_segment_bytes);
            assert_eq!(c.chunk_byte_range_start, d.chunk_byte_range_start);
        }
    }
    let s_f = src.read_all_file_info_sections().unwrap();
    let o_f = out.read_all_file_info_sections().unwrap();
    if fi {
        assert_eq!(s_f, o_f);
        assert_eq!(out.shard.metadata.file_lookup_num_entry as usize, s_f.len());
        assert_eq!(out.shard.metadata.materialized_bytes, src.shard.metadata.materialized_bytes);
    } else {
        assert!(o_f.is_empty());
        assert_eq!(out.shard.metadata.file_lookup_num_entry, 0);
    }
    assert_eq!(out.shard.metadata.cas_lookup_num_entry as usize, if cl { s_cas.len() } else { 0 });
    let nchunks: usize = s_cas.iter().map(|c| c.chunks.len()).sum();
    assert_eq!(out.shard.metadata.chunk_lookup_num_entry as usize, if ch { nchunks } else { 0 });
    assert_eq!(out.shard.metadata.stored_bytes, src.shard.metadata.stored_bytes);
    assert_eq!(out.shard.metadata.stored_bytes_on_disk, src.shard.metadata.stored_bytes_on_disk);
    assert_eq!(out.shard.metadata.chunk_hash_hmac_key, key);
    // file-size consistency
    let len = std::fs::metadata(&out.path).unwrap().len();
    assert_eq!(len, out.shard.num_bytes());
    // per-shard query through lookup table when present
    if ch {
        for a in s_cas.iter() {
            if let Some(c) = a.chunks.first() {
                let r = out.chunk_hash_dedup_query(&[c.chunk_hash]).unwrap();
                assert!(r.is_some());
            }
        }
    }
    if cl {
        let lk = out.read_full_cas_lookup().unwrap();
        let slk = src.read_full_cas_lookup().unwrap();
        assert_eq!(lk, slk);
    }
    let _ = Path::new("");
}

#[tokio::test]
async fn fuzz_unique() {
    for seed in 0..40 {
        run_case(seed, true).await;
    }
}

#[tokio::test]
async fn fuzz_dups() {
    for seed in 100..140 {
        run_case(seed, false).await;
    }
}

// Out-of-scope observation check: HF_XET_MAX_CONCURRENT_FILE_INGESTION=0 makes upload_async return Ok with default pointers.
use std::io::Write;
use utils::constant_declarations::ctor_reexport as ctor;

#[ctor::ctor]
fn set_env() {
    std::env::set_var("HF_XET_MAX_CONCURRENT_FILE_INGESTION", "0");
}

#[test]
fn zero_workers() {
    let tmp = tempfile::TempDir::new().unwrap();
    std::env::set_var("HF_HOME", tmp.path());
    let p = tmp.path().join("a.bin");
    std::fs::File::create(&p).unwrap().write_all(&vec![7u8; 100_000]).unwrap();
    let tp = std::sync::Arc::new(xet_threadpool::ThreadPool::new().unwrap());
    let tp2 = tp.clone();
    let path = p.to_string_lossy().to_string();
    let r = tp
        .external_run_async_task(async move {
            data::data_client::upload_async(tp2, vec![path], Some("http://127.0.0.1:1".into()), None, None, None).await
        })
        .unwrap();
    eprintln!("{r:?}");
    let pfs = r.unwrap();
    assert_eq!(pfs[0].filesize(), 100_000);
}

// Exploratory fuzz harness for C03 (pointer depends only on bytes and salt).
use std::sync::Arc;

use data::configurations::TranslatorConfig;
use data::FileUploadSession;
use deduplication::constants::{MAX_XORB_BYTES, MAX_XORB_CHUNKS, TARGET_CHUNK_SIZE};
use deduplication::Chunker;
use merkledb::aggregate_hashes::file_node_hash;
use rand::rngs::StdRng;
use rand::{Rng, RngCore, SeedableRng};
use tempfile::TempDir;
use tokio::task::JoinSet;
use xet_threadpool::ThreadPool;
use utils::constant_declarations::ctor_reexport as ctor;

#[ctor::ctor]
fn set_env() {
    let get = |k: &str, d: &str| std::env::var(k).unwrap_or(d.to_string());
    std::env::set_var("HF_XET_TARGET_CHUNK_SIZE", get("HUNT_TCS", "256"));
    std::env::set_var("HF_XET_MAX_XORB_BYTES", get("HUNT_MXB", "4096"));
    std::env::set_var("HF_XET_MAX_XORB_CHUNKS", get("HUNT_MXC", "6"));
    std::env::set_var("HF_XET_INGESTION_BLOCK_SIZE", get("HUNT_IBS", "777"));
    std::env::set_var("HF_XET_NRANGES_IN_STREAMING_FRAGMENTATION_ESTIMATOR", get("HUNT_NR", "4"));
    std::env::set_var("HF_XET_MDB_SHARD_MIN_TARGET_SIZE", get("HUNT_SMT", "67108864"));
    std::env::set_var("HF_XET_MDB_SHARD_GLOBAL_DEDUP_CHUNK_MODULUS", get("HUNT_GDM", "1024"));
    std::env::set_var("HF_XET_CHUNK_INDEX_TABLE_MAX_SIZE", get("HUNT_CIT", "67108864"));
}

static STATS: std::sync::Mutex<(usize, usize, usize, usize)> = std::sync::Mutex::new((0, 0, 0, 0));

fn reference(data: &[u8], salt: &[u8; 32]) -> (String, u64) {
    let chunks = Chunker::default().next_block(data, true);
    let hl: Vec<_> = chunks.iter().map(|c| (c.hash, c.data.len())).collect();
    assert_eq!(hl.iter().map(|x| x.1).sum::<usize>(), data.len());
    (file_node_hash(&hl, salt).unwrap().hex(), data.len() as u64)
}

fn gen_file(rng: &mut StdRng, blocks: &[Vec<u8>]) -> Vec<u8> {
    let n = rng.gen_range(0..12);
    let mut out = Vec::new();
    for _ in 0..n {
        match rng.gen_range(0..10) {
            0 => {
                let l = rng.gen_range(0..3000);
                out.extend(std::iter::repeat(0u8).take(l));
            },
            1 => {
                let l = rng.gen_range(0..600);
                let mut v = vec![0u8; l];
                rng.fill_bytes(&mut v);
                out.extend(v);
            },
            _ => {
                let b = &blocks[rng.gen_range(0..blocks.len())];
                out.extend_from_slice(b);
            },
        }
    }
    out
}

async fn clean_one(session: Arc<FileUploadSession>, data: Vec<u8>, seed: u64) -> (String, u64) {
    let mut rng = StdRng::seed_from_u64(seed);
    let mut cleaner = session.start_clean("f".to_owned());
    let mut pos = 0;
    let mode = rng.gen_range(0..4);
    while pos < data.len() {
        let l = match mode {
            0 => data.len(),
            1 => rng.gen_range(0..8),
            2 => rng.gen_range(0..2000),
            _ => rng.gen_range(0..300),
        };
        let np = (pos + l).min(data.len());
        cleaner.add_data(&data[pos..np]).await.unwrap();
        pos = np;
        if rng.gen_range(0..4) == 0 {
            tokio::task::yield_now().await;
        }
    }
    let (pf, m) = cleaner.finish().await.unwrap();
    {
        let mut g = STATS.lock().unwrap();
        g.0 += m.deduped_chunks;
        g.1 += m.defrag_prevented_dedup_chunks;
        g.2 += m.deduped_chunks_by_global_dedup;
        g.3 += m.total_chunks;
    }
    (pf.hash_string().clone(), pf.filesize())
}

async fn run_seed(seed: u64) {
    let mut rng = StdRng::seed_from_u64(seed);
    let tmp = TempDir::new().unwrap();
    let mut salt = [0u8; 32];
    if rng.gen_bool(0.5) {
        rng.fill_bytes(&mut salt);
    }
    let mut cfg = Arc::try_unwrap(TranslatorConfig::local_config(tmp.path()).unwrap()).unwrap();
    cfg.shard_config.repo_salt = salt;
    let cfg = Arc::new(cfg);

    let nblocks = rng.gen_range(1..6);
    let blocks: Vec<Vec<u8>> = (0..nblocks)
        .map(|_| {
            let l = rng.gen_range(1..2500);
            let mut v = vec![0u8; l];
            rng.fill_bytes(&mut v);
            v
        })
        .collect();

    let nsessions = rng.gen_range(1..4);
    for _s in 0..nsessions {
        let session = FileUploadSession::new(cfg.clone(), ThreadPool::from_current_runtime(), None)
            .await
            .unwrap();
        let nfiles = rng.gen_range(1..6);
        let mut js = JoinSet::new();
        for _ in 0..nfiles {
            let data = gen_file(&mut rng, &blocks);
            let expect = reference(&data, &salt);
            let sess = session.clone();
            let fseed = rng.gen();
            js.spawn(async move {
                let got = clean_one(sess, data.clone(), fseed).await;
                assert_eq!(got, expect, "seed {seed} len {}", data.len());
            });
        }
        while let Some(r) = js.join_next().await {
            r.unwrap();
        }
        session.finalize().await.unwrap();
    }
}

#[tokio::test(flavor = "multi_thread", worker_threads = 4)]
async fn fuzz() {
    eprintln!("TCS {} MXB {} MXC {}", *TARGET_CHUNK_SIZE, *MAX_XORB_BYTES, *MAX_XORB_CHUNKS);
    let start: u64 = std::env::var("HUNT_START").ok().and_then(|s| s.parse().ok()).unwrap_or(0);
    let n: u64 = std::env::var("HUNT_N").ok().and_then(|s| s.parse().ok()).unwrap_or(200);
    for seed in start..start + n {
        run_seed(seed).await;
    }
    eprintln!("stats (deduped, defrag_prevented, global, total) = {:?}", STATS.lock().unwrap());
}

#[test]
fn chunker_partition_invariance() {
    eprintln!("avx2 {} sse4.2 {}", is_x86_feature_detected!("avx2"), is_x86_feature_detected!("sse4.2"));
    for seed in 0..40u64 {
        let mut rng = StdRng::seed_from_u64(seed);
        for &t in &[128usize, 1024, 8192, 65536] {
            let len = rng.gen_range(0..(t * 40));
            let mut data = vec![0u8; len];
            match seed % 4 {
                0 => rng.fill_bytes(&mut data),
                1 => {
                    // low entropy: few distinct byte values
                    for b in data.iter_mut() {
                        *b = rng.gen_range(0..2);
                    }
                },
                2 => {
                    // periodic
                    let p = rng.gen_range(1..5000);
                    let mut base = vec![0u8; p];
                    rng.fill_bytes(&mut base);
                    for (i, b) in data.iter_mut().enumerate() {
                        *b = base[i % p];
                    }
                },
                _ => {
                    rng.fill_bytes(&mut data);
                    // zero runs
                    let mut i = 0;
                    while i < data.len() {
                        let l = rng.gen_range(0..(3 * t));
                        if rng.gen_bool(0.5) {
                            for b in data[i..(i + l).min(len)].iter_mut() {
                                *b = 0;
                            }
                        }
                        i += l + 1;
                    }
                },
            }
            let reference = Chunker::new(t).next_block(&data, true);
            for _ in 0..4 {
                let mut c = Chunker::new(t);
                let mut out = Vec::new();
                let mut pos = 0;
                let maxstep = [3usize, 70, 1100, 2 * t + 5][rng.gen_range(0..4)];
                while pos < data.len() {
                    let np = (pos + rng.gen_range(0..maxstep)).min(data.len());
                    out.extend(c.next_block(&data[pos..np], false));
                    pos = np;
                }
                out.extend(c.finish());
                assert!(out == reference, "seed {seed} t {t} len {len}");
            }
        }
    }
}

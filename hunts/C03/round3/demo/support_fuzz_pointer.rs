// Randomized harness: pointer (hash,size) must equal the reference for all partitions / store states / concurrency.
use std::sync::Arc;

use data::configurations::TranslatorConfig;
use data::FileUploadSession;
use deduplication::Chunker;
use merkledb::aggregate_hashes::file_node_hash;
use rand::rngs::StdRng;
use rand::{Rng, RngCore, SeedableRng};
use tempfile::TempDir;
use xet_threadpool::ThreadPool;

use std::sync::atomic::AtomicUsize;
static STATS: (AtomicUsize, AtomicUsize, AtomicUsize, AtomicUsize) =
    (AtomicUsize::new(0), AtomicUsize::new(0), AtomicUsize::new(0), AtomicUsize::new(0));

fn reference(data: &[u8], salt: &[u8; 32]) -> (String, u64) {
    let chunks = Chunker::default().next_block(data, true);
    let l: Vec<_> = chunks.iter().map(|c| (c.hash, c.data.len())).collect();
    (file_node_hash(&l, salt).unwrap().hex(), data.len() as u64)
}

fn gen_content(rng: &mut StdRng, pool: &[Vec<u8>], max_pieces: usize) -> Vec<u8> {
    let mut out = Vec::new();
    let n = rng.gen_range(0..=max_pieces);
    for _ in 0..n {
        match rng.gen_range(0..10) {
            0 => {
                // constant run
                let len = rng.gen_range(0..3000);
                let b: u8 = rng.gen_range(0..3);
                out.extend(std::iter::repeat(b).take(len));
            },
            1 => {
                let len = rng.gen_range(0..2000);
                let mut v = vec![0u8; len];
                rng.fill_bytes(&mut v);
                out.extend(v);
            },
            _ => {
                let p = &pool[rng.gen_range(0..pool.len())];
                // sometimes a slice of the pool block
                if rng.gen_bool(0.3) {
                    let a = rng.gen_range(0..=p.len());
                    let b = rng.gen_range(a..=p.len());
                    out.extend_from_slice(&p[a..b]);
                } else {
                    out.extend_from_slice(p);
                }
            },
        }
    }
    out
}

async fn clean_with_partition(
    session: Arc<FileUploadSession>,
    data: Vec<u8>,
    seed: u64,
) -> (String, u64) {
    let mut rng = StdRng::seed_from_u64(seed);
    let mut cleaner = session.start_clean("f".to_owned());
    let mode = rng.gen_range(0..4);
    let mut pos = 0;
    while pos < data.len() {
        let l = match mode {
            0 => data.len(),
            1 => rng.gen_range(0..64),
            2 => rng.gen_range(0..5000),
            _ => {
                if rng.gen_bool(0.5) {
                    rng.gen_range(0..10)
                } else {
                    rng.gen_range(0..20000)
                }
            },
        };
        let np = (pos + l).min(data.len());
        cleaner.add_data(&data[pos..np]).await.unwrap();
        pos = np;
        if rng.gen_bool(0.05) {
            tokio::task::yield_now().await;
        }
    }
    if rng.gen_bool(0.2) {
        cleaner.add_data(&[]).await.unwrap();
    }
    let (pf, m) = cleaner.finish().await.unwrap();
    assert_eq!(m.total_bytes as u64, pf.filesize());
    STATS.0.fetch_add(m.deduped_chunks_by_global_dedup, std::sync::atomic::Ordering::Relaxed);
    STATS.1.fetch_add(m.deduped_chunks, std::sync::atomic::Ordering::Relaxed);
    STATS.2.fetch_add(m.defrag_prevented_dedup_chunks, std::sync::atomic::Ordering::Relaxed);
    STATS.3.fetch_add(m.total_chunks, std::sync::atomic::Ordering::Relaxed);
    (pf.hash_string().clone(), pf.filesize())
}

#[cfg(not(feature = "verif"))]
async fn make_session(cas: &std::path::Path, _rng: &mut StdRng) -> Arc<FileUploadSession> {
    let config = TranslatorConfig::local_config(cas).unwrap();
    FileUploadSession::new(config, ThreadPool::from_current_runtime(), None).await.unwrap()
}

#[cfg(feature = "verif")]
async fn make_session(cas: &std::path::Path, rng: &mut StdRng) -> Arc<FileUploadSession> {
    use data::configurations::*;
    let k = rng.gen_range(0..4);
    let path = cas.join("xet");
    std::fs::create_dir_all(&path).unwrap();
    let cache_dir = path.join(format!("shard-cache-{k}"));
    std::fs::create_dir_all(&cache_dir).unwrap();
    let config = Arc::new(TranslatorConfig {
        data_config: DataConfig {
            endpoint: Endpoint::FileSystem(path.join("xorbs")),
            compression: Default::default(),
            auth: None,
            prefix: "default".into(),
            cache_config: data::CacheConfig {
                cache_directory: path.join("cache"),
                cache_size: 1 << 30,
            },
            staging_directory: None,
        },
        shard_config: ShardConfig {
            prefix: "default".into(),
            cache_directory: cache_dir.clone(),
            session_directory: path.join(format!("shard-session-{k}")),
            global_dedup_policy: Default::default(),
            repo_salt: [0u8; 32],
        },
        repo_info: Some(RepoInfo { repo_paths: vec!["".into()] }),
    });
    let stage = path.join(format!("stage-{k}"));
    std::fs::create_dir_all(&stage).unwrap();
    let client = Arc::new(wrap::Wrap {
        inner: cas_client::LocalClient::new(path.join("xorbs"), Some(stage)).unwrap(),
        cache_dir,
        lock: tokio::sync::Mutex::new(()),
    });
    FileUploadSession::new_with_client(config, ThreadPool::from_current_runtime(), None, client, false)
        .await
        .unwrap()
}

#[tokio::test(flavor = "multi_thread", worker_threads = 4)]
async fn fuzz_pointer() {
    let n_iter: u64 = std::env::var("HUNT_ITERS").ok().and_then(|s| s.parse().ok()).unwrap_or(30);
    let base_seed: u64 = std::env::var("HUNT_SEED").ok().and_then(|s| s.parse().ok()).unwrap_or(0);
    let salt = [0u8; 32];

    let tmp = TempDir::new().unwrap();
    let cas = tmp.path().join("cas");

    let mut rng = StdRng::seed_from_u64(base_seed);
    // pool of blocks
    let mut pool = Vec::new();
    for _ in 0..6 {
        let len = rng.gen_range(1..6000);
        let mut v = vec![0u8; len];
        rng.fill_bytes(&mut v);
        pool.push(v);
    }

    for it in 0..n_iter {
        let session = make_session(&cas, &mut rng).await;
        let n_files = rng.gen_range(1..6);
        let mut tasks = Vec::new();
        let mut expected = Vec::new();
        for f in 0..n_files {
            let content = gen_content(&mut rng, &pool, 40);
            expected.push(reference(&content, &salt));
            let s = session.clone();
            let seed = rng.gen();
            if rng.gen_bool(0.5) {
                tasks.push(tokio::spawn(clean_with_partition(s, content, seed)));
            } else {
                // sequential
                let r = clean_with_partition(s, content, seed).await;
                assert_eq!(r, expected[f], "iter {it} file {f} (sequential)");
                tasks.push(tokio::spawn(async move { r }));
            }
        }
        for (f, t) in tasks.into_iter().enumerate() {
            let r = t.await.unwrap();
            assert_eq!(r, expected[f], "iter {it} file {f}");
        }
        if rng.gen_bool(0.8) {
            session.finalize().await.unwrap();
        }
    }
    eprintln!("STATS global/deduped/defrag/total = {:?}", STATS);
}

#[cfg(feature = "verif")]
mod wrap {
    use std::path::PathBuf;
    use std::sync::Arc;

    use async_trait::async_trait;
    use cas_client::{
        CasClientError, Client, LocalClient, OutputProvider, ReconstructionClient, ShardClientInterface, UploadClient,
        VerifRegistrationClient, VerifShardDedupProber,
    };
    use cas_types::FileRange;
    use mdb_shard::file_structs::MDBFileInfo;
    use mdb_shard::shard_file_reconstructor::FileReconstructor;
    use merklehash::MerkleHash;
    use utils::progress::ProgressUpdater;

    type Result<T> = std::result::Result<T, CasClientError>;

    /// LocalClient, except that a shard found by the global dedup query is placed in the cache directory atomically.
    pub struct Wrap {
        pub inner: LocalClient,
        pub cache_dir: PathBuf,
        pub lock: tokio::sync::Mutex<()>,
    }

    #[async_trait]
    impl UploadClient for Wrap {
        async fn put(&self, prefix: &str, hash: &MerkleHash, data: Vec<u8>, cb: Vec<(MerkleHash, u32)>) -> Result<usize> {
            self.inner.put(prefix, hash, data, cb).await
        }
        async fn exists(&self, prefix: &str, hash: &MerkleHash) -> Result<bool> {
            self.inner.exists(prefix, hash).await
        }
    }
    #[async_trait]
    impl ReconstructionClient for Wrap {
        async fn get_file(
            &self,
            hash: &MerkleHash,
            byte_range: Option<FileRange>,
            output_provider: &OutputProvider,
            progress_updater: Option<Arc<dyn ProgressUpdater>>,
        ) -> Result<u64> {
            self.inner.get_file(hash, byte_range, output_provider, progress_updater).await
        }
    }
    #[async_trait]
    impl VerifShardDedupProber for Wrap {
        async fn query_for_global_dedup_shard(
            &self,
            prefix: &str,
            chunk_hash: &MerkleHash,
            salt: &[u8; 32],
        ) -> Result<Option<PathBuf>> {
            let _g = self.lock.lock().await;
            let Some(p) = self.inner.query_for_global_dedup_shard(prefix, chunk_hash, salt).await? else {
                return Ok(None);
            };
            let dest = self.cache_dir.join(p.file_name().unwrap());
            if dest.exists() {
                std::fs::remove_file(&p)?;
            } else {
                std::fs::rename(&p, &dest)?;
            }
            Ok(Some(dest))
        }
    }
    #[async_trait]
    impl VerifRegistrationClient for Wrap {
        async fn upload_shard(
            &self,
            prefix: &str,
            hash: &MerkleHash,
            force_sync: bool,
            shard_data: &[u8],
            salt: &[u8; 32],
        ) -> Result<bool> {
            self.inner.upload_shard(prefix, hash, force_sync, shard_data, salt).await
        }
    }
    #[async_trait]
    impl FileReconstructor<CasClientError> for Wrap {
        async fn get_file_reconstruction_info(
            &self,
            file_hash: &MerkleHash,
        ) -> Result<Option<(MDBFileInfo, Option<MerkleHash>)>> {
            self.inner.get_file_reconstruction_info(file_hash).await
        }
    }
    impl ShardClientInterface for Wrap {}
    impl Client for Wrap {}
}

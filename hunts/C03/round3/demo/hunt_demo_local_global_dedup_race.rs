// Demo (needs `--features verif` for FileUploadSession::new_with_client):
//
// A session whose client is the repository's own LocalClient *with* a shard cache directory
// (LocalClient::new(path, Some(cache)), as in LocalClient::temporary_with_global_dedup) answers the global
// dedup query with std::fs::copy(shard -> cache/shard) (cas_client/src/local_client.rs:374).  fs::copy
// truncates the destination and rewrites it.  FileDeduper::process_chunks issues one background query per
// eligible chunk (a JoinSet), so several copies onto the *same* destination run at the same time while
// SessionShardInterface::query_dedup_shard_by_chunk -> register_shards_by_path of an earlier answer is
// reading that very file.  The clean then fails (UnexpectedEof / integrity assertion) instead of yielding
// the pointer that the same bytes yield otherwise.
#![cfg(feature = "verif")]

use std::path::Path;
use std::sync::Arc;

use data::configurations::*;
use data::FileUploadSession;
use rand::rngs::StdRng;
use rand::{RngCore, SeedableRng};
use tempfile::TempDir;
use xet_threadpool::ThreadPool;

async fn session(base: &Path, cache_name: &str) -> Arc<FileUploadSession> {
    let path = base.join("xet");
    let cache_dir = path.join(cache_name);
    std::fs::create_dir_all(&cache_dir).unwrap();
    let config = Arc::new(TranslatorConfig {
        data_config: DataConfig {
            endpoint: Endpoint::FileSystem(path.join("xorbs")),
            compression: Default::default(),
            auth: None,
            prefix: "default".into(),
            cache_config: data::CacheConfig {
                cache_directory: path.join("cache"),
                cache_size: 1 << 30,
            },
            staging_directory: None,
        },
        shard_config: ShardConfig {
            prefix: "default".into(),
            cache_directory: cache_dir.clone(),
            session_directory: path.join(format!("session-{cache_name}")),
            global_dedup_policy: GlobalDedupPolicy::Always,
            repo_salt: [0u8; 32],
        },
        repo_info: Some(RepoInfo {
            repo_paths: vec!["".into()],
        }),
    });
    let client = Arc::new(cas_client::LocalClient::new(path.join("xorbs"), Some(cache_dir)).unwrap());
    FileUploadSession::new_with_client(config, ThreadPool::from_current_runtime(), None, client, false)
        .await
        .unwrap()
}

async fn clean(s: &Arc<FileUploadSession>, data: &[u8]) -> data::errors::Result<(String, u64)> {
    let mut c = s.start_clean("f".into());
    c.add_data(data).await?;
    let (pf, _) = c.finish().await?;
    Ok((pf.hash_string().clone(), pf.filesize()))
}

#[tokio::test(flavor = "multi_thread", worker_threads = 8)]
async fn same_bytes_same_pointer_with_global_dedup_shard_in_store() {
    let tmp = TempDir::new().unwrap();
    let mut data = vec![0u8; 3_000_000];
    StdRng::seed_from_u64(7).fill_bytes(&mut data);

    // Store state: the bytes were uploaded before by somebody with another shard cache.
    let s1 = session(tmp.path(), "cache-first").await;
    let expected = clean(&s1, &data).await.unwrap();
    s1.finalize().await.unwrap();

    // Now clean the same bytes again, one file at a time, each time starting from an empty shard cache so
    // that the dedup information has to come from the global dedup query.
    for round in 0..20 {
        let s = session(tmp.path(), &format!("cache-{round}")).await;
        let got = clean(&s, &data).await;
        match got {
            Ok(p) => assert_eq!(p, expected),
            Err(e) => panic!("round {round}: cleaning the same bytes failed instead of giving {expected:?}: {e:?}"),
        }
    }
}

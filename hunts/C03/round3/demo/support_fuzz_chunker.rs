use deduplication::Chunker;
use rand::rngs::StdRng;
use rand::{Rng, RngCore, SeedableRng};

fn lens(c: &[deduplication::Chunk]) -> Vec<usize> {
    c.iter().map(|c| c.data.len()).collect()
}

#[test]
fn chunk_partition_invariance() {
    for &target in &[128usize, 1024, 4096, 16384, 65536] {
        for seed in 0..6u64 {
            let mut rng = StdRng::seed_from_u64(seed * 1000 + target as u64);
            let n = rng.gen_range(0..(target * 40));
            let mut data = vec![0u8; n];
            match seed % 3 {
                0 => rng.fill_bytes(&mut data),
                1 => {
                    // low entropy
                    for b in data.iter_mut() {
                        *b = if rng.gen_bool(0.9) { 0 } else { rng.gen_range(0..4) };
                    }
                },
                _ => {
                    // repeated pattern
                    let p = rng.gen_range(1..5000);
                    let mut pat = vec![0u8; p];
                    rng.fill_bytes(&mut pat);
                    for (i, b) in data.iter_mut().enumerate() {
                        *b = pat[i % p];
                    }
                },
            }
            let whole = Chunker::new(target).next_block(&data, true);
            for mode in 0..5 {
                let mut ch = Chunker::new(target);
                let mut out = Vec::new();
                let mut pos = 0;
                while pos < data.len() {
                    let l = match mode {
                        0 => 1,
                        1 => rng.gen_range(0..100),
                        2 => rng.gen_range(0..3000),
                        3 => rng.gen_range(1000..1100),
                        _ => rng.gen_range(0..(4 * target)),
                    };
                    let np = (pos + l).min(data.len());
                    out.extend(ch.next_block(&data[pos..np], false));
                    pos = np;
                }
                if let Some(c) = ch.finish() {
                    out.push(c);
                }
                assert_eq!(lens(&out), lens(&whole), "target {target} seed {seed} mode {mode}");
                assert!(out == whole);
            }
        }
    }
}

//! Supporting demo (same root cause as finding 3): with HF_XET_INGESTION_BLOCK_SIZE=0 (an
//! env-configurable constant, also in release builds) data_client::clean_file allocates an empty
//! read buffer, read() returns 0, and EVERY file is given the pointer of the empty file.
//! (SingleFileCleaner::add_data called directly with a non-empty slice loops forever instead.)
//!
//! Run with: cargo test --offline -p data --test hunt_demo_blocksize0

use data::configurations::TranslatorConfig;
use data::data_client::clean_file;
use data::FileUploadSession;
use tempfile::TempDir;
use xet_threadpool::ThreadPool;

use utils::constant_declarations::ctor_reexport as ctor;

#[ctor::ctor]
fn set_env() {
    std::env::set_var("HF_XET_INGESTION_BLOCK_SIZE", "0");
}

#[tokio::test(flavor = "multi_thread", worker_threads = 2)]
async fn clean_file_with_block_size_zero() {
    let dir = TempDir::new().unwrap();
    let path = dir.path().join("data.bin");
    std::fs::write(&path, vec![42u8; 5000]).unwrap();

    let session = FileUploadSession::new(
        TranslatorConfig::local_config(dir.path().join("store")).unwrap(),
        ThreadPool::from_current_runtime(),
        None,
    )
    .await
    .unwrap();
    let (pf, _m) = clean_file(session.clone(), &path).await.unwrap();
    session.finalize().await.unwrap();
    eprintln!("got: hash {} size {}", pf.hash_string(), pf.filesize());
    assert_eq!(pf.filesize(), 5000, "DEFECT: 5000-byte file got the empty-file pointer");
}

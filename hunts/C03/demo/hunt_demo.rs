//! Demonstrations for property C03:
//!   "A file's pointer (hash, size) depends only on its bytes and the salt; different salts give
//!    different hashes for the same bytes."
//!
//! Every test below runs against the unmodified sources and FAILS because of the defect it shows.
//!
//! Run with:  cargo test --offline -p data --test hunt_demo -- --test-threads=1

use std::sync::Arc;

use data::configurations::TranslatorConfig;
use data::data_client::clean_file;
use data::{FileUploadSession, PointerFile};
use mdb_shard::cas_structs::{CASChunkSequenceEntry, CASChunkSequenceHeader, MDBCASInfo};
use mdb_shard::shard_in_memory::MDBInMemoryShard;
use merklehash::{compute_data_hash, MerkleHash};
use tempfile::TempDir;
use xet_threadpool::ThreadPool;

fn config_with_salt(base: &std::path::Path, salt: [u8; 32]) -> Arc<TranslatorConfig> {
    let cfg = TranslatorConfig::local_config(base).unwrap();
    let mut cfg = Arc::try_unwrap(cfg).unwrap();
    cfg.shard_config.repo_salt = salt;
    Arc::new(cfg)
}

/// Cleans `data` (split into the given pieces) in a brand new session on the store at `base`.
async fn clean_bytes(base: &std::path::Path, salt: [u8; 32], pieces: &[&[u8]]) -> PointerFile {
    let session = FileUploadSession::new(config_with_salt(base, salt), ThreadPool::from_current_runtime(), None)
        .await
        .unwrap();
    let mut cleaner = session.start_clean("file".to_owned());
    for p in pieces {
        cleaner.add_data(p).await.unwrap();
    }
    let (pf, _metrics) = cleaner.finish().await.unwrap();
    session.finalize().await.unwrap();
    pf
}

/// FINDING 1.  The empty file gets the all-zero hash whatever the salt is:
/// merkledb::aggregate_hashes::file_node_hash returns MerkleHash::default() for an empty chunk
/// list *before* the salt is applied.
#[tokio::test(flavor = "multi_thread", worker_threads = 2)]
async fn finding1_empty_file_hash_ignores_the_salt() {
    let salt_a = [0x11u8; 32];
    let salt_b = [0x22u8; 32];

    // Control: for a non-empty file the two salts give two different hashes.
    let dir = TempDir::new().unwrap();
    let a = clean_bytes(&dir.path().join("a"), salt_a, &[b"x"]).await;
    let b = clean_bytes(&dir.path().join("b"), salt_b, &[b"x"]).await;
    assert_ne!(a.hash_string(), b.hash_string(), "control: salts must separate non-empty files");

    // The same bytes (none), two salts.
    let ea = clean_bytes(&dir.path().join("ea"), salt_a, &[]).await;
    let eb = clean_bytes(&dir.path().join("eb"), salt_b, &[b"", b""]).await;
    assert_eq!(ea.filesize(), 0);
    assert_eq!(eb.filesize(), 0);
    eprintln!("empty file, salt A: {}", ea.hash_string());
    eprintln!("empty file, salt B: {}", eb.hash_string());

    assert_ne!(
        ea.hash_string(),
        eb.hash_string(),
        "DEFECT: the pointer hash of the empty file is the same ({}) under two different salts",
        ea.hash_string()
    );
}

/// FINDING 2.  The pointer's filesize is not counted from the bytes handed to add_data; for
/// deduplicated chunks it is copied from `unpacked_segment_bytes` of whatever shard answered the
/// dedup query (deduplication/src/file_deduplication.rs:185-187).  So the size in the pointer
/// depends on what is in the store: a shard (e.g. one fetched through global dedup, or written by
/// another client) that lists the chunk hash with another length changes the pointer of the same bytes.
#[tokio::test(flavor = "multi_thread", worker_threads = 2)]
async fn finding2_pointer_size_is_copied_from_store_metadata() {
    let salt = [7u8; 32];
    let data: Vec<u8> = (0..1000u32).map(|i| (i * 31 % 251) as u8).collect(); // one chunk

    // Store 1: empty.  Reference pointer.
    let dir1 = TempDir::new().unwrap();
    let reference = clean_bytes(dir1.path(), salt, &[&data]).await;
    assert_eq!(reference.filesize(), data.len() as u64);

    // Store 2: its shard cache already knows the chunk hash, as the single chunk of some xorb, but
    // records a different unpacked length for it.
    let dir2 = TempDir::new().unwrap();
    let cfg = config_with_salt(dir2.path(), salt);
    std::fs::create_dir_all(&cfg.shard_config.cache_directory).unwrap();
    let chunk_hash = compute_data_hash(&data);
    let recorded_len = 17usize;
    let mut shard = MDBInMemoryShard::default();
    shard
        .add_cas_block(MDBCASInfo {
            metadata: CASChunkSequenceHeader::new(MerkleHash::from([5u64, 6, 7, 8]), 1u32, recorded_len as u32),
            chunks: vec![CASChunkSequenceEntry::new(chunk_hash, recorded_len as u32, 0u32)],
        })
        .unwrap();
    shard.write_to_directory(&cfg.shard_config.cache_directory).unwrap();
    drop(cfg);

    let got = clean_bytes(dir2.path(), salt, &[&data]).await;
    eprintln!("reference: hash {} size {}", reference.hash_string(), reference.filesize());
    eprintln!("store 2  : hash {} size {}", got.hash_string(), got.filesize());

    assert_eq!(got.hash_string(), reference.hash_string(), "the hash is (correctly) unaffected");
    assert_eq!(
        got.filesize(),
        data.len() as u64,
        "DEFECT: same {} bytes, same salt, but the pointer says filesize {} because of what the store contained",
        data.len(),
        got.filesize()
    );
}

/// FINDING 3.  data_client::clean_file sizes its read buffer as min(metadata.len(), INGESTION_BLOCK_SIZE).
/// For a file whose metadata length is 0 but which does have bytes (procfs/sysfs files, FIFOs, a file
/// that is being written while it is cleaned) the buffer is empty, read() returns 0, and the pointer
/// of the *empty* file (hash 00..0, size 0) is returned for non-empty content.
#[cfg(target_os = "linux")]
#[tokio::test(flavor = "multi_thread", worker_threads = 2)]
async fn finding3_clean_file_returns_empty_pointer_for_zero_length_metadata() {
    let path = "/proc/version";
    let bytes = std::fs::read(path).unwrap();
    assert!(!bytes.is_empty());
    assert_eq!(std::fs::metadata(path).unwrap().len(), 0, "procfs reports length 0");

    let salt = [0u8; 32];
    let dir = TempDir::new().unwrap();

    // What the pointer of these bytes is.
    let expected = clean_bytes(&dir.path().join("ref"), salt, &[&bytes]).await;

    // What clean_file produces for the file.
    let session = FileUploadSession::new(
        config_with_salt(&dir.path().join("cf"), salt),
        ThreadPool::from_current_runtime(),
        None,
    )
    .await
    .unwrap();
    let (pf, _m) = clean_file(session.clone(), path).await.unwrap();
    session.finalize().await.unwrap();

    eprintln!("bytes in file: {}", bytes.len());
    eprintln!("expected: hash {} size {}", expected.hash_string(), expected.filesize());
    eprintln!("got     : hash {} size {}", pf.hash_string(), pf.filesize());

    assert_eq!(
        (pf.hash_string().clone(), pf.filesize()),
        (expected.hash_string().clone(), expected.filesize()),
        "DEFECT: clean_file produced the empty-file pointer for a file that has {} bytes",
        bytes.len()
    );
}

// Exploratory fuzz: pointer (hash,size) must only depend on bytes + salt.
use std::sync::Arc;

use data::configurations::TranslatorConfig;
use data::{FileUploadSession, PointerFile};
use deduplication::constants::{MAX_XORB_BYTES, MAX_XORB_CHUNKS, TARGET_CHUNK_SIZE};
use rand::rngs::StdRng;
use rand::{Rng, RngCore, SeedableRng};
use tempfile::TempDir;
use utils::test_set_globals;
use xet_threadpool::ThreadPool;

test_set_globals! {
    TARGET_CHUNK_SIZE = 1024;
    MAX_XORB_BYTES = 6 * 1024;
    MAX_XORB_CHUNKS = 5;
}

#[ctor::ctor]
fn set_more() {
    std::env::set_var("HF_XET_INGESTION_BLOCK_SIZE", "3001");
    std::env::set_var("HF_XET_NRANGES_IN_STREAMING_FRAGMENTATION_ESTIMATOR", "4");
    std::env::set_var("HF_XET_MDB_SHARD_MIN_TARGET_SIZE", "2000");
    std::env::set_var("HF_XET_MDB_SHARD_GLOBAL_DEDUP_CHUNK_MODULUS", "2");
}

fn config(dir: &std::path::Path, salt: [u8; 32]) -> Arc<TranslatorConfig> {
    let c = TranslatorConfig::local_config(dir).unwrap();
    let mut c = Arc::try_unwrap(c).unwrap();
    c.shard_config.repo_salt = salt;
    Arc::new(c)
}

fn gen_content(rng: &mut StdRng, pool: &[Vec<u8>]) -> Vec<u8> {
    let kind = rng.gen_range(0..6);
    let len = match rng.gen_range(0..4) {
        0 => rng.gen_range(0..200),
        1 => rng.gen_range(0..5000),
        _ => rng.gen_range(0..40000),
    };
    let mut v = vec![0u8; len];
    match kind {
        0 => rng.fill_bytes(&mut v),
        1 => {},
        2 => {
            let p = rng.gen_range(1..3000usize);
            let mut pat = vec![0u8; p];
            rng.fill_bytes(&mut pat);
            for (i, b) in v.iter_mut().enumerate() {
                *b = pat[i % p];
            }
        },
        _ => {
            // splice from pool with random new data in between
            v.clear();
            while v.len() < len {
                if !pool.is_empty() && rng.gen_bool(0.7) {
                    let src = &pool[rng.gen_range(0..pool.len())];
                    if src.is_empty() {
                        continue;
                    }
                    let a = rng.gen_range(0..src.len());
                    let b = rng.gen_range(a..=src.len());
                    v.extend_from_slice(&src[a..b]);
                } else {
                    let n = rng.gen_range(0..3000);
                    let mut t = vec![0u8; n];
                    rng.fill_bytes(&mut t);
                    v.extend_from_slice(&t);
                }
            }
        },
    }
    v
}

async fn clean_part(session: &Arc<FileUploadSession>, data: &[u8], rng: &mut StdRng, oneshot: bool) -> PointerFile {
    let mut cleaner = session.start_clean("f".into());
    if oneshot {
        cleaner.add_data(data).await.unwrap();
    } else {
        let mut pos = 0;
        let mode = rng.gen_range(0..4);
        while pos < data.len() {
            let n = match mode {
                0 => rng.gen_range(0..8),
                1 => rng.gen_range(0..300),
                2 => rng.gen_range(0..9000),
                _ => {
                    if rng.gen_bool(0.5) {
                        rng.gen_range(0..70)
                    } else {
                        rng.gen_range(0..7000)
                    }
                },
            };
            let e = (pos + n).min(data.len());
            cleaner.add_data(&data[pos..e]).await.unwrap();
            pos = e;
            if rng.gen_bool(0.1) {
                tokio::task::yield_now().await;
            }
        }
    }
    let (pf, m) = cleaner.finish().await.unwrap();
    assert_eq!(m.total_bytes, data.len());
    pf
}

async fn reference(data: &[u8], salt: [u8; 32]) -> PointerFile {
    let dir = TempDir::new().unwrap();
    let session = FileUploadSession::new(config(dir.path(), salt), ThreadPool::from_current_runtime(), None)
        .await
        .unwrap();
    let mut rng = StdRng::seed_from_u64(0);
    let pf = clean_part(&session, data, &mut rng, true).await;
    session.finalize().await.unwrap();
    pf
}

#[tokio::test(flavor = "multi_thread", worker_threads = 4)]
async fn fuzz_pointer_determinism() {
    let n_iter: u64 = std::env::var("HUNT_ITERS").ok().and_then(|s| s.parse().ok()).unwrap_or(40);
    let start: u64 = std::env::var("HUNT_START").ok().and_then(|s| s.parse().ok()).unwrap_or(0);
    for seed in start..start + n_iter {
        let mut rng = StdRng::seed_from_u64(seed);
        let salt = [seed as u8; 32];
        let store = TempDir::new().unwrap();
        let mut pool: Vec<Vec<u8>> = Vec::new();
        // several sessions on the same store
        for _sess in 0..3 {
            let session =
                FileUploadSession::new(config(store.path(), salt), ThreadPool::from_current_runtime(), None)
                    .await
                    .unwrap();
            let nfiles = rng.gen_range(1..5);
            let mut files = Vec::new();
            for _ in 0..nfiles {
                let c = gen_content(&mut rng, &pool);
                pool.push(c.clone());
                files.push(c);
            }
            let concurrent = rng.gen_bool(0.5);
            let mut results = Vec::new();
            if concurrent {
                let mut js = tokio::task::JoinSet::new();
                for (i, f) in files.iter().enumerate() {
                    let s = session.clone();
                    let f = f.clone();
                    let mut r = StdRng::seed_from_u64(rng.gen());
                    js.spawn(async move { (i, clean_part(&s, &f, &mut r, false).await) });
                }
                let mut rs = js.join_all().await;
                rs.sort_by_key(|x| x.0);
                results = rs.into_iter().map(|x| x.1).collect();
            } else {
                for f in files.iter() {
                    results.push(clean_part(&session, f, &mut rng, false).await);
                }
            }
            session.finalize().await.unwrap();
            for (f, pf) in files.iter().zip(results.iter()) {
                let r = reference(f, salt).await;
                assert_eq!(pf.filesize(), f.len() as u64, "seed {seed}");
                assert_eq!(pf.hash_string(), r.hash_string(), "seed {seed} len {}", f.len());
                assert_eq!(r.filesize(), f.len() as u64);
            }
        }
        eprintln!("seed {seed} ok");
    }
}

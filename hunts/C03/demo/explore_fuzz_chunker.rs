use deduplication::Chunker;
use rand::rngs::StdRng;
use rand::{Rng, RngCore, SeedableRng};

fn reference(target: usize, data: &[u8]) -> Vec<usize> {
    // independent scalar model of the chunker
    let table = &gearhash::DEFAULT_TABLE;
    let min = target / 8;
    let max = target * 2;
    let mask = ((target - 1) as u64) << ((target - 1) as u64).leading_zeros();
    let mut out = vec![];
    let mut start = 0;
    while start < data.len() {
        let mut h: u64 = 0;
        let mut len = 0usize;
        let mut cut = false;
        let skip = if 64 < min { min - 64 - 1 } else { 0 };
        let mut i = start;
        while i < data.len() {
            len += 1;
            if len > skip {
                h = (h << 1).wrapping_add(table[data[i] as usize]);
                if h & mask == 0 { cut = true; }
            }
            if len >= max { cut = true; }
            i += 1;
            if cut { break; }
        }
        out.push(len);
        start += len;
    }
    out
}

#[test]
fn chunk_fuzz() {
    for seed in 0..400u64 {
        let mut rng = StdRng::seed_from_u64(seed);
        let target = [128usize, 256, 512, 1024, 4096, 65536][rng.gen_range(0..6)];
        let len = rng.gen_range(0..target * 12);
        let mut data = vec![0u8; len];
        match rng.gen_range(0..4) {
            0 => rng.fill_bytes(&mut data),
            1 => { let b = rng.gen::<u8>(); data.iter_mut().for_each(|x| *x = b); },
            2 => { let p = rng.gen_range(1..200usize); let mut pat = vec![0u8; p]; rng.fill_bytes(&mut pat); for (i, b) in data.iter_mut().enumerate() { *b = pat[i % p]; } },
            _ => { for b in data.iter_mut() { *b = rng.gen_range(0..3); } },
        }
        let expect = reference(target, &data);
        assert_eq!(expect.iter().sum::<usize>(), data.len());
        for trial in 0..4 {
            let mut c = Chunker::new(target);
            let mut got = vec![];
            let mut pos = 0;
            while pos < data.len() {
                let n = match trial { 0 => data.len(), 1 => rng.gen_range(0..5), 2 => rng.gen_range(0..target), _ => rng.gen_range(0..3 * target + 2000) };
                let e = (pos + n).min(data.len());
                for ch in c.next_block(&data[pos..e], false) { got.push(ch.data.len()); }
                pos = e;
            }
            if let Some(ch) = c.finish() { got.push(ch.data.len()); }
            assert_eq!(got, expect, "seed {seed} target {target} trial {trial}");
        }
    }
}

//! C13 demo C: capacities above u64::MAX/2 (e.g. u64::MAX used as "unlimited").
//! `initialize_state` computes `2 * capacity` unchecked:
//!   * debug build: DiskCache::initialize panics ("attempt to multiply with overflow"), even for
//!     an empty directory;
//!   * release build: the product wraps (capacity 2^63 -> 0), the directory scan stops after the
//!     first cache file, and after re-opening with the SAME capacity the remaining cache files on
//!     disk belong to no tracked entry and the counters miss them.
//! No item is anywhere near the capacity, so the property's only proviso is satisfied.
//!
//! run (debug):   cargo test -p chunk_cache --features verif --offline --test hunt_c13_capacity_overflow -- --nocapture
//! run (release): cargo test --release -p chunk_cache --features verif --offline --test hunt_c13_capacity_overflow -- --nocapture

use cas_types::{ChunkRange, Key};
use chunk_cache::{CacheConfig, ChunkCache, DiskCache};
use merklehash::MerkleHash;

fn key(n: u8) -> Key {
    Key {
        prefix: "default".into(),
        hash: MerkleHash::from_slice(&[n; 32]).unwrap(),
    }
}

fn reopen_keeps_everything_tracked(capacity: u64) {
    let root = tempdir::TempDir::new("hunt_c13_c").unwrap();
    let config = CacheConfig {
        cache_directory: root.path().to_path_buf(),
        cache_size: capacity,
    };
    // debug build: panics right here (arithmetic overflow in initialize_state)
    let cache = DiskCache::initialize(&config).unwrap();
    let range = ChunkRange { start: 0, end: 1 };
    for n in 1..=3u8 {
        cache.put(&key(n), &range, &[0, 1000], &[n; 1000]).unwrap();
    }
    println!("before re-open: {} items / {} bytes", cache.num_items().unwrap(), cache.total_bytes().unwrap());
    drop(cache);

    let mut disk = (0usize, 0u64);
    for p in std::fs::read_dir(root.path()).unwrap() {
        for k in std::fs::read_dir(p.unwrap().path()).unwrap() {
            for f in std::fs::read_dir(k.unwrap().path()).unwrap() {
                disk = (disk.0 + 1, disk.1 + f.unwrap().metadata().unwrap().len());
            }
        }
    }
    let cache = DiskCache::initialize(&config).unwrap();
    println!(
        "after  re-open: {} items / {} bytes; on disk: {} files / {} bytes",
        cache.num_items().unwrap(),
        cache.total_bytes().unwrap(),
        disk.0,
        disk.1
    );
    // every cache file on disk must be tracked again
    assert_eq!(
        (cache.num_items().unwrap(), cache.total_bytes().unwrap()),
        disk,
        "capacity {capacity}: re-open lost track of cache files that are on disk"
    );
}

#[test]
fn capacity_u64_max() {
    reopen_keeps_everything_tracked(u64::MAX);
}

#[test]
fn capacity_two_pow_63() {
    reopen_keeps_everything_tracked(1 << 63);
}

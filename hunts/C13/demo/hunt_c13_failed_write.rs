//! C13 demo B: a put whose file write fails part-way (disk full / file size limit) still
//! *publishes* the truncated temp file under the final cache-file name (SafeFileCreator's Drop
//! calls close(), which renames), while put_impl has already returned the error and never adds
//! the entry to the state -> a cache file on disk that belongs to no tracked entry, and on-disk
//! bytes the counters know nothing about.
//!
//! The failure is injected with the kernel's own RLIMIT_FSIZE (write(2) then returns a short
//! count followed by EFBIG, exactly like ENOSPC on a full disk).  The soft limit is lowered only
//! around the one failing put.
//!
//! run: cargo test -p chunk_cache --features verif --offline --test hunt_c13_failed_write -- --nocapture

use std::ffi::c_int;
use std::path::Path;

use cas_types::{ChunkRange, Key};
use chunk_cache::{CacheConfig, ChunkCache, DiskCache};
use merklehash::MerkleHash;

#[repr(C)]
struct RLimit {
    cur: u64,
    max: u64,
}
extern "C" {
    fn getrlimit(resource: c_int, rlim: *mut RLimit) -> c_int;
    fn setrlimit(resource: c_int, rlim: *const RLimit) -> c_int;
    fn signal(signum: c_int, handler: usize) -> usize;
}
const RLIMIT_FSIZE: c_int = 1;
const SIGXFSZ: c_int = 25;
const SIG_IGN: usize = 1;

fn with_file_size_limit<T>(limit: u64, f: impl FnOnce() -> T) -> T {
    unsafe {
        signal(SIGXFSZ, SIG_IGN);
        let mut old = RLimit { cur: 0, max: 0 };
        assert_eq!(getrlimit(RLIMIT_FSIZE, &mut old), 0);
        let new = RLimit { cur: limit, max: old.max };
        assert_eq!(setrlimit(RLIMIT_FSIZE, &new), 0);
        let r = f();
        assert_eq!(setrlimit(RLIMIT_FSIZE, &old), 0);
        r
    }
}

fn key(n: u8) -> Key {
    Key {
        prefix: "default".into(),
        hash: MerkleHash::from_slice(&[n; 32]).unwrap(),
    }
}

fn files_on_disk(root: &Path) -> Vec<(String, u64)> {
    let mut v = Vec::new();
    let Ok(rd) = std::fs::read_dir(root) else { return v };
    for p in rd {
        let p = p.unwrap();
        for k in std::fs::read_dir(p.path()).unwrap() {
            let k = k.unwrap();
            for f in std::fs::read_dir(k.path()).unwrap() {
                let f = f.unwrap();
                v.push((f.path().strip_prefix(root).unwrap().display().to_string(), f.metadata().unwrap().len()));
            }
        }
    }
    v.sort();
    v
}

#[test]
fn failed_put_publishes_untracked_partial_cache_file() {
    let root = tempdir::TempDir::new("hunt_c13_b").unwrap();
    const CAP: u64 = 40_000;
    let cache = DiskCache::initialize(&CacheConfig {
        cache_directory: root.path().to_path_buf(),
        cache_size: CAP,
    })
    .unwrap();

    // one chunk of 32 KiB: cache file = 12 + 32768 bytes, well below the capacity
    let n = 32 << 10;
    let (idx, data) = (vec![0u32, n as u32], vec![0xABu8; n]);
    let range = ChunkRange { start: 0, end: 1 };

    let res = with_file_size_limit(4096, || cache.put(&key(1), &range, &idx, &data));
    println!("put under a 4096-byte file size limit: {res:?}");
    assert!(res.is_err(), "the write cannot have succeeded");

    let (num_items, total_bytes, tracked) = cache.verif_snapshot().unwrap();
    let disk = files_on_disk(root.path());
    println!("reported: {num_items} items / {total_bytes} bytes; tracked entries: {}", tracked.len());
    for (f, len) in &disk {
        println!("  on disk  {f} len {len}");
    }
    assert_eq!((num_items, total_bytes, tracked.len()), (0, 0, 0));
    assert!(cache.get(&key(1), &range).unwrap().is_none());
    assert!(
        disk.is_empty(),
        "the failed put left cache files on disk that belong to no tracked entry (counters say 0 items / 0 bytes): {disk:?}"
    );
}

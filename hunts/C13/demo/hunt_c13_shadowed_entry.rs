//! C13 demo D: "once each entry has been read back (which drops entries whose file a racing
//! deletion removed) the totals equal what is on disk" does not hold when the entry that lost
//! its file is *shadowed* by a covering entry of the same key.
//!
//! put_impl decides "is this range already contained?" (find_match) before it takes the state
//! lock for the commit and does not re-check under the lock, so the state can end up with
//! Y = [0,4) AND S = [1,2) for one key.  If S's file is then removed by the (by-design) deferred
//! deletion of an earlier eviction of S, nothing ever notices: every get for S's range is served
//! by find_match's first hit Y, S's file is never opened, S is never dropped, and
//! num_items/total_bytes stay above what is on disk for good.
//!
//! Schedule (3 threads, forced deterministically by shadowing libc's `unlink`/`rename` in this
//! test binary; the nested calls run at points where the outer "thread" holds no lock):
//!   T3 put(Z)      : lock{ evict S, add Z }  ... (deferred) unlink(S file) is about to run
//!   T2 put(S) again: find_match -> miss, writes temp file, is about to rename it to S's name
//!   T1 put(Y=[0,4)): complete put (find_match miss, file, lock{ evict Z, add Y })
//!   T2             : rename, lock{ add S }        -> state {Y, S}
//!   T3             : unlink(S file)               -> S tracked, file gone (the allowed race)
//!   main           : reads back every tracked entry with get(key, entry.range) -> all hits
//!
//! run: cargo test -p chunk_cache --features verif --offline --test hunt_c13_shadowed_entry -- --nocapture

use std::cell::RefCell;
use std::ffi::{c_char, c_int, c_long, CStr};
use std::path::{Path, PathBuf};

use cas_types::{ChunkRange, Key};
use chunk_cache::{CacheConfig, ChunkCache, DiskCache};
use merklehash::MerkleHash;

extern "C" {
    fn syscall(num: c_long, ...) -> c_long;
}
const SYS_RENAME: c_long = 82; // x86_64
const SYS_UNLINK: c_long = 87; // x86_64

type Hook = (PathBuf, Box<dyn FnOnce()>);
thread_local! {
    static UNLINK_HOOK: RefCell<Option<Hook>> = RefCell::new(None);
    static RENAME_HOOK: RefCell<Option<Hook>> = RefCell::new(None);
}

unsafe fn fire(slot: &'static std::thread::LocalKey<RefCell<Option<Hook>>>, path: *const c_char) {
    let p = PathBuf::from(CStr::from_ptr(path).to_str().unwrap());
    let hook = slot.with(|h| {
        let mut h = h.borrow_mut();
        if h.as_ref().is_some_and(|(target, _)| *target == p) {
            h.take()
        } else {
            None
        }
    });
    if let Some((_, f)) = hook {
        f();
    }
}

#[no_mangle]
pub unsafe extern "C" fn unlink(path: *const c_char) -> c_int {
    fire(&UNLINK_HOOK, path);
    syscall(SYS_UNLINK, path) as c_int
}

#[no_mangle]
pub unsafe extern "C" fn rename(old: *const c_char, new: *const c_char) -> c_int {
    fire(&RENAME_HOOK, new);
    syscall(SYS_RENAME, old, new) as c_int
}

fn key(n: u8) -> Key {
    Key {
        prefix: "default".into(),
        hash: MerkleHash::from_slice(&[n; 32]).unwrap(),
    }
}

fn files_on_disk(root: &Path) -> Vec<(PathBuf, u64)> {
    let mut v = Vec::new();
    for p in std::fs::read_dir(root).unwrap() {
        for k in std::fs::read_dir(p.unwrap().path()).unwrap() {
            for f in std::fs::read_dir(k.unwrap().path()).unwrap() {
                let f = f.unwrap();
                v.push((f.path(), f.metadata().unwrap().len()));
            }
        }
    }
    v.sort();
    v
}

#[test]
fn shadowed_entry_without_file_is_never_dropped() {
    let root = tempdir::TempDir::new("hunt_c13_d").unwrap();
    const CAP: u64 = 3000;
    let cache = DiskCache::initialize(&CacheConfig {
        cache_directory: root.path().to_path_buf(),
        cache_size: CAP,
    })
    .unwrap();

    // xorb K has 4 chunks of 500 bytes; chunk i is filled with byte i
    let k = key(1);
    let y_range = ChunkRange { start: 0, end: 4 };
    let y_idx: Vec<u32> = vec![0, 500, 1000, 1500, 2000];
    let y_data: Vec<u8> = (0..2000).map(|i| (i / 500) as u8).collect(); // file: 24 + 2000 = 2024
    let s_range = ChunkRange { start: 1, end: 2 };
    let s_idx: Vec<u32> = vec![0, 500];
    let s_data: Vec<u8> = y_data[500..1000].to_vec(); // file: 12 + 500 = 512
    let z_range = ChunkRange { start: 0, end: 1 };
    let z_idx: Vec<u32> = vec![0, 2588];
    let z_data = vec![0x5Au8; 2588]; // file: 2600  (512 + 2600 > CAP  => S must be evicted)

    cache.put(&k, &s_range, &s_idx, &s_data).unwrap();
    let s_path = files_on_disk(root.path())[0].0.clone();

    // T3's deferred unlink of S's file is preceded by T2's and T1's steps
    {
        let (c2, c1) = (cache.clone(), cache.clone());
        let (k2, k1) = (k.clone(), k.clone());
        let (s_idx, s_data, y_idx, y_data) = (s_idx.clone(), s_data.clone(), y_idx.clone(), y_data.clone());
        let s_path2 = s_path.clone();
        UNLINK_HOOK.with(|h| {
            *h.borrow_mut() = Some((
                s_path.clone(),
                Box::new(move || {
                    // T2: put(S) again; just before its rename, T1 runs a complete put(Y)
                    RENAME_HOOK.with(|h| {
                        *h.borrow_mut() = Some((
                            s_path2,
                            Box::new(move || {
                                c1.put(&k1, &y_range, &y_idx, &y_data).expect("T1 put(Y)");
                            }),
                        ))
                    });
                    c2.put(&k2, &s_range, &s_idx, &s_data).expect("T2 put(S)");
                }),
            ))
        });
    }
    cache.put(&key(2), &z_range, &z_idx, &z_data).expect("T3 put(Z)");
    assert!(UNLINK_HOOK.with(|h| h.borrow().is_none()) && RENAME_HOOK.with(|h| h.borrow().is_none()), "schedule ran");

    // quiescent: read every tracked entry back by its own (key, range)
    let (_, _, tracked) = cache.verif_snapshot().unwrap();
    for (key, range, len, _) in &tracked {
        let hit = cache.get(key, range).unwrap().is_some();
        println!("read back {range:?} (len {len}): hit = {hit}");
    }

    let (num_items, total_bytes, tracked) = cache.verif_snapshot().unwrap();
    let disk = files_on_disk(root.path());
    let disk_bytes: u64 = disk.iter().map(|d| d.1).sum();
    println!("reported: {num_items} items / {total_bytes} bytes ({} tracked entries)", tracked.len());
    println!("on disk : {} files / {disk_bytes} bytes", disk.len());
    assert_eq!(
        (num_items, total_bytes),
        (disk.len(), disk_bytes),
        "after reading every entry back the totals still differ from what is on disk"
    );
}

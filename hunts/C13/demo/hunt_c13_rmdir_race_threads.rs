//! C13 demo A' (supporting, NOT deterministic): the same defect as hunt_c13_rmdir_race.rs, but
//! with plain OS threads and no symbol shadowing -- 8 threads put consistent one-chunk items of
//! 4 keys into a 3000-byte cache.  On the test machine a handful of the 100 rounds end (at a
//! quiescent point, all threads joined) with puts that returned ENOTEMPTY / ENOENT from the
//! post-lock clean-up and with more cache files on disk than tracked entries, sometimes with more
//! bytes on disk than the capacity.
//!
//! run: cargo test -p chunk_cache --features verif --offline --test hunt_c13_rmdir_race_threads -- --nocapture

use std::collections::BTreeMap;
use std::path::Path;

use cas_types::{ChunkRange, Key};
use chunk_cache::{CacheConfig, ChunkCache, DiskCache};
use merklehash::MerkleHash;

const CAP: u64 = 3000;

fn key(n: u8) -> Key {
    Key {
        prefix: "default".into(),
        hash: MerkleHash::from_slice(&[n; 32]).unwrap(),
    }
}

fn files_on_disk(root: &Path) -> (usize, u64) {
    let mut v = (0, 0);
    let Ok(rd) = std::fs::read_dir(root) else { return v };
    for p in rd {
        for k in std::fs::read_dir(p.unwrap().path()).unwrap() {
            for f in std::fs::read_dir(k.unwrap().path()).unwrap() {
                v = (v.0 + 1, v.1 + f.unwrap().metadata().unwrap().len());
            }
        }
    }
    v
}

#[test]
fn concurrent_puts_with_evictions_leave_untracked_files() {
    let mut bad_rounds = 0;
    let mut err_kinds: BTreeMap<String, usize> = BTreeMap::new();
    for round in 0..100 {
        let root = tempdir::TempDir::new("hunt_c13_a2").unwrap();
        let cache = DiskCache::initialize(&CacheConfig {
            cache_directory: root.path().to_path_buf(),
            cache_size: CAP,
        })
        .unwrap();
        let mut hs = Vec::new();
        for t in 0..8u32 {
            let c = cache.clone();
            hs.push(std::thread::spawn(move || {
                let mut errs = Vec::new();
                for i in 0..200u32 {
                    let kn = (i * 7 + t) % 4;
                    let start = (i * 13 + t * 5) % 16;
                    // the content of (key, chunk) is a function of (key, chunk) only
                    let n = 100 + ((kn + start) % 5) as usize * 150;
                    let data = vec![(kn * 16 + start) as u8; n];
                    if let Err(e) = c.put(&key(kn as u8), &ChunkRange { start, end: start + 1 }, &[0, n as u32], &data) {
                        errs.push(format!("{e:?}"));
                    }
                }
                errs
            }));
        }
        let mut errs = Vec::new();
        for h in hs {
            errs.extend(h.join().unwrap());
        }
        for e in &errs {
            *err_kinds.entry(e.clone()).or_default() += 1;
        }
        // quiescent
        let (n, b, tracked) = cache.verif_snapshot().unwrap();
        let (files, bytes) = files_on_disk(root.path());
        if files > tracked.len() || bytes > CAP {
            bad_rounds += 1;
            println!(
                "round {round}: reported {n} items / {b} bytes, {} tracked entries; on disk {files} files / {bytes} bytes (capacity {CAP}); put errors {errs:?}",
                tracked.len()
            );
        }
    }
    println!("put errors over all rounds: {err_kinds:?}");
    assert_eq!(bad_rounds, 0, "rounds that ended with cache files on disk that belong to no tracked entry");
}

//! C13 demo A: an eviction's deferred directory clean-up loses the race against a concurrent put
//! into the same key directory; `check_remove_dir` returns ENOTEMPTY, put_impl returns early with
//! `?`, and the files of the *remaining* evicted entries (already dropped from the state) are
//! never deleted -> cache files on disk that belong to no tracked entry.
//!
//! The interleaving is forced deterministically at file-system-call granularity: the test binary
//! defines `rmdir`, which shadows libc's symbol for the statically linked std.  The hook runs the
//! "other thread" (a complete `cache.put` of another range of the same key) exactly between
//! check_remove_dir's `read_dir` (saw the directory empty) and its `rmdir`.  At that point the
//! evicting thread holds no lock, so this is a legal schedule of two threads.
//!
//! run: cargo test -p chunk_cache --features verif --offline --test hunt_c13_rmdir_race -- --nocapture

use std::cell::RefCell;
use std::collections::{BTreeSet, HashMap};
use std::ffi::{c_char, c_int, c_long, CStr};
use std::path::{Path, PathBuf};

use base64::Engine;
use cas_types::{ChunkRange, Key};
use chunk_cache::{CacheConfig, ChunkCache, DiskCache};
use merklehash::MerkleHash;

extern "C" {
    fn syscall(num: c_long, ...) -> c_long;
}
const SYS_RMDIR: c_long = 84; // x86_64

thread_local! {
    static RMDIR_HOOK: RefCell<Option<Box<dyn FnOnce(&Path)>>> = RefCell::new(None);
}

#[no_mangle]
pub unsafe extern "C" fn rmdir(path: *const c_char) -> c_int {
    let hook = RMDIR_HOOK.with(|h| h.borrow_mut().take());
    if let Some(hook) = hook {
        let p = PathBuf::from(CStr::from_ptr(path).to_str().unwrap());
        hook(&p);
    }
    syscall(SYS_RMDIR, path) as c_int
}

fn key(n: u8) -> Key {
    Key {
        prefix: "default".into(),
        hash: MerkleHash::from_slice(&[n; 32]).unwrap(),
    }
}

fn key_dir_name(key: &Key) -> String {
    let mut buf = key.hash.as_bytes().to_vec();
    buf.extend_from_slice(key.prefix.as_bytes());
    base64::engine::general_purpose::URL_SAFE.encode(buf)
}

/// a one-chunk item whose cache file is 12 + n bytes long
fn one_chunk(n: usize, fill: u8) -> (Vec<u32>, Vec<u8>) {
    (vec![0, n as u32], vec![fill; n])
}

fn files_on_disk(root: &Path) -> Vec<(String, String, u64)> {
    let mut v = Vec::new();
    for p in std::fs::read_dir(root).unwrap() {
        let p = p.unwrap();
        for k in std::fs::read_dir(p.path()).unwrap() {
            let k = k.unwrap();
            for f in std::fs::read_dir(k.path()).unwrap() {
                let f = f.unwrap();
                v.push((
                    k.file_name().to_str().unwrap().to_string(),
                    f.file_name().to_str().unwrap().to_string(),
                    f.metadata().unwrap().len(),
                ));
            }
        }
    }
    v.sort();
    v
}

#[test]
fn evicting_put_that_loses_rmdir_race_leaves_untracked_files() {
    let root = tempdir::TempDir::new("hunt_c13_a").unwrap();
    const S: u64 = 1012; // three small items
    const CAP: u64 = 3 * S;
    let cache = DiskCache::initialize(&CacheConfig {
        cache_directory: root.path().to_path_buf(),
        cache_size: CAP,
    })
    .unwrap();

    let r01 = ChunkRange { start: 0, end: 1 };
    let mut by_dir: HashMap<String, Key> = HashMap::new();
    for n in 1..=3u8 {
        let (idx, data) = one_chunk(1000, n);
        cache.put(&key(n), &r01, &idx, &data).unwrap();
        by_dir.insert(key_dir_name(&key(n)), key(n));
    }
    assert_eq!(cache.num_items().unwrap(), 3);
    assert_eq!(cache.total_bytes().unwrap(), CAP);
    assert_eq!(files_on_disk(root.path()).len(), 3);

    // "thread 2": while thread 1 is between read_dir(key dir) == empty and rmdir(key dir),
    // it puts another (small) range of that very key.
    let cache2 = cache.clone();
    RMDIR_HOOK.with(|h| {
        *h.borrow_mut() = Some(Box::new(move |dir: &Path| {
            let name = dir.file_name().unwrap().to_str().unwrap();
            let k = by_dir.get(name).expect("first rmdir is a key directory of an evicted item");
            let (idx, data) = one_chunk(100, 0xEE);
            cache2
                .put(k, &ChunkRange { start: 5, end: 6 }, &idx, &data)
                .expect("thread 2's put succeeds");
        }))
    });

    // "thread 1": an item of CAP-200 bytes => all three small items are evicted by this one put
    let (idx, data) = one_chunk((CAP - 200 - 12) as usize, 0xDD);
    let res = cache.put(&key(9), &r01, &idx, &data);
    println!("thread 1 put result: {res:?}");

    // quiescent now
    let (num_items, total_bytes, tracked) = cache.verif_snapshot().unwrap();
    let disk = files_on_disk(root.path());
    println!("reported: {num_items} items / {total_bytes} bytes; tracked entries: {}", tracked.len());
    for (k, r, len, _) in &tracked {
        println!("  tracked  {} {:?} len {}", key_dir_name(k), r, len);
    }
    for (k, f, len) in &disk {
        println!("  on disk  {k}/{f} len {len}");
    }
    let tracked_dirs_lens: BTreeSet<(String, u64)> = tracked.iter().map(|(k, _, l, _)| (key_dir_name(k), *l)).collect();
    let orphans: Vec<_> = disk.iter().filter(|(k, _, l)| !tracked_dirs_lens.contains(&(k.clone(), *l))).collect();
    let disk_bytes: u64 = disk.iter().map(|d| d.2).sum();

    assert!(orphans.is_empty(), "cache files on disk that belong to no tracked entry: {orphans:?} (put returned {res:?})");
    assert!(res.is_ok(), "put failed although the item was committed to the state: {res:?}");
    assert_eq!(total_bytes, disk_bytes);
    assert!(disk_bytes <= CAP);
}

// exploratory stress: several threads, small capacity, nested ranges; invariants checked at quiescence
use std::collections::{HashMap, HashSet};
use std::path::{Path, PathBuf};
use std::sync::Arc;

use cas_types::{ChunkRange, Key};
use chunk_cache::{CacheConfig, ChunkCache, DiskCache};
use merklehash::MerkleHash;
use rand::rngs::StdRng;
use rand::{Rng, SeedableRng};

fn key(i: u8) -> Key {
    Key {
        prefix: "default".to_string(),
        hash: MerkleHash::from_slice(&[i.wrapping_mul(37).wrapping_add(1); 32]).unwrap(),
    }
}

fn chunk(k: u8, i: u32) -> Vec<u8> {
    (0..(10 + i as usize)).map(|j| (k as usize * 31 + i as usize * 7 + j) as u8).collect()
}

fn entry(k: u8, r: ChunkRange) -> (Vec<u32>, Vec<u8>) {
    let mut off = vec![0u32];
    let mut data = vec![];
    for i in r.start..r.end {
        data.extend(chunk(k, i));
        off.push(data.len() as u32);
    }
    (off, data)
}

fn files(root: &Path) -> Vec<(PathBuf, u64)> {
    let mut out = vec![];
    let mut stack = vec![root.to_path_buf()];
    while let Some(d) = stack.pop() {
        for e in std::fs::read_dir(&d).unwrap() {
            let e = e.unwrap();
            let md = e.metadata().unwrap();
            if md.is_dir() {
                stack.push(e.path());
            } else {
                out.push((e.path(), md.len()));
            }
        }
    }
    out
}

fn run(seed: u64, cap: u64, nthreads: usize, nops: usize, nkeys: u8, nchunks: u32) -> Result<(), String> {
    let dir = tempdir::TempDir::new("hunt_stress").unwrap();
    for phase in 0..3u64 {
        run_phase(&dir, seed * 7 + phase, cap, nthreads, nops, nkeys, nchunks).map_err(|e| format!("phase {phase}: {e}"))?;
    }
    Ok(())
}

fn run_phase(dir: &tempdir::TempDir, seed: u64, cap: u64, nthreads: usize, nops: usize, nkeys: u8, nchunks: u32) -> Result<(), String> {
    let config = CacheConfig {
        cache_directory: dir.path().to_path_buf(),
        cache_size: cap,
    };
    let cache = Arc::new(DiskCache::initialize(&config).unwrap());
    let mut hs = vec![];
    for t in 0..nthreads {
        let cache = cache.clone();
        hs.push(std::thread::spawn(move || {
            let mut rng = StdRng::seed_from_u64(seed * 1000 + t as u64);
            let mut errs = vec![];
            for _ in 0..nops {
                let k = rng.gen_range(0..nkeys);
                let s = rng.gen_range(0..nchunks);
                let e = rng.gen_range(s + 1..=nchunks);
                let r = ChunkRange { start: s, end: e };
                if rng.gen_bool(0.7) {
                    let (off, data) = entry(k, r);
                    if let Err(e) = cache.put(&key(k), &r, &off, &data) {
                        errs.push(format!("put err {e:?}"));
                    }
                    let tb = cache.total_bytes().unwrap();
                    if tb > cap {
                        errs.push(format!("total {tb} > cap {cap}"));
                    }
                } else {
                    match cache.get(&key(k), &r) {
                        Ok(Some(cr)) => {
                            let (off, data) = entry(k, r);
                            if cr.data.as_ref() != data.as_slice() || cr.offsets.as_ref() != off.as_slice() {
                                errs.push("bad data".to_string());
                            }
                        },
                        Ok(None) => {},
                        Err(e) => errs.push(format!("get err {e:?}")),
                    }
                }
            }
            errs
        }));
    }
    let mut errs = vec![];
    for h in hs {
        errs.extend(h.join().unwrap());
    }
    let hard: Vec<_> = errs.iter().filter(|e| e.contains("total") || e.contains("bad data")).collect();
    if !hard.is_empty() {
        return Err(format!("{hard:?}"));
    }
    // quiescent
    let (n, tb, ents) = cache.verif_snapshot().unwrap();
    if n != ents.len() {
        return Err(format!("num_items {n} != tracked {}", ents.len()));
    }
    let sum: u64 = ents.iter().map(|e| e.2).sum();
    if tb != sum {
        return Err(format!("total_bytes {tb} != tracked sum {sum}"));
    }
    let mut seen = HashSet::new();
    for e in &ents {
        if !seen.insert((e.0.clone(), e.1, e.2, e.3)) {
            return Err(format!("duplicate tracked entry {e:?}"));
        }
    }
    let fs = files(dir.path());
    let disk_sum: u64 = fs.iter().map(|f| f.1).sum();
    {
        use base64::Engine;
        let eng = base64::engine::general_purpose::URL_SAFE;
        let mut tracked_paths = HashSet::new();
        for e in &ents {
            let mut kb = e.0.hash.as_bytes().to_vec();
            kb.extend(e.0.prefix.as_bytes());
            let kd = eng.encode(&kb);
            let mut fb = vec![];
            fb.extend(e.1.start.to_le_bytes());
            fb.extend(e.1.end.to_le_bytes());
            fb.extend(e.2.to_le_bytes());
            fb.extend(e.3.to_le_bytes());
            tracked_paths.insert(dir.path().join(&kd[..2]).join(&kd).join(eng.encode(&fb)));
        }
        for f in &fs {
            if !tracked_paths.contains(&f.0) {
                return Err(format!("untracked file on disk {:?} len {}; errs {:?}", f.0, f.1, errs));
            }
        }
    }
    if fs.len() > n || disk_sum > tb {
        return Err(format!("disk {} files {} bytes; tracked {} items {} bytes; errs {:?}", fs.len(), disk_sum, n, tb, errs));
    }
    // read back each
    for e in &ents {
        let _ = cache.get(&e.0, &e.1).unwrap();
    }
    let (n2, tb2, ents2) = cache.verif_snapshot().unwrap();
    let fs2 = files(dir.path());
    let disk_sum2: u64 = fs2.iter().map(|f| f.1).sum();
    if fs2.len() != n2 || disk_sum2 != tb2 {
        // known: shadowed entries
        let mut by_key: HashMap<Key, Vec<ChunkRange>> = HashMap::new();
        for e in &ents2 {
            by_key.entry(e.0.clone()).or_default().push(e.1);
        }
        let shadowed = ents2.iter().filter(|e| {
            by_key[&e.0].iter().any(|r| *r != e.1 && r.start <= e.1.start && e.1.end <= r.end)
        }).count();
        if n2 - fs2.len() > shadowed {
            return Err(format!(
                "after read back: disk {} files {} bytes; tracked {} items {} bytes; shadowed {}",
                fs2.len(), disk_sum2, n2, tb2, shadowed
            ));
        }
    }
    drop(cache);
    let c2 = DiskCache::initialize(&config).unwrap();
    let fs3 = files(dir.path());
    let disk_sum3: u64 = fs3.iter().map(|f| f.1).sum();
    if c2.num_items().unwrap() != fs3.len() || c2.total_bytes().unwrap() != disk_sum3 || disk_sum3 > cap {
        return Err(format!(
            "reopen: disk {} files {} bytes; tracked {} items {} bytes",
            fs3.len(), disk_sum3, c2.num_items().unwrap(), c2.total_bytes().unwrap()
        ));
    }
    if !errs.is_empty() {
        eprintln!("seed {seed}: soft errs {}: {:?}", errs.len(), &errs[..errs.len().min(3)]);
    }
    Ok(())
}

#[test]
fn stress() {
    let iters: u64 = std::env::var("HUNT_ITERS").ok().and_then(|s| s.parse().ok()).unwrap_or(200);
    for seed in 0..iters {
        for (cap, nkeys, nchunks) in [(300u64, 3u8, 6u32), (150, 2, 5), (120, 1, 5), (1000, 2, 6)] {
            if let Err(e) = run(seed, cap, 4, 60, nkeys, nchunks) {
                panic!("seed {seed} cap {cap}: {e}");
            }
        }
    }
}

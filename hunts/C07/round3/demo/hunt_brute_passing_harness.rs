use std::io::Cursor;

use cas_object::deserialize_async::{deserialize_chunks_from_async_read, deserialize_chunks_from_stream};
use cas_object::*;
use merkledb::prelude::MerkleDBHighLevelMethodsV1;
use merkledb::{Chunk, MerkleMemDB};
use merklehash::MerkleHash;

struct Rng(u64);
impl Rng {
    fn next(&mut self) -> u64 {
        self.0 ^= self.0 << 13;
        self.0 ^= self.0 >> 7;
        self.0 ^= self.0 << 17;
        self.0
    }
}

fn gen(kind: usize, n: usize, rng: &mut Rng) -> Vec<u8> {
    match kind {
        0 => vec![0u8; n],
        1 => (0..n).map(|_| rng.next() as u8).collect(),
        2 => {
            // f32 in -1..1
            let mut v = Vec::with_capacity(n + 4);
            while v.len() < n {
                let f = (rng.next() % 20000) as f32 / 10000.0 - 1.0;
                v.extend_from_slice(&f.to_le_bytes());
            }
            v.truncate(n);
            v
        },
        3 => (0..n).map(|i| (i % 7) as u8).collect(),
        4 => {
            // bf16-like
            let mut v = Vec::with_capacity(n + 4);
            while v.len() < n {
                let f = (rng.next() % 20000) as f32 / 10000.0;
                let b = f.to_le_bytes();
                v.extend_from_slice(&b[2..4]);
            }
            v.truncate(n);
            v
        },
        _ => vec![0xffu8; n],
    }
}

fn schemes() -> Vec<Option<CompressionScheme>> {
    vec![
        None,
        Some(CompressionScheme::None),
        Some(CompressionScheme::LZ4),
        Some(CompressionScheme::ByteGrouping4LZ4),
    ]
}

#[test]
fn chunk_roundtrip_all() {
    let mut rng = Rng(0x1234567);
    let mut lens: Vec<usize> = (1..=80).collect();
    for base in [255usize, 256, 4096, 65535, 65536, 65537, 131072 - 3, 131072 - 2, 131072 - 1, 131072] {
        lens.push(base);
    }
    let rt = tokio::runtime::Builder::new_current_thread().build().unwrap();
    for &n in &lens {
        for kind in 0..6 {
            let data = gen(kind, n, &mut rng);
            for s in schemes() {
                let mut out = Vec::new();
                let w = serialize_chunk(&data, &mut out, s).unwrap();
                assert_eq!(w, out.len());
                let (d, c, u) = deserialize_chunk(&mut Cursor::new(&out)).unwrap();
                assert_eq!(d, data, "n={n} kind={kind} s={s:?}");
                assert_eq!(c, out.len());
                assert_eq!(u as usize, n);
                let (d2, idx) = deserialize_chunks(&mut Cursor::new(&out)).unwrap();
                assert_eq!(d2, data);
                assert_eq!(idx, vec![0, n as u32]);
                let (d3, idx3) = rt
                    .block_on(deserialize_chunks_from_async_read(&mut Cursor::new(out.clone())))
                    .unwrap();
                assert_eq!(d3, data);
                assert_eq!(idx3, idx);
                let pieces: Vec<Result<bytes::Bytes, std::io::Error>> =
                    out.chunks(3).map(|c| Ok(bytes::Bytes::copy_from_slice(c))).collect();
                let (d4, idx4) = rt
                    .block_on(deserialize_chunks_from_stream(futures::stream::iter(pieces)))
                    .unwrap();
                assert_eq!(d4, data);
                assert_eq!(idx4, idx);
            }
        }
    }
}

fn xorb_hash(chunks: &[Chunk]) -> MerkleHash {
    let mut db = MerkleMemDB::default();
    let mut staging = db.start_insertion_staging();
    db.add_file(&mut staging, chunks);
    let ret = db.finalize(staging);
    *ret.hash()
}

fn content_len_of(c: &CasObject) -> usize {
    c.get_contents_length().unwrap() as usize
}

fn check_xorb(chunk_lens: &[usize], kinds: &[usize], rng: &mut Rng, all_ranges: bool) {
    let mut data = Vec::new();
    let mut cb = Vec::new();
    let mut chunks = Vec::new();
    let mut starts = vec![0usize];
    for (i, &n) in chunk_lens.iter().enumerate() {
        let d = gen(kinds[i % kinds.len()], n, rng);
        let h = merklehash::compute_data_hash(&d);
        data.extend_from_slice(&d);
        cb.push((h, data.len() as u32));
        chunks.push(Chunk { hash: h, length: n });
        starts.push(data.len());
    }
    let hash = xorb_hash(&chunks);
    for s in schemes() {
        let mut w = Cursor::new(Vec::new());
        let (c, total) = CasObject::serialize(&mut w, &hash, &data, &cb, s).unwrap();
        let bytes = w.into_inner();
        assert_eq!(total, bytes.len());
        let mut r = Cursor::new(bytes.clone());
        let c2 = CasObject::deserialize(&mut r).unwrap();
        assert_eq!(c, c2);
        assert_eq!(c2.get_all_bytes(&mut r).unwrap(), data);
        let n = chunk_lens.len() as u32;
        assert_eq!(c2.info.unpacked_chunk_offsets, cb.iter().map(|x| x.1).collect::<Vec<_>>());
        let ranges: Vec<(u32, u32)> = if all_ranges {
            (0..n).flat_map(|a| ((a + 1)..=n).map(move |b| (a, b))).collect()
        } else {
            let mut v = vec![(0, n), (0, 1), (n - 1, n)];
            for _ in 0..20 {
                let a = (rng.next() % n as u64) as u32;
                let b = a + 1 + (rng.next() % (n - a) as u64) as u32;
                v.push((a, b));
            }
            v
        };
        for (a, b) in ranges {
            let got = c2.get_bytes_by_chunk_range(&mut r, a, b).unwrap();
            assert_eq!(got, &data[starts[a as usize]..starts[b as usize]], "range {a}..{b} s={s:?}");
            assert_eq!(
                c2.uncompressed_range_length(a, b).unwrap() as usize,
                starts[b as usize] - starts[a as usize]
            );
        }
        for i in 0..n {
            assert_eq!(c2.uncompressed_chunk_length(i).unwrap() as usize, chunk_lens[i as usize]);
        }
        // boundaries-only + async footer
        let mut r = Cursor::new(bytes.clone());
        let (b, _) = CasObjectInfoV1::deserialize_only_boundaries_section(&mut r).unwrap();
        assert_eq!(b.chunk_boundary_offsets, c.info.chunk_boundary_offsets);
        assert_eq!(b.unpacked_chunk_offsets, c.info.unpacked_chunk_offsets);
        {
            use futures::TryStreamExt;
            let start = content_len_of(&c) + 8;
            let pieces: Vec<Result<&[u8], std::io::Error>> = bytes[start..].chunks(7).map(Ok).collect();
            let mut ar = futures::stream::iter(pieces).into_async_read();
            let c3 = futures::executor::block_on(CasObject::deserialize_async(&mut ar, 1)).unwrap();
            assert_eq!(c3, c);
            let pieces: Vec<Result<&[u8], std::io::Error>> = bytes.chunks(1000).map(Ok).collect();
            let mut ar = futures::stream::iter(pieces).into_async_read();
            let v = futures::executor::block_on(validate_cas_object_from_async_read(&mut ar, &hash)).unwrap();
            let (c4, extra) = v.expect("stream validation rejected a legit xorb");
            assert_eq!(c4, c);
            assert!(extra.is_none());
        }
        // validate
        let mut r = Cursor::new(bytes.clone());
        assert!(CasObject::validate_cas_object(&mut r, &hash).unwrap().is_some(), "validate s={s:?}");
        // chunk stream decode
        let content_len = c2.get_contents_length().unwrap() as usize;
        let (d, idx) = deserialize_chunks(&mut Cursor::new(&bytes[..content_len])).unwrap();
        assert_eq!(d, data);
        let exp_idx: Vec<u32> = starts.iter().map(|&x| x as u32).collect();
        assert_eq!(idx, exp_idx);
    }
}

#[test]
fn xorb_roundtrip() {
    let mut rng = Rng(0xdeadbeef);
    check_xorb(&[1], &[1], &mut rng, true);
    check_xorb(&[1, 1, 1, 1, 1], &[0, 1, 2], &mut rng, true);
    check_xorb(&[131072], &[1], &mut rng, true);
    check_xorb(&[131072, 1, 131072, 2, 131071, 3], &[0, 1, 2, 3, 4, 5], &mut rng, true);
    let lens: Vec<usize> = (1..=40).collect();
    check_xorb(&lens, &[0, 1, 2, 3, 4, 5], &mut rng, true);
    let lens: Vec<usize> = (0..60).map(|_| 1 + (rng.next() % 131072) as usize).collect();
    check_xorb(&lens, &[0, 1, 2, 3, 4, 5], &mut rng, false);
}

#[test]
fn xorb_max_chunks() {
    let mut rng = Rng(0xabcdef);
    let lens: Vec<usize> = (0..8192).map(|_| 1 + (rng.next() % 64) as usize).collect();
    check_xorb(&lens, &[0, 1, 2, 3, 4, 5], &mut rng, false);
}

fn gen_structured(n: usize, rng: &mut Rng) -> Vec<u8> {
    let mut v: Vec<u8> = Vec::with_capacity(n + 16);
    while v.len() < n {
        match rng.next() % 6 {
            0 => {
                let run = 1 + (rng.next() % 300) as usize;
                let b = rng.next() as u8;
                v.extend(std::iter::repeat(b).take(run));
            },
            1 => {
                let run = 1 + (rng.next() % 64) as usize;
                for _ in 0..run {
                    v.push(rng.next() as u8);
                }
            },
            2 if !v.is_empty() => {
                // copy from earlier (possibly far) offset
                let off = 1 + (rng.next() as usize % v.len().min(70000));
                let len = 4 + (rng.next() % 2000) as usize;
                let start = v.len() - off;
                for i in 0..len {
                    let b = v[start + i];
                    v.push(b);
                }
            },
            3 => {
                let cnt = 1 + (rng.next() % 200) as usize;
                let base = (rng.next() % 1000) as f32;
                for i in 0..cnt {
                    v.extend_from_slice(&(base + i as f32 * 0.001).to_le_bytes());
                }
            },
            4 => {
                let cnt = 1 + (rng.next() % 200) as usize;
                for i in 0..cnt {
                    v.extend_from_slice(&(i as u32).to_le_bytes());
                }
            },
            _ => {
                let run = 1 + (rng.next() % 5) as usize;
                for _ in 0..run {
                    v.push(0);
                }
            },
        }
    }
    v.truncate(n);
    v
}

#[test]
fn chunk_fuzz() {
    let mut rng = Rng(0x9e3779b97f4a7c15);
    let iters: usize = std::env::var("HUNT_ITERS").ok().and_then(|s| s.parse().ok()).unwrap_or(300);
    for it in 0..iters {
        let n = match it % 4 {
            0 => 1 + (rng.next() % 200) as usize,
            1 => 1 + (rng.next() % 131072) as usize,
            2 => 131072 - (rng.next() % 8) as usize,
            _ => 60000 + (rng.next() % 12000) as usize,
        };
        let data = gen_structured(n, &mut rng);
        for s in schemes() {
            let mut out = Vec::new();
            serialize_chunk(&data, &mut out, s).unwrap();
            assert!(out.len() <= n + 8);
            let (d, c, u) = deserialize_chunk(&mut Cursor::new(&out)).unwrap();
            assert!(d == data, "n={n} s={s:?} it={it}");
            assert_eq!(c, out.len());
            assert_eq!(u as usize, n);
        }
    }
}

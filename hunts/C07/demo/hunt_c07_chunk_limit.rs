//! C07 demo 1: two sources of truth for the maximum chunk size.
//!
//! The chunker's maximum chunk size is TARGET_CHUNK_SIZE * MAXIMUM_CHUNK_MULTIPLIER
//! (deduplication/src/constants.rs, both overridable through HF_XET_* in debug builds), but the
//! chunk header validation on the read side (cas_object/src/cas_chunk_format.rs:73-85) uses the
//! hard-coded merkledb::constants::MAXIMUM_CHUNK_SIZE (128 KiB).  The write side
//! (serialize_chunk / CasObject::serialize) performs no check at all.
//!
//! With HF_XET_TARGET_CHUNK_SIZE=131072 the chunker legitimately emits chunks of up to 256 KiB,
//! the xorb is written without any error, and afterwards NO reader can read it back.
//!
//! Copy to data/tests/hunt_c07_chunk_limit.rs and run:
//!   cargo test --offline -p data --test hunt_c07_chunk_limit -- --nocapture
use std::fs::{create_dir_all, File};
use std::io::{Read, Write};

use cas_client::{FileProvider, OutputProvider};
use data::configurations::TranslatorConfig;
use data::data_client::clean_file;
use data::{FileDownloader, FileUploadSession};
use deduplication::constants::TARGET_CHUNK_SIZE;
use rand::rngs::StdRng;
use rand::{RngCore, SeedableRng};
use tempfile::TempDir;
use utils::test_set_globals;
use xet_threadpool::ThreadPool;

test_set_globals! {
    TARGET_CHUNK_SIZE = 128 * 1024;
}

#[tokio::test(flavor = "multi_thread", worker_threads = 2)]
async fn clean_then_smudge_with_larger_target_chunk_size() {
    let tmp = TempDir::new().unwrap();
    let cas_dir = tmp.path().join("cas");
    let src_dir = tmp.path().join("src");
    let dst_dir = tmp.path().join("dst");
    create_dir_all(&src_dir).unwrap();
    create_dir_all(&dst_dir).unwrap();

    // 4 MiB of zeros: the content-defined chunker never finds a boundary in constant data, so every
    // chunk is cut at the chunker's maximum (2 * 128 KiB = 256 KiB) -- entirely legitimate chunks
    // for this configuration.  (Random data gives the same result, only with fewer maximal chunks.)
    let mut content = vec![0u8; 4 << 20];
    StdRng::seed_from_u64(1).fill_bytes(&mut content[..1000]);
    let src = src_dir.join("a");
    File::create(&src).unwrap().write_all(&content).unwrap();

    // upload (clean): succeeds silently
    let config = TranslatorConfig::local_config(&cas_dir).unwrap();
    let session = FileUploadSession::new(config.clone(), ThreadPool::from_current_runtime(), None)
        .await
        .unwrap();
    let (pf, _) = clean_file(session.clone(), &src).await.expect("clean must succeed");
    session.finalize().await.expect("finalize must succeed");

    // download (smudge): must give back the same bytes
    let downloader = FileDownloader::new(config, ThreadPool::from_current_runtime()).await.unwrap();
    let out = dst_dir.join("a");
    let res = downloader
        .smudge_file_from_pointer(&pf, &OutputProvider::File(FileProvider::new(out.clone())), None, None)
        .await;
    assert!(res.is_ok(), "xorb written by this very client cannot be read back: {res:?}");

    let mut back = vec![];
    File::open(&out).unwrap().read_to_end(&mut back).unwrap();
    assert!(back == content, "round trip changed the bytes");
}

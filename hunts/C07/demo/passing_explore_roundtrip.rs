use std::io::Cursor;

use cas_object::deserialize_async::{deserialize_chunks_from_async_read, deserialize_chunks_from_stream};
use cas_object::*;
use merkledb::prelude::MerkleDBHighLevelMethodsV1;
use merkledb::{Chunk, MerkleMemDB};
use merklehash::MerkleHash;
use rand::rngs::StdRng;
use rand::{Rng, SeedableRng};

fn gen(kind: usize, n: usize, rng: &mut StdRng) -> Vec<u8> {
    match kind {
        0 => vec![0u8; n],
        1 => (0..n).map(|_| rng.gen()).collect(),
        2 => {
            let mut v: Vec<u8> = (0..n / 4 + 1).flat_map(|_| rng.gen_range(-1.0f32..1.0).to_le_bytes()).collect();
            v.truncate(n);
            v
        },
        3 => (0..n).map(|i| (i % 7) as u8).collect(),
        4 => (0..n).map(|i| if i % 4 == 0 { rng.gen() } else { 0 }).collect(),
        5 => {
            // half compressible, half random
            (0..n).map(|i| if i < n / 2 { 0xAB } else { rng.gen() }).collect()
        },
        _ => unreachable!(),
    }
}

fn xorb_hash(chunks: &[Chunk]) -> MerkleHash {
    let mut db = MerkleMemDB::default();
    let mut staging = db.start_insertion_staging();
    db.add_file(&mut staging, chunks);
    let ret = db.finalize(staging);
    *ret.hash()
}

fn check_chunk_list(lens: &[usize], kind: usize, scheme: Option<CompressionScheme>, rng: &mut StdRng, rt: &tokio::runtime::Runtime) {
    let mut data = vec![];
    let mut cb = vec![];
    let mut chunks = vec![];
    let mut parts = vec![];
    for &l in lens {
        let k = if kind == 99 { rng.gen_range(0..6) } else { kind };
        let d = gen(k, l, rng);
        let h = merklehash::compute_data_hash(&d);
        data.extend_from_slice(&d);
        chunks.push(Chunk { hash: h, length: l });
        cb.push((h, data.len() as u32));
        parts.push(d);
    }
    let hash = xorb_hash(&chunks);
    let mut w = Cursor::new(Vec::new());
    let (cas, n) = CasObject::serialize(&mut w, &hash, &data, &cb, scheme).unwrap();
    let bytes = w.into_inner();
    assert_eq!(n, bytes.len());
    let mut r = Cursor::new(bytes.clone());
    let c2 = CasObject::deserialize(&mut r).unwrap();
    assert_eq!(cas, c2, "lens={lens:?} kind={kind} scheme={scheme:?}");
    let all = c2.get_all_bytes(&mut r).unwrap();
    assert_eq!(all, data, "all bytes lens={lens:?} kind={kind} scheme={scheme:?}");
    assert!(CasObject::validate_cas_object(&mut r, &hash).unwrap().is_some(), "validate lens={lens:?} kind={kind} scheme={scheme:?}");
    let nchunks = lens.len() as u32;
    let max_ranges = if nchunks > 40 { 0 } else { nchunks };
    for s in 0..max_ranges {
        for e in s + 1..=nchunks {
            let got = c2.get_bytes_by_chunk_range(&mut r, s, e).unwrap();
            let bs = if s == 0 { 0 } else { cb[s as usize - 1].1 as usize };
            let be = cb[e as usize - 1].1 as usize;
            assert_eq!(got, &data[bs..be], "range {s}..{e} lens={lens:?} kind={kind} scheme={scheme:?}");
            assert_eq!(c2.uncompressed_range_length(s, e).unwrap() as usize, be - bs);
        }
    }
    for i in 0..nchunks {
        assert_eq!(c2.uncompressed_chunk_length(i).unwrap() as usize, lens[i as usize]);
    }
    // chunk decoders
    let contents = &bytes[..c2.get_contents_length().unwrap() as usize];
    let (d1, i1) = deserialize_chunks(&mut Cursor::new(contents)).unwrap();
    let (d2, i2) = rt.block_on(deserialize_chunks_from_async_read(&mut Cursor::new(contents))).unwrap();
    let piece = rng.gen_range(1..=17usize);
    let items: Vec<Result<bytes::Bytes, std::io::Error>> =
        contents.chunks(piece).map(|c| Ok(bytes::Bytes::copy_from_slice(c))).collect();
    let (d3, i3) = rt.block_on(deserialize_chunks_from_stream(futures::stream::iter(items))).unwrap();
    assert_eq!(d1, data, "sync lens={lens:?} kind={kind} scheme={scheme:?}");
    assert_eq!(d2, data, "async lens={lens:?} kind={kind} scheme={scheme:?}");
    assert_eq!(d3, data, "stream lens={lens:?} kind={kind} scheme={scheme:?}");
    let mut expect_idx = vec![0u32];
    expect_idx.extend(cb.iter().map(|x| x.1));
    assert_eq!(i1, expect_idx);
    assert_eq!(i2, expect_idx);
    assert_eq!(i3, expect_idx);
    // boundaries only
    let mut r = Cursor::new(bytes.clone());
    let (b, _) = CasObjectInfoV1::deserialize_only_boundaries_section(&mut r).unwrap();
    assert_eq!(b.chunk_boundary_offsets, c2.info.chunk_boundary_offsets);
    assert_eq!(b.unpacked_chunk_offsets, c2.info.unpacked_chunk_offsets);
}

const SCHEMES: [Option<CompressionScheme>; 4] = [
    None,
    Some(CompressionScheme::None),
    Some(CompressionScheme::LZ4),
    Some(CompressionScheme::ByteGrouping4LZ4),
];

#[test]
fn explore_small() {
    let rt = tokio::runtime::Builder::new_current_thread().build().unwrap();
    let mut rng = StdRng::seed_from_u64(1);
    for scheme in SCHEMES {
        for kind in 0..6 {
            for n in 1..=80usize {
                check_chunk_list(&[n], kind, scheme, &mut rng, &rt);
            }
            for n in [255, 256, 257, 4095, 4096, 4097, 65535, 65536, 65537, 65538, 65539, 131069, 131070, 131071, 131072] {
                check_chunk_list(&[n], kind, scheme, &mut rng, &rt);
            }
        }
    }
}

#[test]
fn explore_lists() {
    let rt = tokio::runtime::Builder::new_current_thread().build().unwrap();
    let mut rng = StdRng::seed_from_u64(2);
    for scheme in SCHEMES {
        for _ in 0..150 {
            let n = rng.gen_range(1..=12);
            let lens: Vec<usize> = (0..n)
                .map(|_| match rng.gen_range(0..4) {
                    0 => rng.gen_range(1..=20),
                    1 => rng.gen_range(1..=3000),
                    2 => rng.gen_range(65530..=65545),
                    _ => rng.gen_range(131060..=131072),
                })
                .collect();
            check_chunk_list(&lens, 99, scheme, &mut rng, &rt);
        }
    }
}

#[test]
fn explore_many_chunks() {
    let rt = tokio::runtime::Builder::new_current_thread().build().unwrap();
    let mut rng = StdRng::seed_from_u64(3);
    for scheme in SCHEMES {
        let lens: Vec<usize> = (0..8192).map(|_| rng.gen_range(1..=40)).collect();
        check_chunk_list(&lens, 99, scheme, &mut rng, &rt);
        // max size xorb: 512 chunks of 128 KiB = 64 MiB
        let lens: Vec<usize> = vec![131072; 512];
        check_chunk_list(&lens, 1, scheme, &mut rng, &rt);
    }
}

//! C07 demos 2 and 3 (copy to cas_object/tests/hunt_c07_decoders.rs):
//!   cargo test --offline -p cas_object --test hunt_c07_decoders -- --nocapture
//!
//! Demo 2: the sync, async and stream chunk decoders disagree on the same (truncated) byte
//!         sequence, and all of them report a truncated chunk stream as success.
//! Demo 3: CasObject::uncompressed_range_length panics (index out of bounds) on a xorb with a
//!         V0 footer, which CasObject::deserialize explicitly supports.
#![allow(deprecated)]
use std::io::{Cursor, Seek, SeekFrom, Write};

use cas_object::deserialize_async::{deserialize_chunks_from_async_read, deserialize_chunks_from_stream};
use cas_object::*;
use merklehash::MerkleHash;

fn rt() -> tokio::runtime::Runtime {
    tokio::runtime::Builder::new_current_thread().build().unwrap()
}

fn run_all(bytes: &[u8]) -> [Result<(Vec<u8>, Vec<u32>), String>; 3] {
    let rt = rt();
    let sync = deserialize_chunks(&mut Cursor::new(bytes)).map_err(|e| e.to_string());
    let asyn = rt
        .block_on(deserialize_chunks_from_async_read(&mut Cursor::new(bytes)))
        .map_err(|e| e.to_string());
    let items: Vec<Result<bytes::Bytes, std::io::Error>> =
        bytes.chunks(7).map(|c| Ok(bytes::Bytes::copy_from_slice(c))).collect();
    let stream = rt
        .block_on(deserialize_chunks_from_stream(futures::stream::iter(items)))
        .map_err(|e| e.to_string());
    [sync, asyn, stream]
}

fn summarize(r: &Result<(Vec<u8>, Vec<u32>), String>) -> String {
    match r {
        Ok((d, i)) => format!("Ok(data.len()={}, chunk_byte_indices={:?})", d.len(), i),
        Err(e) => format!("Err({e})"),
    }
}

/// Two chunks, second one stored uncompressed, last 10 bytes of the stream missing.
#[test]
fn demo2a_truncated_uncompressed_chunk_sync_vs_async() {
    let c0 = vec![1u8; 100];
    let c1: Vec<u8> = (0..100u8).collect();
    let mut ser = Vec::new();
    serialize_chunk(&c0, &mut ser, Some(CompressionScheme::None)).unwrap();
    serialize_chunk(&c1, &mut ser, Some(CompressionScheme::None)).unwrap();
    let truncated = &ser[..ser.len() - 10];

    let [sync, asyn, stream] = run_all(truncated);
    println!("sync  : {}", summarize(&sync));
    println!("async : {}", summarize(&asyn));
    println!("stream: {}", summarize(&stream));

    // A truncated stream is not a valid chunk stream: nobody should report success.
    assert!(asyn.is_err(), "async decoder reports a truncated stream as success: {}", summarize(&asyn));
    assert!(stream.is_err(), "stream decoder reports a truncated stream as success: {}", summarize(&stream));
    assert_eq!(sync.is_ok(), asyn.is_ok(), "sync and async decoders disagree");
}

/// Two LZ4 chunks, the 4-byte LZ4 end mark of the second one missing.
#[test]
fn demo2b_truncated_lz4_chunk_sync_vs_async() {
    let c0 = vec![1u8; 1000];
    let c1 = vec![2u8; 1000];
    let mut ser = Vec::new();
    serialize_chunk(&c0, &mut ser, Some(CompressionScheme::LZ4)).unwrap();
    serialize_chunk(&c1, &mut ser, Some(CompressionScheme::LZ4)).unwrap();
    let truncated = &ser[..ser.len() - 4];

    let [sync, asyn, stream] = run_all(truncated);
    println!("sync  : {}", summarize(&sync));
    println!("async : {}", summarize(&asyn));
    println!("stream: {}", summarize(&stream));

    assert!(asyn == stream, "async and stream decoders disagree");
    assert!(
        sync == asyn,
        "sync and async decoders return different results for the same bytes:\n  sync : {}\n  async: {}",
        summarize(&sync),
        summarize(&asyn)
    );
}

/// V0-footer xorb (legacy layout, accepted by CasObject::deserialize).
#[test]
fn demo3_uncompressed_range_length_panics_on_v0_footer() {
    // chunks
    let c0 = vec![5u8; 300];
    let c1 = vec![6u8; 200];
    let mut buf = Cursor::new(Vec::new());
    let mut offsets = vec![];
    let mut total = 0u32;
    for c in [&c0, &c1] {
        total += serialize_chunk(c, &mut buf, Some(CompressionScheme::LZ4)).unwrap() as u32;
        offsets.push(total);
    }
    let mut v0 = CasObjectInfoV0::default();
    v0.cashash = MerkleHash::from([1u64, 2, 3, 4]);
    v0.num_chunks = 2;
    v0.chunk_boundary_offsets = offsets;
    v0.chunk_hashes = vec![merklehash::compute_data_hash(&c0), merklehash::compute_data_hash(&c1)];
    buf.seek(SeekFrom::End(0)).unwrap();
    let info_length = v0.serialize(&mut buf).unwrap() as u32;
    buf.write_all(&info_length.to_le_bytes()).unwrap();

    let mut reader = Cursor::new(buf.into_inner());
    let cas = CasObject::deserialize(&mut reader).expect("V0 xorbs are supported by deserialize");
    // reading works
    assert_eq!(cas.get_bytes_by_chunk_range(&mut reader, 1, 2).unwrap(), c1);
    assert_eq!(cas.get_all_bytes(&mut reader).unwrap().len(), 500);
    // the single-chunk variant reports an error ...
    assert!(cas.uncompressed_chunk_length(0).is_err());
    // ... the range variant panics instead of returning Err (or the right answer, 300)
    let r = std::panic::catch_unwind(|| cas.uncompressed_range_length(0, 1));
    assert!(r.is_ok(), "uncompressed_range_length(0, 1) panicked on a V0-footer xorb");
}

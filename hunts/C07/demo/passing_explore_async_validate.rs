use std::io::{Cursor, Read};

use cas_object::*;
use futures::TryStreamExt;
use merkledb::prelude::MerkleDBHighLevelMethodsV1;
use merkledb::{Chunk, MerkleMemDB};
use merklehash::MerkleHash;
use rand::rngs::StdRng;
use rand::{Rng, SeedableRng};

struct OneByte<R: Read>(R);
impl<R: Read> Read for OneByte<R> {
    fn read(&mut self, buf: &mut [u8]) -> std::io::Result<usize> {
        if buf.is_empty() {
            return Ok(0);
        }
        self.0.read(&mut buf[..1])
    }
}

fn xorb_hash(chunks: &[Chunk]) -> MerkleHash {
    let mut db = MerkleMemDB::default();
    let mut staging = db.start_insertion_staging();
    db.add_file(&mut staging, chunks);
    let ret = db.finalize(staging);
    *ret.hash()
}

#[test]
fn explore_async_validate_and_onebyte() {
    let rt = tokio::runtime::Builder::new_current_thread().build().unwrap();
    let mut rng = StdRng::seed_from_u64(7);
    for scheme in [None, Some(CompressionScheme::None), Some(CompressionScheme::LZ4), Some(CompressionScheme::ByteGrouping4LZ4)] {
        for it in 0..40 {
            let n = rng.gen_range(1..=6);
            let mut data = vec![];
            let mut cb = vec![];
            let mut chunks = vec![];
            for _ in 0..n {
                let l = match rng.gen_range(0..3) { 0 => rng.gen_range(1..=30), 1 => rng.gen_range(1..5000), _ => rng.gen_range(131000..=131072) };
                let d: Vec<u8> = match rng.gen_range(0..3) {
                    0 => vec![7u8; l],
                    1 => (0..l).map(|_| rng.gen()).collect(),
                    _ => (0..l).map(|i| if i % 4 == 3 { 0x3f } else { rng.gen() }).collect(),
                };
                let h = merklehash::compute_data_hash(&d);
                data.extend_from_slice(&d);
                chunks.push(Chunk { hash: h, length: l });
                cb.push((h, data.len() as u32));
            }
            let hash = xorb_hash(&chunks);
            let mut w = Cursor::new(Vec::new());
            let (cas, _) = CasObject::serialize(&mut w, &hash, &data, &cb, scheme).unwrap();
            let bytes = w.into_inner();

            // async validate, with and without footer
            let items: Vec<Result<Vec<u8>, std::io::Error>> = bytes.chunks(rng.gen_range(1..50)).map(|c| Ok(c.to_vec())).collect();
            let mut ar = futures::stream::iter(items).into_async_read();
            let r = rt.block_on(validate_cas_object_from_async_read(&mut ar, &hash)).unwrap();
            let (c, gb) = r.expect("async validate rejected valid xorb");
            assert_eq!(c, cas, "it={it}");
            assert!(gb.is_none());

            let contents = &bytes[..cas.get_contents_length().unwrap() as usize];
            let items: Vec<Result<Vec<u8>, std::io::Error>> = contents.chunks(rng.gen_range(1..50)).map(|c| Ok(c.to_vec())).collect();
            let mut ar = futures::stream::iter(items).into_async_read();
            let r = rt.block_on(validate_cas_object_from_async_read(&mut ar, &hash)).unwrap();
            let (c, gb) = r.expect("async validate rejected valid footerless xorb");
            assert_eq!(c.info, cas.info, "it={it}");
            assert_eq!(gb, Some(0));

            // one-byte sync reader
            let (d1, i1) = deserialize_chunks(&mut OneByte(Cursor::new(contents))).unwrap();
            assert_eq!(d1, data);
            assert_eq!(*i1.last().unwrap() as usize, data.len());
        }
    }
}

use std::io::Cursor;

use cas_object::byte_grouping::bg4::*;
use cas_object::*;
use merklehash::{compute_data_hash, MerkleHash};
use rand::rngs::StdRng;
use rand::{Rng, SeedableRng};

#[test]
fn bg4_all_variants_all_small_n() {
    let mut rng = StdRng::seed_from_u64(1);
    for n in 0..300usize {
        let data: Vec<u8> = (0..n).map(|_| rng.gen()).collect();
        let sep = bg4_split_separate(&data);
        let tog = bg4_split_together(&data);
        assert_eq!(sep.concat(), tog, "n={n}");
        assert_eq!(bg4_regroup_separate(&sep), data);
        assert_eq!(bg4_regroup_together(&tog), data);
        assert_eq!(bg4_regroup_together_combined_write_4(&tog), data);
        assert_eq!(bg4_regroup_together_combined_write_8(&tog), data);
        assert_eq!(bg4_regroup(&bg4_split(&data)), data);
    }
}

fn many_chunks(n: usize, scheme: Option<CompressionScheme>) {
    let mut rng = StdRng::seed_from_u64(n as u64);
    let mut data = vec![];
    let mut cb: Vec<(MerkleHash, u32)> = vec![];
    for _ in 0..n {
        let l = rng.gen_range(1..=3);
        for _ in 0..l {
            data.push(rng.gen());
        }
        cb.push((compute_data_hash(&data[data.len() - l..]), data.len() as u32));
    }
    let hash = compute_data_hash(&data);
    let mut w = Cursor::new(Vec::new());
    let (cas, _) = CasObject::serialize(&mut w, &hash, &data, &cb, scheme).unwrap();
    let mut r = Cursor::new(w.into_inner());
    let c2 = CasObject::deserialize(&mut r).unwrap();
    assert_eq!(cas, c2);
    assert_eq!(c2.get_all_bytes(&mut r).unwrap(), data);
    for (s, e) in [(0u32, 1u32), (0, n as u32), (n as u32 - 1, n as u32), (n as u32 / 2, n as u32 / 2 + 1)] {
        let lo = if s == 0 { 0 } else { cb[s as usize - 1].1 } as usize;
        let hi = cb[e as usize - 1].1 as usize;
        assert_eq!(c2.get_bytes_by_chunk_range(&mut r, s, e).unwrap(), &data[lo..hi]);
        assert_eq!(c2.uncompressed_range_length(s, e).unwrap() as usize, hi - lo);
    }
    let (b, _) = CasObjectInfoV1::deserialize_only_boundaries_section(&mut r).unwrap();
    assert_eq!(b.unpacked_chunk_offsets, c2.info.unpacked_chunk_offsets);
}

#[test]
fn chunk_counts() {
    for n in [1151, 1152, 1153, 8191, 8192, 8193, 70000] {
        many_chunks(n, None);
        many_chunks(n, Some(CompressionScheme::LZ4));
    }
}

#[test]
fn max_size_chunks_each_kind() {
    // maximum-size chunks (and +-1..3) of highly compressible data under all schemes
    for len in [131072usize, 131071, 131070, 131069] {
        for fill in [0u8, 0xff, 0x5a] {
            for scheme in [
                None,
                Some(CompressionScheme::None),
                Some(CompressionScheme::LZ4),
                Some(CompressionScheme::ByteGrouping4LZ4),
            ] {
                let chunk = vec![fill; len];
                let mut out = vec![];
                let n = serialize_chunk(&chunk, &mut out, scheme).unwrap();
                assert_eq!(n, out.len());
                let (d, c, u) = deserialize_chunk(&mut Cursor::new(&out)).unwrap();
                assert_eq!(d, chunk);
                assert_eq!(c, out.len());
                assert_eq!(u as usize, len);
            }
        }
    }
}

#[test]
fn concurrent_serialization() {
    let hs: Vec<_> = (0..8)
        .map(|t| {
            std::thread::spawn(move || {
                let mut rng = StdRng::seed_from_u64(t);
                for _ in 0..200 {
                    let len = rng.gen_range(1..5000);
                    let chunk: Vec<u8> = (0..len).map(|i| (i % 7) as u8 ^ rng.gen_range(0..2)).collect();
                    let mut out = vec![];
                    serialize_chunk(&chunk, &mut out, Some(CompressionScheme::ByteGrouping4LZ4)).unwrap();
                    let (d, _, _) = deserialize_chunk(&mut Cursor::new(&out)).unwrap();
                    assert_eq!(d, chunk);
                }
            })
        })
        .collect();
    for h in hs {
        h.join().unwrap();
    }
}

use std::io::{Cursor, Read};

use bytes::Bytes;
use cas_object::deserialize_async::{deserialize_chunks_from_async_read, deserialize_chunks_from_stream};
use cas_object::*;
use merklehash::{compute_data_hash, MerkleHash};
use rand::rngs::StdRng;
use rand::{Rng, SeedableRng};

const MAX_CHUNK: usize = 128 * 1024;

struct OneByte<R: Read>(R, usize);
impl<R: Read> Read for OneByte<R> {
    fn read(&mut self, buf: &mut [u8]) -> std::io::Result<usize> {
        if buf.is_empty() {
            return Ok(0);
        }
        let n = self.1.min(buf.len());
        self.0.read(&mut buf[..n])
    }
}

fn gen_chunk(rng: &mut StdRng, len: usize) -> Vec<u8> {
    let kind = rng.gen_range(0..9);
    let mut v = vec![0u8; len];
    match kind {
        0 => rng.fill(&mut v[..]),
        1 => {},
        2 => v.iter_mut().for_each(|b| *b = 0xff),
        3 => {
            // f32 in [-1,1]
            let mut i = 0;
            let off = rng.gen_range(0..4);
            while i < len {
                let f: f32 = rng.gen_range(-1.0..=1.0);
                for (k, b) in f.to_le_bytes().iter().enumerate() {
                    if i + k >= off && i + k - off < len {
                        v[i + k - off] = *b;
                    }
                }
                i += 4;
            }
        },
        4 => {
            // low entropy repeated pattern
            let p = rng.gen_range(1..40);
            let pat: Vec<u8> = (0..p).map(|_| rng.gen()).collect();
            for (i, b) in v.iter_mut().enumerate() {
                *b = pat[i % p];
            }
        },
        5 => {
            // mostly zero with sprinkled
            for b in v.iter_mut() {
                if rng.gen_range(0..10) == 0 {
                    *b = rng.gen();
                }
            }
        },
        6 => {
            // slightly compressible: random with a short run
            rng.fill(&mut v[..]);
            let run = rng.gen_range(0..32.min(len + 1));
            for b in v.iter_mut().take(run) {
                *b = 7;
            }
        },
        7 => {
            // bf16-like
            for (i, b) in v.iter_mut().enumerate() {
                *b = if i % 2 == 1 { 0x3f } else { rng.gen() };
            }
        },
        _ => {
            // looks like headers / magic numbers
            let magic = [0x04u8, 0x22, 0x4d, 0x18, b'X', b'E', b'T', b'B', b'L', b'O', b'B', 1];
            for (i, b) in v.iter_mut().enumerate() {
                *b = magic[i % magic.len()];
            }
        },
    }
    v
}

fn gen_len(rng: &mut StdRng) -> usize {
    match rng.gen_range(0..8) {
        0 => rng.gen_range(1..=8),
        1 => rng.gen_range(1..=64),
        2 => MAX_CHUNK - rng.gen_range(0..4),
        3 => 65536 + rng.gen_range(0..9) - 4,
        4 => rng.gen_range(1..=MAX_CHUNK),
        _ => rng.gen_range(1..=4096),
    }
}

fn check(seed: u64, scheme: Option<CompressionScheme>) {
    let mut rng = StdRng::seed_from_u64(seed);
    let n = match rng.gen_range(0..4) {
        0 => 1,
        1 => rng.gen_range(1..4),
        _ => rng.gen_range(1..24),
    };
    let mut data = vec![];
    let mut cb: Vec<(MerkleHash, u32)> = vec![];
    let mut chunks = vec![];
    for _ in 0..n {
        let l = gen_len(&mut rng);
        let c = gen_chunk(&mut rng, l);
        data.extend_from_slice(&c);
        cb.push((compute_data_hash(&c), data.len() as u32));
        chunks.push(c);
    }
    let hash = compute_data_hash(&data);
    let mut w = Cursor::new(Vec::new());
    let (cas, total) = CasObject::serialize(&mut w, &hash, &data, &cb, scheme).unwrap();
    let bytes = w.into_inner();
    assert_eq!(total, bytes.len());

    let mut r = Cursor::new(bytes.clone());
    let c2 = CasObject::deserialize(&mut r).unwrap();
    assert_eq!(cas, c2, "seed {seed}");
    assert_eq!(c2.info.unpacked_chunk_offsets, cb.iter().map(|x| x.1).collect::<Vec<_>>());
    assert_eq!(c2.get_all_bytes(&mut r).unwrap(), data, "seed {seed} {scheme:?}");
    let (b, _) = CasObjectInfoV1::deserialize_only_boundaries_section(&mut r).unwrap();
    assert_eq!(b.chunk_boundary_offsets, c2.info.chunk_boundary_offsets);
    assert_eq!(b.unpacked_chunk_offsets, c2.info.unpacked_chunk_offsets);
    assert!(CasObject::validate_cas_object(&mut r, &hash).is_ok());

    for s in 0..n as u32 {
        for e in s + 1..=n as u32 {
            let lo = if s == 0 { 0 } else { cb[s as usize - 1].1 } as usize;
            let hi = cb[e as usize - 1].1 as usize;
            let got = c2.get_bytes_by_chunk_range(&mut r, s, e).unwrap();
            assert_eq!(got, &data[lo..hi], "seed {seed} {scheme:?} range {s}..{e}");
            assert_eq!(c2.uncompressed_range_length(s, e).unwrap() as usize, hi - lo);
            let (bs, be) = c2.get_byte_offset(s, e).unwrap();
            let raw = &bytes[bs as usize..be as usize];
            // sync
            let (d1, i1) = deserialize_chunks(&mut Cursor::new(raw)).unwrap();
            assert_eq!(d1, &data[lo..hi]);
            let exp_idx: Vec<u32> = std::iter::once(0)
                .chain((s..e).map(|k| cb[k as usize].1 - lo as u32))
                .collect();
            assert_eq!(i1, exp_idx);
            // sync, short reads
            let step = rng.gen_range(1..5);
            let (d1b, i1b) = deserialize_chunks(&mut OneByte(Cursor::new(raw), step)).unwrap();
            assert_eq!(d1b, d1, "seed {seed} {scheme:?} range {s}..{e} shortread {step}");
            assert_eq!(i1b, i1);
            // async
            let (d2, i2) = futures::executor::block_on(deserialize_chunks_from_async_read(&mut &raw[..])).unwrap();
            assert_eq!(d2, d1);
            assert_eq!(i2, i1);
            // stream
            let piece = rng.gen_range(1..(raw.len() + 2));
            let parts: Vec<Result<Bytes, std::io::Error>> = raw
                .chunks(piece)
                .flat_map(|c| [Ok(Bytes::new()), Ok(Bytes::copy_from_slice(c))])
                .collect();
            let (d3, i3) =
                futures::executor::block_on(deserialize_chunks_from_stream(futures::stream::iter(parts))).unwrap();
            assert_eq!(d3, d1);
            assert_eq!(i3, i1);
        }
        assert_eq!(c2.uncompressed_chunk_length(s).unwrap() as usize, chunks[s as usize].len());
    }
}

#[test]
fn fuzz_all() {
    let n: u64 = std::env::var("HUNT_N").ok().and_then(|s| s.parse().ok()).unwrap_or(200);
    let base: u64 = std::env::var("HUNT_BASE").ok().and_then(|s| s.parse().ok()).unwrap_or(0);
    for seed in base..base + n {
        for scheme in [
            None,
            Some(CompressionScheme::None),
            Some(CompressionScheme::LZ4),
            Some(CompressionScheme::ByteGrouping4LZ4),
        ] {
            check(seed, scheme);
        }
    }
}

// Exploratory differential harness (not a deliverable).
use std::collections::{BTreeMap, BTreeSet};
use std::io::Cursor;

use mdb_shard::cas_structs::*;
use mdb_shard::file_structs::*;
use mdb_shard::set_operations::{shard_set_difference, shard_set_union};
use mdb_shard::shard_format::MDBShardInfo;
use mdb_shard::shard_in_memory::MDBInMemoryShard;
use mdb_shard::streaming_shard::MDBMinimalShard;
use merklehash::MerkleHash;
use rand::rngs::StdRng;
use rand::{Rng, SeedableRng};

fn h(a: u64, b: u64) -> MerkleHash {
    MerkleHash::from([a, b, 7, 9])
}

fn file_pool() -> Vec<MerkleHash> {
    let mut v = vec![];
    for a in [0u64, 1, 5, u64::MAX] {
        for b in [0u64, 1, 2] {
            v.push(h(a, b));
        }
    }
    v
}
fn cas_pool() -> Vec<MerkleHash> {
    let mut v = vec![];
    for a in [0u64, 3, 5, u64::MAX] {
        for b in [10u64, 11, 12] {
            v.push(h(a, b));
        }
    }
    v
}
fn chunk_pool() -> Vec<MerkleHash> {
    let mut v = vec![];
    for a in [0u64, 2, 5, u64::MAX] {
        for b in [20u64, 21] {
            v.push(h(a, b));
        }
    }
    v
}

// The chunk list of a xorb is a function of its hash.
fn cas_for(hh: &MerkleHash) -> MDBCASInfo {
    let seed = hh[0].wrapping_mul(31).wrapping_add(hh[1]);
    let mut rng = StdRng::seed_from_u64(seed);
    let n = rng.gen_range(0..5usize);
    let pool = chunk_pool();
    let mut chunks = vec![];
    let mut pos = 0u32;
    for _ in 0..n {
        let len = rng.gen_range(1..100u32);
        chunks.push(CASChunkSequenceEntry::new(pool[rng.gen_range(0..pool.len())], len, pos));
        pos += len;
    }
    let mut md = CASChunkSequenceHeader::new(*hh, n, pos);
    md.num_bytes_on_disk = pos / 2;
    MDBCASInfo { metadata: md, chunks }
}

fn gen_file(rng: &mut StdRng, fh: MerkleHash) -> MDBFileInfo {
    let n = rng.gen_range(0..4usize);
    let cp = cas_pool();
    let segs: Vec<_> = (0..n)
        .map(|_| {
            let lb = rng.gen_range(0..5u32);
            let ub = lb + rng.gen_range(1..4u32);
            FileDataSequenceEntry::new(cp[rng.gen_range(0..cp.len())], rng.gen_range(1..1000u32), lb, ub)
        })
        .collect();
    let ver = rng.gen_bool(0.5);
    let ext = rng.gen_bool(0.5);
    MDBFileInfo {
        metadata: FileDataSequenceHeader::new(fh, n, ver, ext),
        verification: if ver {
            segs.iter()
                .map(|s| FileVerificationEntry::new(h(s.unpacked_segment_bytes as u64, 99)))
                .collect()
        } else {
            vec![]
        },
        segments: segs,
        // sha is a function of the file
        metadata_ext: ext.then(|| FileMetadataExt::new(h(fh[0] ^ 77, fh[1]))),
    }
}

fn gen_shard(rng: &mut StdRng) -> MDBInMemoryShard {
    let mut s = MDBInMemoryShard::default();
    let fp = file_pool();
    let cp = cas_pool();
    let nf = rng.gen_range(0..6);
    let nc = rng.gen_range(0..6);
    for _ in 0..nf {
        let fh = fp[rng.gen_range(0..fp.len())];
        s.add_file_reconstruction_info(gen_file(rng, fh)).unwrap();
    }
    for _ in 0..nc {
        let ch = cp[rng.gen_range(0..cp.len())];
        s.add_cas_block(cas_for(&ch)).unwrap();
    }
    s
}

fn to_bytes(s: &MDBInMemoryShard) -> Vec<u8> {
    let mut b = vec![];
    MDBShardInfo::serialize_from(&mut b, s).unwrap();
    b
}

#[derive(Debug, Clone, PartialEq)]
struct Model {
    files: BTreeMap<MerkleHash, MDBFileInfo>,
    cas: BTreeMap<MerkleHash, MDBCASInfo>,
}

fn model_of(s: &MDBInMemoryShard) -> Model {
    Model {
        files: s.file_content.clone(),
        cas: s.cas_content.iter().map(|(k, v)| (*k, v.as_ref().clone())).collect(),
    }
}

/// Full check of a serialized shard against what it should hold.
fn check_bytes(tag: &str, bytes: &[u8], info: Option<&MDBShardInfo>) -> Model {
    let mut cur = Cursor::new(bytes);
    let si = MDBShardInfo::load_from_reader(&mut cur).unwrap();
    if let Some(i) = info {
        assert_eq!(&si, i, "{tag}: returned info != parsed info");
    }
    assert_eq!(si.num_bytes(), bytes.len() as u64, "{tag}: num_bytes");
    let files = si.read_all_file_info_sections(&mut cur).unwrap();
    let cas = si.read_all_cas_blocks_full(&mut cur).unwrap();
    use std::io::Seek;
    assert_eq!(cur.stream_position().unwrap(), si.metadata.file_lookup_offset, "{tag}: cas end");
    // sortedness, uniqueness
    for w in files.windows(2) {
        assert!(w[0].metadata.file_hash < w[1].metadata.file_hash, "{tag}: file order");
    }
    for w in cas.windows(2) {
        assert!(w[0].metadata.cas_hash < w[1].metadata.cas_hash, "{tag}: cas order");
    }
    if si.num_file_entries() == 0 && si.num_cas_entries() == 0 && si.total_num_chunks() == 0 && info.is_none() {
        // input without lookup tables
        return Model {
            files: files.into_iter().map(|f| (f.metadata.file_hash, f)).collect(),
            cas: cas.into_iter().map(|c| (c.metadata.cas_hash, c)).collect(),
        };
    }
    assert_eq!(si.num_file_entries(), files.len(), "{tag}: file lookup count");
    assert_eq!(si.num_cas_entries(), cas.len(), "{tag}: cas lookup count");
    let nchunks: usize = cas.iter().map(|c| c.chunks.len()).sum();
    assert_eq!(si.total_num_chunks(), nchunks, "{tag}: chunk lookup count");

    // totals
    let mat: u64 = files
        .iter()
        .map(|f| f.segments.iter().map(|s| s.unpacked_segment_bytes as u64).sum::<u64>())
        .sum();
    assert_eq!(si.materialized_bytes(), mat, "{tag}: materialized");
    assert_eq!(si.stored_bytes(), cas.iter().map(|c| c.metadata.num_bytes_in_cas as u64).sum::<u64>(), "{tag}");
    assert_eq!(
        si.stored_bytes_on_disk(),
        cas.iter().map(|c| c.metadata.num_bytes_on_disk as u64).sum::<u64>(),
        "{tag}"
    );

    // file lookups
    for f in &files {
        assert_eq!(f.metadata.num_entries as usize, f.segments.len());
        if f.contains_verification() {
            assert_eq!(f.verification.len(), f.segments.len());
        }
        let got = si.get_file_reconstruction_info(&mut cur, &f.metadata.file_hash).unwrap();
        assert_eq!(got.as_ref(), Some(f), "{tag}: file lookup");
    }
    // cas lookups
    let lk = si.read_full_cas_lookup(&mut cur).unwrap();
    for w in lk.windows(2) {
        assert!(w[0].0 <= w[1].0, "{tag}: cas lookup order");
    }
    for c in &cas {
        let mut dest = [0u32; 8];
        let n = si.get_cas_info_index_by_hash(&mut cur, &c.metadata.cas_hash, &mut dest).unwrap();
        let mut found = false;
        for &idx in &dest[..n] {
            cur.seek(std::io::SeekFrom::Start(si.metadata.cas_info_offset + 48 * idx as u64)).unwrap();
            let hd = CASChunkSequenceHeader::deserialize(&mut cur).unwrap();
            if hd == c.metadata {
                found = true;
            }
        }
        assert!(found, "{tag}: cas lookup");
    }
    // chunk lookup table
    let mut tl = si.read_all_truncated_hashes(&mut cur).unwrap();
    for w in tl.windows(2) {
        assert!(w[0].0 <= w[1].0, "{tag}: chunk lookup order");
    }
    let mut exp = vec![];
    let mut idx = 0u32;
    for c in &cas {
        for (j, ch) in c.chunks.iter().enumerate() {
            exp.push((ch.chunk_hash[0], (idx, j as u32)));
        }
        idx += 1 + c.chunks.len() as u32;
    }
    tl.sort();
    exp.sort();
    assert_eq!(tl, exp, "{tag}: chunk lookup");

    // chunk dedup query for each chunk
    let mut count: BTreeMap<u64, usize> = BTreeMap::new();
    for c in &cas {
        for ch in &c.chunks {
            *count.entry(ch.chunk_hash[0]).or_default() += 1;
        }
    }
    for c in &cas {
        for ch in &c.chunks {
            if count[&ch.chunk_hash[0]] <= 8 {
                let r = si.chunk_hash_dedup_query(&mut cur, &[ch.chunk_hash]).unwrap();
                assert!(r.is_some(), "{tag}: chunk not found");
            }
        }
    }
    // minimal shard parse
    let mut c2 = Cursor::new(bytes);
    let ms = MDBMinimalShard::from_reader(&mut c2, true, true).unwrap();
    assert_eq!(ms.num_files(), files.len());
    assert_eq!(ms.num_cas(), cas.len());

    Model {
        files: files.into_iter().map(|f| (f.metadata.file_hash, f)).collect(),
        cas: cas.into_iter().map(|c| (c.metadata.cas_hash, c)).collect(),
    }
}

fn richer_ok(a: &MDBFileInfo, b: &MDBFileInfo, out: &MDBFileInfo) -> bool {
    let ver = a.contains_verification() || b.contains_verification();
    let ext = a.contains_metadata_ext() || b.contains_metadata_ext();
    if out.contains_verification() != ver || out.contains_metadata_ext() != ext {
        return false;
    }
    if ext && out.metadata_ext != a.metadata_ext.clone().or(b.metadata_ext.clone()) {
        return false;
    }
    // segments + verification must come from one of the two
    let from = |x: &MDBFileInfo| {
        out.segments == x.segments && (!ver || (x.contains_verification() && out.verification == x.verification))
    };
    from(a) || from(b)
}

fn check_union(tag: &str, m1: &Model, m2: &Model, out: &Model) {
    let keys: BTreeSet<_> = m1.files.keys().chain(m2.files.keys()).cloned().collect();
    assert_eq!(keys, out.files.keys().cloned().collect::<BTreeSet<_>>(), "{tag}: union file keys");
    for k in &keys {
        match (m1.files.get(k), m2.files.get(k)) {
            (Some(a), Some(b)) => assert!(richer_ok(a, b, &out.files[k]), "{tag}: richer {a:?} {b:?} {:?}", out.files[k]),
            (Some(a), None) | (None, Some(a)) => assert_eq!(a, &out.files[k], "{tag}"),
            _ => unreachable!(),
        }
    }
    let mut cas = m1.cas.clone();
    cas.extend(m2.cas.clone());
    assert_eq!(cas, out.cas, "{tag}: union cas");
}

fn check_diff(tag: &str, m1: &Model, m2: &Model, out: &Model) {
    let files: BTreeMap<_, _> = m2
        .files
        .iter()
        .filter(|(k, _)| !m1.files.contains_key(k))
        .map(|(k, v)| (*k, v.clone()))
        .collect();
    let cas: BTreeMap<_, _> = m2
        .cas
        .iter()
        .filter(|(k, _)| !m1.cas.contains_key(k))
        .map(|(k, v)| (*k, v.clone()))
        .collect();
    assert_eq!(files, out.files, "{tag}: diff files");
    assert_eq!(cas, out.cas, "{tag}: diff cas");
}

fn maybe_minimal(rng: &mut StdRng, b: Vec<u8>) -> Vec<u8> {
    if rng.gen_bool(0.3) {
        let ms = MDBMinimalShard::from_reader(&mut Cursor::new(&b), true, true).unwrap();
        let mut o = vec![];
        ms.serialize(&mut o).unwrap();
        o
    } else {
        b
    }
}

#[test]
fn fuzz_set_ops() {
    let n: u64 = std::env::var("N").ok().and_then(|s| s.parse().ok()).unwrap_or(3000);
    for seed in 0..n {
        let mut rng = StdRng::seed_from_u64(seed);
        let s1 = gen_shard(&mut rng);
        let s2 = if rng.gen_bool(0.1) { s1.clone() } else { gen_shard(&mut rng) };
        let m1 = model_of(&s1);
        let m2 = model_of(&s2);
        let b1 = maybe_minimal(&mut rng, to_bytes(&s1));
        let b2 = maybe_minimal(&mut rng, to_bytes(&s2));
        let tag = format!("seed {seed}");
        assert_eq!(check_bytes(&tag, &b1, None), m1);
        assert_eq!(check_bytes(&tag, &b2, None), m2);
        assert_eq!(s1.shard_file_size(), to_bytes(&s1).len() as u64, "{tag} mem size");

        let i1 = MDBShardInfo::load_from_reader(&mut Cursor::new(&b1)).unwrap();
        let i2 = MDBShardInfo::load_from_reader(&mut Cursor::new(&b2)).unwrap();

        let mut out = vec![];
        let oi = shard_set_union(&i1, &mut Cursor::new(&b1), &i2, &mut Cursor::new(&b2), &mut out).unwrap();
        let mu = check_bytes(&format!("{tag} U"), &out, Some(&oi));
        check_union(&tag, &m1, &m2, &mu);

        let mut outd = vec![];
        let oid = shard_set_difference(&i1, &mut Cursor::new(&b1), &i2, &mut Cursor::new(&b2), &mut outd).unwrap();
        let md = check_bytes(&format!("{tag} D"), &outd, Some(&oid));
        check_diff(&tag, &m1, &m2, &md);

        // chained: (s1 U s2) \ s1 ; s1 U (s1 U s2)
        let mut out3 = vec![];
        let oi3 = shard_set_union(&i1, &mut Cursor::new(&b1), &oi, &mut Cursor::new(&out), &mut out3).unwrap();
        let m3 = check_bytes(&format!("{tag} UU"), &out3, Some(&oi3));
        check_union(&tag, &m1, &mu, &m3);

        let mut out4 = vec![];
        let oi4 = shard_set_difference(&oi, &mut Cursor::new(&out), &i2, &mut Cursor::new(&b2), &mut out4).unwrap();
        let m4 = check_bytes(&format!("{tag} UD"), &out4, Some(&oi4));
        check_diff(&tag, &mu, &m2, &m4);

        // in memory
        let u = s1.union(&s2).unwrap();
        let ub = to_bytes(&u);
        assert_eq!(u.shard_file_size(), ub.len() as u64, "{tag}: mem union size");
        let mmu = check_bytes(&format!("{tag} memU"), &ub, None);
        check_union(&format!("{tag} memU"), &m1, &m2, &mmu);
        // all chunks retrievable in memory
        for c in u.cas_content.values() {
            for ch in &c.chunks {
                assert!(u.chunk_hash_dedup_query(&[ch.chunk_hash]).is_some(), "{tag} memU chunk");
            }
        }
        assert_eq!(u.materialized_bytes(), MDBShardInfo::load_from_reader(&mut Cursor::new(&ub)).unwrap().materialized_bytes());

        let d = s1.difference(&s2).unwrap();
        let db = to_bytes(&d);
        assert_eq!(d.shard_file_size(), db.len() as u64, "{tag}: mem diff size");
        let mmd = check_bytes(&format!("{tag} memD"), &db, None);
        check_diff(&format!("{tag} memD"), &m1, &m2, &mmd);
    }
}

fn merge_models(ms: &[Model]) -> (BTreeMap<MerkleHash, Vec<MDBFileInfo>>, BTreeMap<MerkleHash, MDBCASInfo>) {
    let mut f: BTreeMap<MerkleHash, Vec<MDBFileInfo>> = BTreeMap::new();
    let mut c = BTreeMap::new();
    for m in ms {
        for (k, v) in &m.files {
            f.entry(*k).or_default().push(v.clone());
        }
        c.extend(m.cas.clone());
    }
    (f, c)
}

#[test]
fn fuzz_consolidate() {
    use mdb_shard::session_directory::consolidate_shards_in_directory;
    use merklehash::compute_data_hash;
    let n: u64 = std::env::var("N").ok().and_then(|s| s.parse().ok()).unwrap_or(300);
    for seed in 0..n {
        let mut rng = StdRng::seed_from_u64(seed + 1_000_000);
        let dir = tempdir::TempDir::new("hunt_cons").unwrap();
        let k = rng.gen_range(0..7);
        let mut mems = vec![];
        for _ in 0..k {
            let s = if rng.gen_bool(0.1) { MDBInMemoryShard::default() } else { gen_shard(&mut rng) };
            mems.push(s);
        }
        if k >= 2 && rng.gen_bool(0.3) {
            // leftover of an earlier, interrupted consolidation
            let u = mems[0].union(&mems[1]).unwrap();
            let (i1, b1) = (to_bytes(&mems[0]), to_bytes(&mems[1]));
            let mut out = vec![];
            shard_set_union(
                &MDBShardInfo::load_from_reader(&mut Cursor::new(&i1)).unwrap(),
                &mut Cursor::new(&i1),
                &MDBShardInfo::load_from_reader(&mut Cursor::new(&b1)).unwrap(),
                &mut Cursor::new(&b1),
                &mut out,
            )
            .unwrap();
            let hh = compute_data_hash(&out);
            std::fs::write(dir.path().join(format!("{}.mdb", hh.hex())), &out).unwrap();
            let _ = u;
        }
        let mut total = 0u64;
        for s in &mems {
            let p = s.write_to_directory(dir.path()).unwrap();
            total += std::fs::metadata(&p).unwrap().len();
        }
        // random mtimes
        let mut before = vec![];
        for e in std::fs::read_dir(dir.path()).unwrap() {
            let e = e.unwrap();
            let f = std::fs::OpenOptions::new().write(true).open(e.path()).unwrap();
            let t = std::time::SystemTime::UNIX_EPOCH + std::time::Duration::from_secs(1_700_000_000 + rng.gen_range(0..4));
            f.set_modified(t).unwrap();
            let bytes = std::fs::read(e.path()).unwrap();
            before.push((e.path(), check_bytes("before", &bytes, None)));
        }
        let thr = match rng.gen_range(0..6) {
            0 => 0,
            1 => u64::MAX,
            2 => total,
            3 => total + 1,
            _ => rng.gen_range(0..(total * 3 / 2 + 2)),
        };
        let tag = format!("cons seed {seed} thr {thr} k {k}");
        let res = consolidate_shards_in_directory(dir.path(), thr).unwrap_or_else(|e| panic!("{tag}: {e:?}"));
        let mut after_models = vec![];
        let mut returned_paths = BTreeSet::new();
        for r in &res {
            assert!(r.path.exists(), "{tag}: returned missing {:?}", r.path);
            let bytes = std::fs::read(&r.path).unwrap();
            assert_eq!(compute_data_hash(&bytes), r.shard_hash, "{tag}: hash");
            assert_eq!(
                r.path.file_name().unwrap().to_str().unwrap(),
                format!("{}.mdb", r.shard_hash.hex()),
                "{tag}: name"
            );
            after_models.push(check_bytes(&tag, &bytes, Some(&r.shard)));
            returned_paths.insert(r.path.clone());
        }
        // everything remaining in the directory is returned
        for e in std::fs::read_dir(dir.path()).unwrap() {
            let p = e.unwrap().path();
            assert!(returned_paths.contains(&p), "{tag}: leftover not returned {p:?}");
        }
        let (bf, bc) = merge_models(&before.iter().map(|x| x.1.clone()).collect::<Vec<_>>());
        let (af, ac) = merge_models(&after_models);
        for (k, v) in &bc {
            assert_eq!(ac.get(k), Some(v), "{tag}: cas lost");
        }
        assert_eq!(bc.len(), ac.len(), "{tag}: cas invented");
        assert_eq!(bf.keys().collect::<Vec<_>>(), af.keys().collect::<Vec<_>>(), "{tag}: file keys");
        for (k, variants) in &bf {
            let ver = variants.iter().any(|v| v.contains_verification());
            let ext = variants.iter().any(|v| v.contains_metadata_ext());
            let outs = &af[k];
            // some returned record must carry all the information
            assert!(
                (!ver || outs.iter().any(|o| o.contains_verification())) && (!ext || outs.iter().any(|o| o.contains_metadata_ext())),
                "{tag}: richer variant lost for {k:?}: {variants:?} -> {outs:?}"
            );
            for o in outs {
                assert!(
                    variants.iter().any(|v| v.segments == o.segments),
                    "{tag}: invented segments"
                );
                if o.contains_verification() {
                    assert!(variants.iter().any(|v| v.segments == o.segments && v.verification == o.verification), "{tag}: verification mismatch");
                }
            }
        }
        // sizes: a returned merged shard is below the threshold unless it is a single original
        for r in &res {
            let _ = r;
        }
    }
}

#[test]
fn fuzz_big_union() {
    let n: u64 = std::env::var("N").ok().and_then(|s| s.parse().ok()).unwrap_or(30);
    for seed in 0..n {
        let mut rng = StdRng::seed_from_u64(seed + 77_000);
        let range: u64 = *[40u64, 300, 5000, u64::MAX].get(rng.gen_range(0..4)).unwrap();
        let mut mk = |rng: &mut StdRng| {
            let mut s = MDBInMemoryShard::default();
            let nf = rng.gen_range(0..900);
            let mut cnt: BTreeMap<u64, u32> = BTreeMap::new();
            for _ in 0..nf {
                let a = if range == u64::MAX { rng.gen::<u64>() } else { rng.gen_range(0..range) };
                let c = cnt.entry(a).or_default();
                if *c >= 3 {
                    continue;
                }
                *c += 1;
                let fh = h(a, rng.gen_range(0..3));
                s.add_file_reconstruction_info(gen_file(rng, fh)).unwrap();
            }
            let nc = rng.gen_range(0..300);
            for _ in 0..nc {
                let a = if range == u64::MAX { rng.gen::<u64>() } else { rng.gen_range(0..range) };
                let ch = h(a, 10 + rng.gen_range(0..2));
                let mut c = cas_for(&ch);
                // distinct chunk hashes mostly
                for (i, x) in c.chunks.iter_mut().enumerate() {
                    x.chunk_hash = h(a.wrapping_mul(3).wrapping_add(i as u64 % 2), ch[1]);
                }
                s.add_cas_block(c).unwrap();
            }
            s
        };
        let s1 = mk(&mut rng);
        let s2 = mk(&mut rng);
        let (b1, b2) = (to_bytes(&s1), to_bytes(&s2));
        let i1 = MDBShardInfo::load_from_reader(&mut Cursor::new(&b1)).unwrap();
        let i2 = MDBShardInfo::load_from_reader(&mut Cursor::new(&b2)).unwrap();
        let tag = format!("big seed {seed}");
        let mut out = vec![];
        let oi = shard_set_union(&i1, &mut Cursor::new(&b1), &i2, &mut Cursor::new(&b2), &mut out).unwrap();
        let mu = check_bytes(&format!("{tag} U"), &out, Some(&oi));
        check_union(&tag, &model_of(&s1), &model_of(&s2), &mu);
        let mut outd = vec![];
        let oid = shard_set_difference(&i1, &mut Cursor::new(&b1), &i2, &mut Cursor::new(&b2), &mut outd).unwrap();
        let md = check_bytes(&format!("{tag} D"), &outd, Some(&oid));
        check_diff(&tag, &model_of(&s1), &model_of(&s2), &md);
    }
}

#[test]
fn fuzz_consolidate_rounds() {
    use mdb_shard::session_directory::consolidate_shards_in_directory;
    use merklehash::compute_data_hash;
    let n: u64 = std::env::var("N").ok().and_then(|s| s.parse().ok()).unwrap_or(200);
    for seed in 0..n {
        let mut rng = StdRng::seed_from_u64(seed + 5_000_000);
        let dir = tempdir::TempDir::new("hunt_cons2").unwrap();
        let mut pool: Vec<MDBInMemoryShard> = (0..5).map(|_| gen_shard(&mut rng)).collect();
        pool.push(MDBInMemoryShard::default());
        let mut all_before: Vec<Model> = vec![];
        for round in 0..5 {
            // add some shards (possibly ones that were there before and have been merged away)
            for _ in 0..rng.gen_range(0..4) {
                let s = &pool[rng.gen_range(0..pool.len())];
                s.write_to_directory(dir.path()).unwrap();
                all_before.push(model_of(s));
            }
            let mut total = 0;
            for e in std::fs::read_dir(dir.path()).unwrap() {
                total += e.unwrap().metadata().unwrap().len();
            }
            let thr = match rng.gen_range(0..4) {
                0 => u64::MAX,
                1 => total + 1,
                _ => rng.gen_range(0..(total * 3 / 2 + 2)),
            };
            let tag = format!("rounds seed {seed} round {round} thr {thr}");
            let res = consolidate_shards_in_directory(dir.path(), thr).unwrap_or_else(|e| panic!("{tag}: {e:?}"));
            let mut after_models = vec![];
            let mut returned_paths = BTreeSet::new();
            for r in &res {
                assert!(r.path.exists(), "{tag}: returned missing {:?}", r.path);
                let bytes = std::fs::read(&r.path).unwrap();
                assert_eq!(compute_data_hash(&bytes), r.shard_hash, "{tag}: hash");
                after_models.push(check_bytes(&tag, &bytes, Some(&r.shard)));
                returned_paths.insert(r.path.clone());
            }
            for e in std::fs::read_dir(dir.path()).unwrap() {
                let p = e.unwrap().path();
                assert!(returned_paths.contains(&p), "{tag}: leftover not returned {p:?}");
            }
            let (bf, bc) = merge_models(&all_before);
            let (af, ac) = merge_models(&after_models);
            assert_eq!(bc, ac, "{tag}: cas");
            assert_eq!(bf.keys().collect::<Vec<_>>(), af.keys().collect::<Vec<_>>(), "{tag}: file keys");
            for (k, variants) in &bf {
                let ver = variants.iter().any(|v| v.contains_verification());
                let ext = variants.iter().any(|v| v.contains_metadata_ext());
                let outs = &af[k];
                assert!(
                    (!ver || outs.iter().any(|o| o.contains_verification()))
                        && (!ext || outs.iter().any(|o| o.contains_metadata_ext())),
                    "{tag}: info lost"
                );
                for o in outs {
                    assert!(variants.iter().any(|v| v.segments == o.segments), "{tag}: invented segments");
                    if o.contains_verification() {
                        assert!(
                            variants.iter().any(|v| v.segments == o.segments && v.verification == o.verification),
                            "{tag}: verification mismatch"
                        );
                    }
                }
            }
        }
    }
}

#[test]
fn file_ops_paths() {
    use mdb_shard::set_operations::{shard_file_difference, shard_file_union};
    use merklehash::compute_data_hash;
    let mut rng = StdRng::seed_from_u64(4242);
    for _ in 0..50 {
        let dir = tempdir::TempDir::new("hunt_fo").unwrap();
        let s1 = gen_shard(&mut rng);
        let s2 = gen_shard(&mut rng);
        let p1 = dir.path().join("a.mdb");
        let p2 = dir.path().join("b.mdb");
        std::fs::write(&p1, to_bytes(&s1)).unwrap();
        std::fs::write(&p2, to_bytes(&s2)).unwrap();
        // in place
        let (hh, info) = shard_file_union(&p1, &p2, &p1).unwrap();
        let bytes = std::fs::read(&p1).unwrap();
        assert_eq!(compute_data_hash(&bytes), hh);
        let mu = check_bytes("inplace U", &bytes, Some(&info));
        check_union("inplace", &model_of(&s1), &model_of(&s2), &mu);
        let (hh, info) = shard_file_difference(&p2, &p1, &p1).unwrap();
        let bytes = std::fs::read(&p1).unwrap();
        assert_eq!(compute_data_hash(&bytes), hh);
        let md = check_bytes("inplace D", &bytes, Some(&info));
        check_diff("inplace", &model_of(&s2), &mu, &md);
        let n = std::fs::read_dir(dir.path()).unwrap().count();
        assert_eq!(n, 2, "temp leftovers");
    }
    // bare relative output name
    let dir = tempdir::TempDir::new("hunt_fo2").unwrap();
    std::env::set_current_dir(dir.path()).unwrap();
    let s1 = gen_shard(&mut rng);
    let s2 = gen_shard(&mut rng);
    std::fs::write("a.mdb", to_bytes(&s1)).unwrap();
    std::fs::write("b.mdb", to_bytes(&s2)).unwrap();
    let (hh, _) = shard_file_union("a.mdb".as_ref(), "b.mdb".as_ref(), "out.mdb".as_ref()).unwrap();
    assert_eq!(compute_data_hash(&std::fs::read("out.mdb").unwrap()), hh);
    assert_eq!(std::fs::read_dir(".").unwrap().count(), 3);
}

use std::collections::{BTreeMap, BTreeSet};
use std::io::Cursor;

use mdb_shard::cas_structs::{CASChunkSequenceEntry, CASChunkSequenceHeader, MDBCASInfo};
use mdb_shard::file_structs::{
    FileDataSequenceEntry, FileDataSequenceHeader, FileMetadataExt, FileVerificationEntry, MDBFileInfo,
};
use mdb_shard::session_directory::consolidate_shards_in_directory;
use mdb_shard::set_operations::{shard_set_difference, shard_set_union};
use mdb_shard::shard_format::test_routines::convert_to_file;
use mdb_shard::shard_in_memory::MDBInMemoryShard;
use mdb_shard::{MDBShardFile, MDBShardInfo};
use merklehash::MerkleHash;
use rand::prelude::*;
use tempdir::TempDir;

fn h(a: u64, b: u64) -> MerkleHash {
    MerkleHash::from([a, b, 0, 0])
}

// universe of xorbs: xorb id -> chunks (fixed content per id)
fn xorb(id: u64) -> MDBCASInfo {
    let n = (id % 5) as usize; // including 0-chunk xorbs
    let mut pos = 0u32;
    let chunks: Vec<_> = (0..n)
        .map(|i| {
            // chunk hashes repeat across xorbs and within
            let c = h((id * 7 + i as u64) % 11, (i as u64) % 2);
            let e = CASChunkSequenceEntry::new(c, 10u32 + i as u32, pos);
            pos += 10 + i as u32;
            e
        })
        .collect();
    let mut hd = CASChunkSequenceHeader::new(h(id % 6, id), chunks.len(), pos); // prefix collisions on first word
    hd.num_bytes_on_disk = pos / 2;
    MDBCASInfo { metadata: hd, chunks }
}

fn file(id: u64, v: bool, m: bool) -> MDBFileInfo {
    let n = (id % 4) as usize;
    let segs: Vec<_> = (0..n)
        .map(|i| FileDataSequenceEntry::new(h(i as u64, id), 5u32 + i as u32, i as u32, i as u32 + 1))
        .collect();
    let ver: Vec<_> = if v {
        (0..n).map(|i| FileVerificationEntry::new(h(1000 + i as u64, id))).collect()
    } else {
        vec![]
    };
    MDBFileInfo {
        metadata: FileDataSequenceHeader::new(h(id % 5, id), n, v, m),
        segments: segs,
        verification: ver,
        metadata_ext: m.then(|| FileMetadataExt::new(h(2000, id))),
    }
}

fn rand_shard(rng: &mut StdRng) -> MDBInMemoryShard {
    let mut s = MDBInMemoryShard::default();
    let nx = rng.gen_range(0..5);
    for _ in 0..nx {
        s.add_cas_block(xorb(rng.gen_range(0..14))).unwrap();
    }
    let nf = rng.gen_range(0..5);
    for _ in 0..nf {
        s.add_file_reconstruction_info(file(rng.gen_range(0..12), rng.gen(), rng.gen())).unwrap();
    }
    s
}

type Model = (BTreeMap<MerkleHash, MDBFileInfo>, BTreeMap<MerkleHash, MDBCASInfo>);

fn read_model(bytes: &[u8]) -> Model {
    let mut c = Cursor::new(bytes);
    let si = MDBShardInfo::load_from_reader(&mut c).unwrap();
    let files = si.read_all_file_info_sections(&mut c).unwrap();
    let cas = si.read_all_cas_blocks_full(&mut c).unwrap();
    let nf = files.len();
    let nc = cas.len();
    let f: BTreeMap<_, _> = files.into_iter().map(|f| (f.metadata.file_hash, f)).collect();
    let x: BTreeMap<_, _> = cas.into_iter().map(|f| (f.metadata.cas_hash, f)).collect();
    assert_eq!(f.len(), nf, "duplicate file records");
    assert_eq!(x.len(), nc, "duplicate cas records");
    // check lookups + totals
    assert_eq!(si.num_file_entries(), nf);
    assert_eq!(si.num_cas_entries(), nc);
    assert_eq!(si.num_bytes(), bytes.len() as u64);
    for (k, v) in &f {
        let got = si.get_file_reconstruction_info(&mut c, k).unwrap();
        assert_eq!(got.as_ref(), Some(v));
    }
    let mut nchunks = 0;
    for (k, v) in &x {
        let mut idx = [0u32; 8];
        let n = si.get_cas_info_index_by_hash(&mut c, k, &mut idx).unwrap();
        assert!(n >= 1);
        nchunks += v.chunks.len();
        for (i, ch) in v.chunks.iter().enumerate() {
            let _ = i;
            let r = si.chunk_hash_dedup_query(&mut c, &[ch.chunk_hash]).unwrap();
            // may hit 8-collision cap; we keep universe small enough? not necessarily
            if r.is_none() {
                let mut d = [(0u32, 0u32); 8];
                let n = si.get_cas_info_index_by_chunk(&mut c, &ch.chunk_hash, &mut d).unwrap();
                assert!(n == 8, "chunk not found with {n} lookups");
            }
        }
    }
    assert_eq!(si.total_num_chunks(), nchunks);
    assert_eq!(si.stored_bytes(), x.values().map(|v| v.metadata.num_bytes_in_cas as u64).sum::<u64>());
    assert_eq!(si.stored_bytes_on_disk(), x.values().map(|v| v.metadata.num_bytes_on_disk as u64).sum::<u64>());
    assert_eq!(
        si.materialized_bytes(),
        f.values()
            .map(|v| v.segments.iter().map(|s| s.unpacked_segment_bytes as u64).sum::<u64>())
            .sum::<u64>()
    );
    (f, x)
}

fn flags_union_ok(a: &MDBFileInfo, b: &MDBFileInfo, u: &MDBFileInfo) {
    assert_eq!(u.segments, a.segments);
    assert_eq!(u.contains_verification(), a.contains_verification() || b.contains_verification());
    assert_eq!(u.contains_metadata_ext(), a.contains_metadata_ext() || b.contains_metadata_ext());
    if a.contains_verification() {
        assert_eq!(u.verification, a.verification);
    } else if b.contains_verification() {
        assert_eq!(u.verification, b.verification);
    }
    if a.contains_metadata_ext() {
        assert_eq!(u.metadata_ext, a.metadata_ext);
    } else {
        assert_eq!(u.metadata_ext, b.metadata_ext);
    }
}

#[test]
fn fuzz_set_ops() {
    for seed in 0..3000u64 {
        let mut rng = StdRng::seed_from_u64(seed);
        let a = rand_shard(&mut rng);
        let b = if rng.gen_bool(0.1) { a.clone() } else { rand_shard(&mut rng) };
        let ba = convert_to_file(&a).unwrap();
        let bb = convert_to_file(&b).unwrap();
        let (fa, xa) = read_model(&ba);
        let (fb, xb) = read_model(&bb);

        let mut r1 = Cursor::new(&ba);
        let s1 = MDBShardInfo::load_from_reader(&mut r1).unwrap();
        let mut r2 = Cursor::new(&bb);
        let s2 = MDBShardInfo::load_from_reader(&mut r2).unwrap();
        let mut out = Vec::new();
        let si = shard_set_union(&s1, &mut r1, &s2, &mut r2, &mut out).unwrap();
        {
            let mut c = Cursor::new(&out);
            assert_eq!(si, MDBShardInfo::load_from_reader(&mut c).unwrap());
        }
        let (fu, xu) = read_model(&out);
        let keys: BTreeSet<_> = fa.keys().chain(fb.keys()).cloned().collect();
        assert_eq!(keys, fu.keys().cloned().collect(), "seed {seed}");
        for k in keys {
            match (fa.get(&k), fb.get(&k)) {
                (Some(x), None) | (None, Some(x)) => assert_eq!(x, &fu[&k]),
                (Some(x), Some(y)) => flags_union_ok(x, y, &fu[&k]),
                _ => unreachable!(),
            }
        }
        let xkeys: BTreeSet<_> = xa.keys().chain(xb.keys()).cloned().collect();
        assert_eq!(xkeys, xu.keys().cloned().collect());
        for k in xkeys {
            assert_eq!(xa.get(&k).or(xb.get(&k)).unwrap(), &xu[&k]);
        }

        let mut out = Vec::new();
        shard_set_difference(&s1, &mut r1, &s2, &mut r2, &mut out).unwrap();
        let (fd, xd) = read_model(&out);
        let exp: BTreeMap<_, _> = fb.iter().filter(|(k, _)| !fa.contains_key(k)).map(|(k, v)| (*k, v.clone())).collect();
        assert_eq!(exp, fd);
        let exp: BTreeMap<_, _> = xb.iter().filter(|(k, _)| !xa.contains_key(k)).map(|(k, v)| (*k, v.clone())).collect();
        assert_eq!(exp, xd);
    }
}

#[test]
fn fuzz_consolidate() {
    for seed in 0..400u64 {
        let mut rng = StdRng::seed_from_u64(seed);
        let dir = TempDir::new("hunt_fuzz").unwrap();
        let mut all_f: BTreeMap<MerkleHash, Vec<MDBFileInfo>> = BTreeMap::new();
        let mut all_x: BTreeMap<MerkleHash, MDBCASInfo> = BTreeMap::new();
        let mut history: Vec<MDBInMemoryShard> = vec![];
        for _round in 0..3 {
        let n = rng.gen_range(0..7);
        let mut paths = BTreeSet::new();
        let mut sizes = vec![];
        for _ in 0..n {
            let s = if !history.is_empty() && rng.gen_bool(0.4) { history.choose(&mut rng).unwrap().clone() } else { rand_shard(&mut rng) };
            history.push(s.clone());
            for (k, v) in &s.file_content {
                all_f.entry(*k).or_default().push(v.clone());
            }
            for (k, v) in &s.cas_content {
                all_x.insert(*k, v.as_ref().clone());
            }
            let p = s.write_to_directory(dir.path()).unwrap();
            sizes.push(std::fs::metadata(&p).unwrap().len());
            paths.insert(p);
        }
        let pre: BTreeMap<_, _> = paths.iter().map(|p| (p.clone(), read_model(&std::fs::read(p).unwrap()))).collect();
        let thr = match rng.gen_range(0..5) {
            0 => 0,
            1 => 1 << 30,
            2 => *sizes.choose(&mut rng).unwrap_or(&100),
            3 => sizes.iter().sum::<u64>(),
            _ => rng.gen_range(0..3000),
        };
        let out = consolidate_shards_in_directory(dir.path(), thr).unwrap();
        let mut got_f: BTreeMap<MerkleHash, Vec<MDBFileInfo>> = BTreeMap::new();
        let mut got_x: BTreeMap<MerkleHash, MDBCASInfo> = BTreeMap::new();
        let mut outpaths = BTreeSet::new();
        for sf in &out {
            assert!(sf.path.exists(), "seed {seed}: returned shard does not exist");
            let bytes = std::fs::read(&sf.path).unwrap();
            assert_eq!(merklehash::compute_data_hash(&bytes), sf.shard_hash);
            assert_eq!(mdb_shard::utils::parse_shard_filename(&sf.path), Some(sf.shard_hash));
            let mut c = Cursor::new(&bytes);
            assert_eq!(sf.shard, MDBShardInfo::load_from_reader(&mut c).unwrap());
            if outpaths.insert(sf.path.clone()) {
                let (f, x) = read_model(&bytes);
                for (k, v) in f {
                    got_f.entry(k).or_default().push(v);
                }
                got_x.extend(x);
            }
        }
        // dir contents == returned
        let on_disk: BTreeSet<_> = MDBShardFile::load_all_valid(dir.path()).unwrap().iter().map(|s| s.path.clone()).collect();
        assert_eq!(on_disk, outpaths, "seed {seed}");
        assert_eq!(all_x, got_x, "seed {seed}");
        assert_eq!(all_f.keys().collect::<Vec<_>>(), got_f.keys().collect::<Vec<_>>(), "seed {seed}");
        for (k, vs) in &all_f {
            // union of flags preserved somewhere
            let anyv = vs.iter().any(|v| v.contains_verification());
            let anym = vs.iter().any(|v| v.contains_metadata_ext());
            let g = &got_f[k];
            assert!(g.iter().any(|v| v.contains_verification()) == anyv);
            assert!(g.iter().any(|v| v.contains_metadata_ext()) == anym);
        }
        let _ = pre;
        }
    }
}

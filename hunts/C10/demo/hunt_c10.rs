//! C10 hunt demos: shard union / difference / consolidation must neither lose nor invent records.
//!
//! Every test below runs against the unmodified sources and FAILS because of a defect.
//!
//!   cargo test --offline -p mdb_shard --test hunt_c10 -- --test-threads=1
//!
//! (test 1 also fails, differently, with `--release`: there the debug assertion is compiled out and
//! the union writes a structurally corrupt file-info section.)

use std::io::{Cursor, Write};
use std::time::Duration;

use mdb_shard::cas_structs::{CASChunkSequenceEntry, CASChunkSequenceHeader, MDBCASInfo};
use mdb_shard::file_structs::{
    FileDataSequenceEntry, FileDataSequenceHeader, FileMetadataExt, FileVerificationEntry, MDBFileInfo,
};
use mdb_shard::session_directory::consolidate_shards_in_directory;
use mdb_shard::set_operations::shard_set_union;
use mdb_shard::shard_format::test_routines::convert_to_file;
use mdb_shard::shard_in_memory::MDBInMemoryShard;
use mdb_shard::{MDBShardFile, MDBShardInfo};
use merklehash::{HashedWrite, MerkleHash};
use tempdir::TempDir;

fn h(a: u64, b: u64) -> MerkleHash {
    MerkleHash::from([a, b, 0, 0])
}

fn xorb(cas: MerkleHash, chunks: &[MerkleHash]) -> MDBCASInfo {
    let mut pos = 0u32;
    let entries: Vec<_> = chunks
        .iter()
        .map(|c| {
            let e = CASChunkSequenceEntry::new(*c, 10u32, pos);
            pos += 10;
            e
        })
        .collect();
    MDBCASInfo {
        metadata: CASChunkSequenceHeader::new(cas, entries.len(), pos),
        chunks: entries,
    }
}

/// One file record.  `segments` = (xorb hash, chunk_lo, chunk_hi); verification has one range hash per segment.
fn file(
    file_hash: MerkleHash,
    segments: &[(MerkleHash, u32, u32)],
    with_verification: bool,
    sha: Option<MerkleHash>,
) -> MDBFileInfo {
    let segs: Vec<_> = segments
        .iter()
        .map(|(x, lo, hi)| FileDataSequenceEntry::new(*x, (hi - lo) * 10, *lo, *hi))
        .collect();
    let verification: Vec<_> = if with_verification {
        segments
            .iter()
            .map(|(x, lo, hi)| FileVerificationEntry::new(MerkleHash::from([x[0], *lo as u64, *hi as u64, 77])))
            .collect()
    } else {
        vec![]
    };
    MDBFileInfo {
        metadata: FileDataSequenceHeader::new(file_hash, segs.len(), with_verification, sha.is_some()),
        segments: segs,
        verification,
        metadata_ext: sha.map(FileMetadataExt::new),
    }
}

fn union_bytes(a: &[u8], b: &[u8]) -> (MDBShardInfo, Vec<u8>) {
    let mut r1 = Cursor::new(a);
    let s1 = MDBShardInfo::load_from_reader(&mut r1).unwrap();
    let mut r2 = Cursor::new(b);
    let s2 = MDBShardInfo::load_from_reader(&mut r2).unwrap();
    let mut out = Vec::new();
    let si = shard_set_union(&s1, &mut r1, &s2, &mut r2, &mut out).unwrap();
    (si, out)
}

/// FINDING 1.  The same file (same file hash) legitimately has different segment lists in two shards:
/// the file hash only depends on the chunk hashes, while the segment list depends on what the file was
/// deduplicated against.  When the two variants carry complementary flag sets (one only the sha256
/// metadata_ext, the other only the verification hashes) the union takes the `Merge` branch, which
///   - fires `debug_assert_eq!(num_entries)` in `verify_same_file` (debug build: panic), and
///   - in a release build writes a header announcing fh0.num_entries segments + as many verification
///     entries, but copies fh1.num_entries verification entries.  The record is corrupt, every following
///     file is shifted, and the lookup table indices are off.
#[test]
fn f1_union_same_file_different_segmentation_complementary_flags() {
    let x1 = h(10, 1);
    let x2 = h(11, 1);
    let f = h(100, 1);
    let g = h(200, 1); // a second, unrelated file placed after F in shard 1

    // Shard 1: F stored as two segments (first upload: chunks went to two xorbs), sha256 only.
    let mut m1 = MDBInMemoryShard::default();
    m1.add_cas_block(xorb(x1, &[h(1, 0), h(2, 0)])).unwrap();
    m1.add_cas_block(xorb(x2, &[h(3, 0), h(4, 0)])).unwrap();
    m1.add_file_reconstruction_info(file(f, &[(x1, 0, 2), (x2, 0, 2)], false, Some(h(999, 9))))
        .unwrap();
    m1.add_file_reconstruction_info(file(g, &[(x1, 0, 1)], true, Some(h(998, 9)))).unwrap();

    // Shard 2: the same file F, stored as one segment of one xorb, verification only.
    let x3 = h(12, 1);
    let mut m2 = MDBInMemoryShard::default();
    m2.add_cas_block(xorb(x3, &[h(1, 0), h(2, 0), h(3, 0), h(4, 0)])).unwrap();
    m2.add_file_reconstruction_info(file(f, &[(x3, 0, 4)], true, None)).unwrap();

    let b1 = convert_to_file(&m1).unwrap();
    let b2 = convert_to_file(&m2).unwrap();

    // debug build: panics here ("num entries for same hash don't match")
    let (si, out) = union_bytes(&b1, &b2);

    // release build: the output is structurally broken.
    let mut c = Cursor::new(&out);
    let fi = si
        .get_file_reconstruction_info(&mut c, &f)
        .unwrap()
        .expect("F must be retrievable from the union");
    assert_eq!(fi.segments.len(), fi.verification.len(), "segments / verification of F out of step");
    let one_of_inputs = fi.segments == m1.file_content[&f].segments || fi.segments == m2.file_content[&f].segments;
    assert!(one_of_inputs, "segments of F are not those of either input");
    if fi.segments == m1.file_content[&f].segments {
        // verification hashes are per segment: they must belong to the segment list that was kept
        assert_ne!(
            fi.verification, m2.file_content[&f].verification,
            "verification hashes of the OTHER segmentation were attached"
        );
    }
    let gi = si.get_file_reconstruction_info(&mut c, &g).unwrap();
    assert_eq!(gi.as_ref(), Some(&m1.file_content[&g]), "file G (after F) is no longer retrievable intact");
    let all = si.read_all_file_info_sections(&mut c).unwrap();
    assert_eq!(all.len(), 2, "union must hold exactly F and G");
}

/// FINDING 1b.  Same situation but equal segment COUNT and different segment boundaries: no assertion
/// fires in any build; the union silently emits a file record that exists in neither input: the segments
/// of variant A with the per-segment verification hashes of variant B (an invented record).
#[test]
fn f1b_union_merge_pairs_segments_with_foreign_verification() {
    let x1 = h(10, 1);
    let x2 = h(11, 1);
    let f = h(100, 1);

    let mut m1 = MDBInMemoryShard::default();
    m1.add_cas_block(xorb(x1, &[h(1, 0), h(2, 0), h(3, 0), h(4, 0)])).unwrap();
    // variant A: chunks [0,1) + [1,4), sha256 only
    m1.add_file_reconstruction_info(file(f, &[(x1, 0, 1), (x1, 1, 4)], false, Some(h(999, 9))))
        .unwrap();

    let mut m2 = MDBInMemoryShard::default();
    m2.add_cas_block(xorb(x2, &[h(1, 0), h(2, 0), h(3, 0), h(4, 0)])).unwrap();
    // variant B: chunks [0,3) + [3,4), verification only
    m2.add_file_reconstruction_info(file(f, &[(x2, 0, 3), (x2, 3, 4)], true, None)).unwrap();

    let (si, out) = union_bytes(&convert_to_file(&m1).unwrap(), &convert_to_file(&m2).unwrap());
    let mut c = Cursor::new(&out);
    let fi = si.get_file_reconstruction_info(&mut c, &f).unwrap().unwrap();

    // The verification hashes are bound to the segments they were computed for.
    let a = &m1.file_content[&f];
    let b = &m2.file_content[&f];
    let consistent_with_b = fi.segments == b.segments && fi.verification == b.verification;
    let consistent_with_a = fi.segments == a.segments && fi.verification == a.verification;
    assert!(
        consistent_with_a || consistent_with_b,
        "union invented a record: segments {:?} carry verification {:?} computed for segments {:?}",
        fi.segments.iter().map(|s| (s.chunk_index_start, s.chunk_index_end)).collect::<Vec<_>>(),
        fi.verification.iter().map(|v| (v.range_hash[1], v.range_hash[2])).collect::<Vec<_>>(),
        b.segments.iter().map(|s| (s.chunk_index_start, s.chunk_index_end)).collect::<Vec<_>>(),
    );
}

/// FINDING 2.  "All size thresholds": the natural "no limit" threshold makes consolidation panic before
/// it has looked at a single shard, because three `Vec::with_capacity(target_max_size as usize)` are
/// allocated up front (and any large-but-finite threshold tries to reserve 3x that much memory).
#[test]
fn f2_consolidate_with_unbounded_threshold_panics() {
    let dir = TempDir::new("hunt_c10_f2").unwrap();
    for i in 0..3u64 {
        let mut m = MDBInMemoryShard::default();
        m.add_cas_block(xorb(h(10 + i, 1), &[h(1 + i, 0)])).unwrap();
        m.write_to_directory(dir.path()).unwrap();
    }
    let r = std::panic::catch_unwind(|| consolidate_shards_in_directory(dir.path(), u64::MAX));
    let shards = r.expect("consolidate_shards_in_directory(dir, u64::MAX) panicked (capacity overflow)").unwrap();
    assert_eq!(shards.len(), 1);
}

/// FINDING 3.  Prefix collisions: each input holds 4 files whose hashes share the first 64 bits; every one
/// of them is retrievable from its own shard.  In the union (8 colliding keys) none of the 8 is retrievable
/// any more: the lookup returns TruncatedHashCollisionError for all of them, although the records are there.
/// The same happens through consolidate_shards_in_directory, which then deletes the two readable inputs.
#[test]
fn f3_union_of_prefix_colliding_files_makes_them_unretrievable() {
    let mut m1 = MDBInMemoryShard::default();
    let mut m2 = MDBInMemoryShard::default();
    let x = h(10, 1);
    m1.add_cas_block(xorb(x, &[h(1, 0)])).unwrap();
    let mut hashes = vec![];
    for i in 0..4u64 {
        let fa = h(0x5555, i);
        let fb = h(0x5555, 100 + i);
        m1.add_file_reconstruction_info(file(fa, &[(x, 0, 1)], true, Some(h(7, i)))).unwrap();
        m2.add_file_reconstruction_info(file(fb, &[(x, 0, 1)], true, Some(h(8, i)))).unwrap();
        hashes.push(fa);
        hashes.push(fb);
    }
    let b1 = convert_to_file(&m1).unwrap();
    let b2 = convert_to_file(&m2).unwrap();

    // every record is retrievable from its input shard
    for (m, b) in [(&m1, &b1), (&m2, &b2)] {
        let mut c = Cursor::new(b);
        let si = MDBShardInfo::load_from_reader(&mut c).unwrap();
        for k in m.file_content.keys() {
            assert!(si.get_file_reconstruction_info(&mut c, k).unwrap().is_some());
        }
    }

    let (si, out) = union_bytes(&b1, &b2);
    assert_eq!(si.num_file_entries(), 8);
    let mut c = Cursor::new(&out);
    for k in &hashes {
        let r = si.get_file_reconstruction_info(&mut c, k);
        assert!(
            matches!(r, Ok(Some(_))),
            "file {k:?} was retrievable before the union and is not afterwards: {r:?}"
        );
    }
}

/// FINDING 4.  Union / consolidation of keyed shards (chunk hashes protected by an HMAC key, finite expiry):
/// set_operation starts from `MDBShardFileFooter::default()` and never carries over `chunk_hash_hmac_key`
/// or `shard_key_expiry`.  The result stores keyed chunk hashes but declares "no key", so no chunk of
/// either input can be found any more, and the expiry is reset to "never".
#[test]
fn f4_union_drops_hmac_key_and_expiry() {
    let dir = TempDir::new("hunt_c10_f4").unwrap();
    let src = TempDir::new("hunt_c10_f4_src").unwrap();
    let key = MerkleHash::from([1, 2, 3, 4]);

    let c1 = h(1, 0);
    let c2 = h(2, 0);
    let mut m1 = MDBInMemoryShard::default();
    m1.add_cas_block(xorb(h(10, 1), &[c1])).unwrap();
    let mut m2 = MDBInMemoryShard::default();
    m2.add_cas_block(xorb(h(11, 1), &[c2])).unwrap();

    let mut keyed = vec![];
    for m in [&m1, &m2] {
        let p = m.write_to_directory(src.path()).unwrap();
        let sf = MDBShardFile::load_from_file(&p).unwrap();
        keyed.push(
            sf.export_as_keyed_shard(dir.path(), key, Duration::from_secs(3600), true, true, true)
                .unwrap(),
        );
    }
    // both chunks are found in the inputs (queries use the un-keyed hash)
    assert!(keyed[0].chunk_hash_dedup_query(&[c1]).unwrap().is_some());
    assert!(keyed[1].chunk_hash_dedup_query(&[c2]).unwrap().is_some());

    let out = consolidate_shards_in_directory(dir.path(), 1 << 20).unwrap();
    assert_eq!(out.len(), 1);
    let u = &out[0];
    assert!(!keyed[0].path.exists() && !keyed[1].path.exists(), "inputs were deleted");

    assert!(u.chunk_hash_dedup_query(&[c1]).unwrap().is_some(), "chunk c1 lost by consolidation");
    assert!(u.chunk_hash_dedup_query(&[c2]).unwrap().is_some(), "chunk c2 lost by consolidation");
    assert_eq!(
        u.shard.metadata.shard_key_expiry,
        keyed[0].shard.metadata.shard_key_expiry.min(keyed[1].shard.metadata.shard_key_expiry),
        "expiry of the keyed inputs was replaced by 'never'"
    );
}

/// FINDING 5 (in-memory oracle, shard_in_memory.rs).  MDBInMemoryShard::difference keeps xorb X2 (not in
/// the first shard) but filters the chunk lookup per chunk hash, so a chunk of X2 that ALSO occurs in some
/// other xorb of the first shard is dropped from the lookup: X2's record is there, but not retrievable, and
/// shard_file_size() no longer equals the serialized size.  The file-based shard_set_difference keeps it.
#[test]
fn f5_in_memory_difference_loses_chunk_lookup() {
    let c = h(1, 0);
    let d = h(2, 0);
    let mut m1 = MDBInMemoryShard::default();
    m1.add_cas_block(xorb(h(10, 1), &[c])).unwrap();
    let mut m2 = MDBInMemoryShard::default();
    m2.add_cas_block(xorb(h(11, 1), &[c, d])).unwrap();

    let diff = m1.difference(&m2).unwrap();
    assert!(diff.cas_content.contains_key(&h(11, 1)));
    let bytes = convert_to_file(&diff).unwrap();
    assert!(diff.chunk_hash_dedup_query(&[c, d]).is_some(), "chunk c of retained xorb not retrievable");
    assert_eq!(diff.shard_file_size(), bytes.len() as u64, "size total of the difference is wrong");
}

/// FINDING 6 (in-memory oracle).  MDBInMemoryShard::union of two shards holding the same file with the same
/// flags but different (legitimate) segmentations panics in debug builds (verify_same_file), although no
/// merge is needed at all.  The file-based union handles this input fine (Equal -> keep first).
#[test]
fn f6_in_memory_union_same_file_different_segmentation() {
    let f = h(100, 1);
    let mut m1 = MDBInMemoryShard::default();
    m1.add_file_reconstruction_info(file(f, &[(h(10, 1), 0, 2), (h(11, 1), 0, 2)], true, Some(h(9, 9))))
        .unwrap();
    let mut m2 = MDBInMemoryShard::default();
    m2.add_file_reconstruction_info(file(f, &[(h(12, 1), 0, 4)], true, Some(h(9, 9)))).unwrap();

    // file based: fine
    let (si, _) = union_bytes(&convert_to_file(&m1).unwrap(), &convert_to_file(&m2).unwrap());
    assert_eq!(si.num_file_entries(), 1);

    let u = m1.union(&m2).unwrap(); // panics: "num entries for same hash don't match"
    assert_eq!(u.file_content.len(), 1);
}

/// FINDING 7 (mechanism: hash-named output via HashedWrite).  HashedWrite::write feeds the WHOLE buffer to
/// the hasher and then forwards to the inner writer, which may legally accept only a prefix (short write) or
/// return ErrorKind::Interrupted; `write_all` / `io::copy` / BufWriter then re-submit the rest, which is
/// hashed a second time.  The hash, and therefore the shard file name chosen by write_out_from_reader /
/// shard_file_op, no longer equals the hash of the bytes on disk.
#[test]
fn f7_hashed_write_short_write_gives_wrong_name() {
    struct Short(Vec<u8>);
    impl Write for Short {
        fn write(&mut self, buf: &[u8]) -> std::io::Result<usize> {
            let n = buf.len().min(1000); // a legal short write
            self.0.extend_from_slice(&buf[..n]);
            Ok(n)
        }
        fn flush(&mut self) -> std::io::Result<()> {
            Ok(())
        }
    }
    let mut m = MDBInMemoryShard::default();
    m.add_cas_block(xorb(h(10, 1), &(0..100).map(|i| h(i, 0)).collect::<Vec<_>>())).unwrap();
    let bytes = convert_to_file(&m).unwrap();

    let mut hw = HashedWrite::new(Short(vec![]));
    std::io::copy(&mut Cursor::new(&bytes), &mut hw).unwrap(); // what write_out_from_reader does
    hw.flush().unwrap();
    let name_hash = hw.hash();
    let written = hw.into_inner().0;
    assert_eq!(written, bytes, "content written correctly");
    assert_eq!(name_hash, merklehash::compute_data_hash(&written), "file name hash != hash of file content");
}

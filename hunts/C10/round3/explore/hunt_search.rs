use std::io::Cursor;
use mdb_shard::interpolation_search::search_on_sorted_u64s;
use rand::prelude::*;
use utils::serialization_utils::*;

#[test]
fn fuzz_search() {
    for seed in 0..20000u64 {
        let mut rng = StdRng::seed_from_u64(seed);
        let n = match rng.gen_range(0..4) { 0 => rng.gen_range(0..300), 1 => rng.gen_range(250..270), 2 => rng.gen_range(256..1200), _ => rng.gen_range(500..4000) };
        let mode = rng.gen_range(0..6);
        let mut keys: Vec<u64> = Vec::new();
        while keys.len() < n {
            let k: u64 = match mode {
                0 => rng.gen(),
                1 => rng.gen_range(0..1000),
                2 => u64::MAX - rng.gen_range(0..1000),
                3 => if rng.gen_bool(0.5) { rng.gen_range(0..50) } else { u64::MAX - rng.gen_range(0..50) },
                4 => (rng.gen::<u64>() >> rng.gen_range(0..64)),
                _ => { let c: u64 = rng.gen(); c.wrapping_add(rng.gen_range(0..3)) },
            };
            let d = rng.gen_range(1..=7usize);
            for _ in 0..d { keys.push(k); }
        }
        keys.sort_unstable();
        // cap dups at 7
        let mut filtered: Vec<u64> = Vec::new();
        for k in keys { let c = filtered.iter().rev().take_while(|x| **x == k).count(); if c < 7 { filtered.push(k); } }
        let keys = filtered;
        let mut data = Vec::new();
        for (i, k) in keys.iter().enumerate() { write_u64(&mut data, *k).unwrap(); write_u32(&mut data, i as u32).unwrap(); }
        let mut queries: Vec<u64> = keys.clone();
        queries.dedup();
        if queries.len() > 400 { queries.shuffle(&mut rng); queries.truncate(400); }
        queries.push(0); queries.push(u64::MAX); queries.push(rng.gen());
        for q in queries {
            let mut res = [0u32; 8];
            let c = search_on_sorted_u64s(&mut Cursor::new(&data), 0, keys.len() as u64, q, read_u32::<Cursor<&Vec<u8>>>, &mut res).unwrap();
            let mut got: Vec<u32> = res[..c].to_vec(); got.sort();
            let want: Vec<u32> = keys.iter().enumerate().filter(|(_, k)| **k == q).map(|(i, _)| i as u32).collect();
            assert_eq!(got, want, "seed {seed} n {} q {q}", keys.len());
        }
    }
}

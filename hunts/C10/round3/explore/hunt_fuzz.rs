// Exploratory fuzz harness for C10 (not a deliverable demo).
use std::collections::{BTreeMap, BTreeSet};
use std::io::{Cursor, Write};

use mdb_shard::cas_structs::*;
use mdb_shard::file_structs::*;
use mdb_shard::session_directory::consolidate_shards_in_directory;
use mdb_shard::set_operations::*;
use mdb_shard::shard_in_memory::MDBInMemoryShard;
use mdb_shard::streaming_shard::MDBMinimalShard;
use mdb_shard::utils::parse_shard_filename;
use mdb_shard::{MDBShardFile, MDBShardInfo};
use merklehash::{compute_data_hash, MerkleHash};
use rand::prelude::*;
use tempdir::TempDir;

struct Pools {
    file_hashes: Vec<MerkleHash>,
    xorbs: Vec<MDBCASInfo>,
    chunk_hashes: Vec<MerkleHash>,
}

fn rh(rng: &mut StdRng) -> MerkleHash {
    MerkleHash::from([rng.gen(), rng.gen(), rng.gen(), rng.gen()])
}

fn make_pools(rng: &mut StdRng, nfiles: usize, nxorbs: usize, nchunks: usize) -> Pools {
    let mut file_hashes = Vec::new();
    for i in 0..nfiles {
        let mut h = rh(rng);
        // prefix collisions: some share the first u64 with a previous one
        if i > 0 && rng.gen_bool(if nfiles < 50 { 0.25 } else { 0.01 }) {
            let p: MerkleHash = file_hashes[rng.gen_range(0..i)];
            h = MerkleHash::from([p[0], rng.gen(), rng.gen(), rng.gen()]);
        }
        if nfiles < 50 && rng.gen_bool(0.05) {
            h = MerkleHash::from([0, rng.gen(), 0, 0]);
        }
        if nfiles < 50 && rng.gen_bool(0.05) {
            h = MerkleHash::from([u64::MAX, rng.gen(), 0, 0]);
        }
        file_hashes.push(h);
    }
    let mut chunk_hashes = Vec::new();
    for i in 0..nchunks {
        let mut h = rh(rng);
        if i > 0 && rng.gen_bool(0.0) {
            let p: MerkleHash = chunk_hashes[rng.gen_range(0..i)];
            h = MerkleHash::from([p[0], rng.gen(), rng.gen(), rng.gen()]);
        }
        chunk_hashes.push(h);
    }
    let mut xorbs = Vec::new();
    for i in 0..nxorbs {
        let mut h = rh(rng);
        if i > 0 && rng.gen_bool(if nxorbs < 50 { 0.2 } else { 0.01 }) {
            let p: &MDBCASInfo = &xorbs[rng.gen_range(0..i)];
            h = MerkleHash::from([p.metadata.cas_hash[0], rng.gen(), rng.gen(), rng.gen()]);
        }
        let n = rng.gen_range(0..6usize);
        let mut chunks = Vec::new();
        let mut pos = 0u32;
        for _ in 0..n {
            let ch = chunk_hashes[rng.gen_range(0..nchunks)];
            let len = rng.gen_range(1..1000u32);
            chunks.push(CASChunkSequenceEntry::new(ch, len, pos));
            pos += len;
        }
        let mut md = CASChunkSequenceHeader::new(h, n, pos);
        md.num_bytes_on_disk = pos / 2;
        xorbs.push(MDBCASInfo { metadata: md, chunks });
    }
    Pools {
        file_hashes,
        xorbs,
        chunk_hashes,
    }
}

fn gen_shard(rng: &mut StdRng, p: &Pools, maxf: usize, maxx: usize) -> MDBInMemoryShard {
    let mut s = MDBInMemoryShard::default();
    let nx = rng.gen_range(0..=maxx);
    for _ in 0..nx {
        let x = p.xorbs[rng.gen_range(0..p.xorbs.len())].clone();
        s.add_cas_block(x).unwrap();
    }
    let nf = rng.gen_range(0..=maxf);
    for _ in 0..nf {
        let fh = p.file_hashes[rng.gen_range(0..p.file_hashes.len())];
        let nseg = rng.gen_range(0..4usize);
        let verif = rng.gen_bool(0.5);
        let meta = rng.gen_bool(0.5);
        let mut segments = Vec::new();
        let mut verification = Vec::new();
        for _ in 0..nseg {
            let x = &p.xorbs[rng.gen_range(0..p.xorbs.len())];
            let lb = rng.gen_range(0..5u32);
            let ub = lb + rng.gen_range(1..5u32);
            segments.push(FileDataSequenceEntry::new(x.metadata.cas_hash, rng.gen_range(1..100000u32), lb, ub));
            if verif {
                verification.push(FileVerificationEntry::new(rh(rng)));
            }
        }
        // sha256 is a function of the file
        let metadata_ext = meta.then(|| FileMetadataExt::new(MerkleHash::from([fh[1], fh[0], 7, 7])));
        s.add_file_reconstruction_info(MDBFileInfo {
            metadata: FileDataSequenceHeader::new(fh, nseg, verif, meta),
            segments,
            verification,
            metadata_ext,
        })
        .unwrap();
    }
    s
}

fn to_bytes(rng: &mut StdRng, s: &MDBInMemoryShard) -> Vec<u8> {
    let mut buf = Vec::new();
    MDBShardInfo::serialize_from(&mut buf, s).unwrap();
    if rng.gen_bool(0.3) {
        // re-serialize without lookup tables
        let m = MDBMinimalShard::from_reader(&mut Cursor::new(&buf), true, true).unwrap();
        let mut b2 = Vec::new();
        m.serialize(&mut b2).unwrap();
        return b2;
    }
    buf
}

#[derive(Debug)]
struct Parsed {
    files: BTreeMap<MerkleHash, MDBFileInfo>,
    xorbs: BTreeMap<MerkleHash, MDBCASInfo>,
}

fn parse(bytes: &[u8]) -> Parsed {
    let mut c = Cursor::new(bytes);
    let si = MDBShardInfo::load_from_reader(&mut c).unwrap();
    let files = si.read_all_file_info_sections(&mut c).unwrap();
    let xorbs = si.read_all_cas_blocks_full(&mut c).unwrap();
    let mut f = BTreeMap::new();
    for fi in files {
        assert!(f.insert(fi.metadata.file_hash, fi).is_none(), "duplicate file in shard");
    }
    let mut x = BTreeMap::new();
    for xi in xorbs {
        assert!(x.insert(xi.metadata.cas_hash, xi).is_none(), "duplicate xorb in shard");
    }
    Parsed { files: f, xorbs: x }
}

/// Full structural + retrievability check of a shard with lookup tables.
fn check_shard(bytes: &[u8], what: &str) -> Parsed {
    let mut c = Cursor::new(bytes);
    let si = MDBShardInfo::load_from_reader(&mut c).unwrap();
    assert_eq!(si.num_bytes(), bytes.len() as u64, "{what}: num_bytes");
    let p = parse(bytes);

    // section offsets
    let m = &si.metadata;
    let file_bytes: u64 = p.files.values().map(|f| f.num_bytes()).sum::<u64>() + 48;
    let cas_bytes: u64 = p.xorbs.values().map(|x| x.num_bytes()).sum::<u64>() + 48;
    assert_eq!(m.file_info_offset, 48, "{what}");
    assert_eq!(m.cas_info_offset, 48 + file_bytes, "{what}");
    assert_eq!(m.file_lookup_offset, 48 + file_bytes + cas_bytes, "{what}");
    assert_eq!(m.file_lookup_num_entry, p.files.len() as u64, "{what}");
    assert_eq!(m.cas_lookup_offset, m.file_lookup_offset + 12 * p.files.len() as u64, "{what}");
    assert_eq!(m.cas_lookup_num_entry, p.xorbs.len() as u64, "{what}");
    assert_eq!(m.chunk_lookup_offset, m.cas_lookup_offset + 12 * p.xorbs.len() as u64, "{what}");
    let nch: u64 = p.xorbs.values().map(|x| x.chunks.len() as u64).sum();
    assert_eq!(m.chunk_lookup_num_entry, nch, "{what}");
    assert_eq!(m.footer_offset, m.chunk_lookup_offset + 16 * nch, "{what}");
    // totals
    assert_eq!(
        m.materialized_bytes,
        p.files
            .values()
            .map(|f| f.segments.iter().map(|s| s.unpacked_segment_bytes as u64).sum::<u64>())
            .sum::<u64>(),
        "{what}"
    );
    assert_eq!(m.stored_bytes, p.xorbs.values().map(|x| x.metadata.num_bytes_in_cas as u64).sum::<u64>(), "{what}");
    assert_eq!(
        m.stored_bytes_on_disk,
        p.xorbs.values().map(|x| x.metadata.num_bytes_on_disk as u64).sum::<u64>(),
        "{what}"
    );

    // lookups sorted
    let cl = si.read_full_cas_lookup(&mut c).unwrap();
    assert!(cl.windows(2).all(|w| w[0].0 <= w[1].0), "{what}: cas lookup sorted");
    let th = si.read_all_truncated_hashes(&mut c).unwrap();
    assert!(th.windows(2).all(|w| w[0].0 <= w[1].0), "{what}: chunk lookup sorted");

    // retrievability
    for (h, f) in &p.files {
        let got = si.get_file_reconstruction_info(&mut c, h).unwrap();
        assert_eq!(got.as_ref(), Some(f), "{what}: file {h:?} retrievable");
        if f.contains_verification() {
            assert_eq!(f.verification.len(), f.segments.len());
        }
    }
    for (h, x) in &p.xorbs {
        let mut idx = [0u32; 8];
        let n = si.get_cas_info_index_by_hash(&mut c, h, &mut idx).unwrap();
        let mut found = false;
        for &i in &idx[..n] {
            c.set_position(m.cas_info_offset + 48 * i as u64);
            let got = MDBCASInfo::deserialize(&mut c).unwrap().unwrap();
            if got.metadata.cas_hash == *h {
                assert_eq!(&got, x);
                found = true;
            }
        }
        assert!(found, "{what}: xorb {h:?} retrievable");
        for ch in &x.chunks {
            let r = si.chunk_hash_dedup_query(&mut c, &[ch.chunk_hash]).unwrap();
            let (n, e) = r.unwrap_or_else(|| panic!("{what}: chunk {:?} not retrievable", ch.chunk_hash));
            assert_eq!(n, 1);
            let xx = &p.xorbs[&e.cas_hash];
            assert_eq!(xx.chunks[e.chunk_index_start as usize].chunk_hash, ch.chunk_hash);
        }
    }
    p
}

fn expect_union(a: &Parsed, b: &Parsed, out: &Parsed, what: &str) {
    let fk: BTreeSet<_> = a.files.keys().chain(b.files.keys()).cloned().collect();
    assert_eq!(fk, out.files.keys().cloned().collect::<BTreeSet<_>>(), "{what}: file set");
    for k in &fk {
        let o = &out.files[k];
        match (a.files.get(k), b.files.get(k)) {
            (Some(x), None) | (None, Some(x)) => assert_eq!(o, x, "{what}"),
            (Some(x), Some(y)) => {
                assert_eq!(o.metadata.file_flags, x.metadata.file_flags | y.metadata.file_flags, "{what}: flags");
                let from_x = o.segments == x.segments;
                let from_y = o.segments == y.segments;
                assert!(from_x || from_y, "{what}: segments from one input");
                if o.contains_verification() {
                    let okx = from_x && x.contains_verification() && o.verification == x.verification;
                    let oky = from_y && y.contains_verification() && o.verification == y.verification;
                    assert!(okx || oky, "{what}: verification belongs to segments\n{x:?}\n{y:?}\n{o:?}");
                }
                if o.contains_metadata_ext() {
                    assert!(o.metadata_ext == x.metadata_ext || o.metadata_ext == y.metadata_ext);
                    assert!(o.metadata_ext.is_some());
                }
            },
            _ => unreachable!(),
        }
    }
    let xk: BTreeSet<_> = a.xorbs.keys().chain(b.xorbs.keys()).cloned().collect();
    assert_eq!(xk, out.xorbs.keys().cloned().collect::<BTreeSet<_>>(), "{what}: xorb set");
    for k in &xk {
        let o = &out.xorbs[k];
        assert!(a.xorbs.get(k) == Some(o) || b.xorbs.get(k) == Some(o));
    }
}

fn expect_diff(a: &Parsed, b: &Parsed, out: &Parsed, what: &str) {
    let fk: BTreeSet<_> = b.files.keys().filter(|k| !a.files.contains_key(k)).cloned().collect();
    assert_eq!(fk, out.files.keys().cloned().collect::<BTreeSet<_>>(), "{what}: file set");
    for k in &fk {
        assert_eq!(out.files[k], b.files[k]);
    }
    let xk: BTreeSet<_> = b.xorbs.keys().filter(|k| !a.xorbs.contains_key(k)).cloned().collect();
    assert_eq!(xk, out.xorbs.keys().cloned().collect::<BTreeSet<_>>(), "{what}: xorb set");
    for k in &xk {
        assert_eq!(out.xorbs[k], b.xorbs[k]);
    }
}

#[test]
fn fuzz_pairs() {
    let n: u64 = std::env::var("HUNT_N").ok().and_then(|s| s.parse().ok()).unwrap_or(300);
    for seed in 0..n {
        let mut rng = StdRng::seed_from_u64(seed);
        let nf = rng.gen_range(1..14);
        let nx = rng.gen_range(1..10);
        let nc = rng.gen_range(1..30);
        let pools = make_pools(&mut rng, nf, nx, nc);
        let s1 = gen_shard(&mut rng, &pools, 10, 8);
        let s2 = if rng.gen_bool(0.1) { s1.clone() } else { gen_shard(&mut rng, &pools, 10, 8) };
        let b1 = to_bytes(&mut rng, &s1);
        let b2 = to_bytes(&mut rng, &s2);
        let p1 = parse(&b1);
        let p2 = parse(&b2);
        let mut r1 = Cursor::new(&b1);
        let mut r2 = Cursor::new(&b2);
        let i1 = MDBShardInfo::load_from_reader(&mut r1).unwrap();
        let i2 = MDBShardInfo::load_from_reader(&mut r2).unwrap();

        let what = format!("seed {seed} union");
        let mut out = Vec::new();
        let oi = shard_set_union(&i1, &mut r1, &i2, &mut r2, &mut out).unwrap();
        assert_eq!(oi, MDBShardInfo::load_from_reader(&mut Cursor::new(&out)).unwrap(), "{what}");
        let po = check_shard(&out, &what);
        expect_union(&p1, &p2, &po, &what);

        let what = format!("seed {seed} diff");
        let mut out = Vec::new();
        let oi = shard_set_difference(&i1, &mut r1, &i2, &mut r2, &mut out).unwrap();
        assert_eq!(oi, MDBShardInfo::load_from_reader(&mut Cursor::new(&out)).unwrap(), "{what}");
        let po = check_shard(&out, &what);
        expect_diff(&p1, &p2, &po, &what);

        // in-memory
        let what = format!("seed {seed} mem union");
        let mu = s1.union(&s2).unwrap();
        let mut mb = Vec::new();
        MDBShardInfo::serialize_from(&mut mb, &mu).unwrap();
        assert_eq!(mu.shard_file_size(), mb.len() as u64, "{what}: size");
        let pm = check_shard(&mb, &what);
        expect_union(&p1, &p2, &pm, &what);
        for x in pm.xorbs.values() {
            for ch in &x.chunks {
                let (n, e) = mu.chunk_hash_dedup_query(&[ch.chunk_hash]).expect("mem union chunk");
                assert_eq!(n, 1);
                assert!(pm.xorbs.contains_key(&e.cas_hash), "{what}: lookup points to xorb in shard");
            }
        }
        let what = format!("seed {seed} mem diff");
        let md = s1.difference(&s2).unwrap();
        let mut mb = Vec::new();
        MDBShardInfo::serialize_from(&mut mb, &md).unwrap();
        assert_eq!(md.shard_file_size(), mb.len() as u64, "{what}: size");
        let pm = check_shard(&mb, &what);
        expect_diff(&p1, &p2, &pm, &what);
        for (_, (x, _)) in md.chunk_hash_lookup.iter() {
            assert!(pm.xorbs.contains_key(&x.metadata.cas_hash), "{what}: dangling chunk lookup");
        }
    }
}

#[test]
fn fuzz_consolidate() {
    let n: u64 = std::env::var("HUNT_N").ok().and_then(|s| s.parse().ok()).unwrap_or(150);
    for seed in 0..n {
        let mut rng = StdRng::seed_from_u64(seed + 10_000);
        let nf = rng.gen_range(1..14);
        let nx = rng.gen_range(1..10);
        let nc = rng.gen_range(1..30);
        let pools = make_pools(&mut rng, nf, nx, nc);
        let dir = TempDir::new("hunt_c10").unwrap();
        let k = rng.gen_range(1..8);
        let mut before: BTreeMap<MerkleHash, Parsed> = BTreeMap::new();
        let mut sizes = Vec::new();
        for _ in 0..k {
            let s = if rng.gen_bool(0.1) { MDBInMemoryShard::default() } else { gen_shard(&mut rng, &pools, 6, 5) };
            let b = to_bytes(&mut rng, &s);
            let h = compute_data_hash(&b);
            std::fs::File::create(dir.path().join(format!("{}.mdb", h.hex())))
                .unwrap()
                .write_all(&b)
                .unwrap();
            sizes.push(b.len() as u64);
            before.insert(h, parse(&b));
        }
        let total: u64 = sizes.iter().sum();
        let thr = match rng.gen_range(0..6) {
            0 => 0,
            1 => u64::MAX,
            2 => sizes[0],
            3 => sizes[0] + sizes[sizes.len() - 1],
            4 => total,
            _ => rng.gen_range(0..=total + 10),
        };
        let what = format!("cseed {seed} thr {thr}");
        let ret = consolidate_shards_in_directory(dir.path(), thr).unwrap();

        // returned exist and hash-named
        let mut after: BTreeMap<MerkleHash, Parsed> = BTreeMap::new();
        for s in &ret {
            assert!(s.path.exists(), "{what}: returned exists");
            let data = std::fs::read(&s.path).unwrap();
            assert_eq!(compute_data_hash(&data), s.shard_hash, "{what}");
            assert_eq!(parse_shard_filename(&s.path), Some(s.shard_hash), "{what}");
            assert_eq!(s.shard, MDBShardInfo::load_from_reader(&mut Cursor::new(&data)).unwrap(), "{what}");
            s.verify_shard_integrity();
            let p = if before.contains_key(&s.shard_hash) { parse(&data) } else { check_shard(&data, &what) };
            after.insert(s.shard_hash, p);
        }
        // dir listing == returned set
        let listing: BTreeSet<MerkleHash> = std::fs::read_dir(dir.path())
            .unwrap()
            .map(|e| parse_shard_filename(e.unwrap().path()).expect("stray file"))
            .collect();
        assert_eq!(listing, after.keys().cloned().collect::<BTreeSet<_>>(), "{what}: dir == returned");

        // records preserved
        for (bh, bp) in &before {
            for (fh, f) in &bp.files {
                let cands: Vec<_> = after.values().filter_map(|p| p.files.get(fh)).collect();
                assert!(!cands.is_empty(), "{what}: file {fh:?} of {bh:?} lost");
                // flags at least as rich somewhere
                assert!(
                    cands
                        .iter()
                        .any(|c| c.metadata.file_flags & f.metadata.file_flags == f.metadata.file_flags),
                    "{what}: richer variant lost"
                );
            }
            for (xh, x) in &bp.xorbs {
                assert!(after.values().any(|p| p.xorbs.get(xh) == Some(x)), "{what}: xorb lost");
            }
        }
        // nothing invented
        for ap in after.values() {
            for fh in ap.files.keys() {
                assert!(before.values().any(|p| p.files.contains_key(fh)), "{what}: invented file");
            }
            for xh in ap.xorbs.keys() {
                assert!(before.values().any(|p| p.xorbs.contains_key(xh)), "{what}: invented xorb");
            }
        }
    }
}

#[test]
fn dbg_seed() {
    let seed: u64 = std::env::var("HUNT_SEED").unwrap().parse().unwrap();
    let mut rng = StdRng::seed_from_u64(seed);
    let nf = rng.gen_range(1..14);
    let nx = rng.gen_range(1..10);
    let nc = rng.gen_range(1..30);
    let pools = make_pools(&mut rng, nf, nx, nc);
    let s1 = gen_shard(&mut rng, &pools, 10, 8);
    let s2 = if rng.gen_bool(0.1) { s1.clone() } else { gen_shard(&mut rng, &pools, 10, 8) };
    let b1 = to_bytes(&mut rng, &s1);
    let b2 = to_bytes(&mut rng, &s2);
    let mut r1 = Cursor::new(&b1);
    let mut r2 = Cursor::new(&b2);
    let i1 = MDBShardInfo::load_from_reader(&mut r1).unwrap();
    let i2 = MDBShardInfo::load_from_reader(&mut r2).unwrap();
    let mut out = Vec::new();
    let oi = shard_set_union(&i1, &mut r1, &i2, &mut r2, &mut out).unwrap();
    let th = oi.read_all_truncated_hashes(&mut Cursor::new(&out)).unwrap();
    for t in &th { println!("{:016x} {:?}", t.0, t.1); }
    let p = parse(&out);
    for x in p.xorbs.values() { println!("xorb {:?} n={}", x.metadata.cas_hash, x.chunks.len()); for c in &x.chunks { println!("   {:?}", c.chunk_hash);} }
}

#[test]
fn fuzz_big() {
    for seed in 0..6u64 {
        let mut rng = StdRng::seed_from_u64(seed + 777);
        let nf = rng.gen_range(300..3000);
        let nx = rng.gen_range(300..1500);
        let nc = rng.gen_range(1000..6000);
        let pools = make_pools(&mut rng, nf, nx, nc);
        let s1 = gen_shard(&mut rng, &pools, nf, nx);
        let s2 = gen_shard(&mut rng, &pools, nf, nx);
        let b1 = to_bytes(&mut rng, &s1);
        let b2 = to_bytes(&mut rng, &s2);
        let p1 = parse(&b1);
        let p2 = parse(&b2);
        let mut r1 = Cursor::new(&b1);
        let mut r2 = Cursor::new(&b2);
        let i1 = MDBShardInfo::load_from_reader(&mut r1).unwrap();
        let i2 = MDBShardInfo::load_from_reader(&mut r2).unwrap();
        let what = format!("big seed {seed} union");
        let mut out = Vec::new();
        shard_set_union(&i1, &mut r1, &i2, &mut r2, &mut out).unwrap();
        let po = check_shard(&out, &what);
        expect_union(&p1, &p2, &po, &what);
        let mut out = Vec::new();
        shard_set_difference(&i1, &mut r1, &i2, &mut r2, &mut out).unwrap();
        let po = check_shard(&out, &what);
        expect_diff(&p1, &p2, &po, &what);
    }
}

#[test]
fn fuzz_consolidate_rounds() {
    let n: u64 = std::env::var("HUNT_N").ok().and_then(|s| s.parse().ok()).unwrap_or(150);
    for seed in 0..n {
        let mut rng = StdRng::seed_from_u64(seed + 50_000);
        let nf = rng.gen_range(1..14);
        let nx = rng.gen_range(1..10);
        let nc = rng.gen_range(1..30);
        let pools = make_pools(&mut rng, nf, nx, nc);
        let dir = TempDir::new("hunt_c10r").unwrap();
        let mut all_records: Vec<Parsed> = Vec::new();
        let mut history: Vec<Vec<u8>> = Vec::new();
        for round in 0..4 {
            let k = rng.gen_range(0..5);
            for _ in 0..k {
                let b = if !history.is_empty() && rng.gen_bool(0.3) {
                    history[rng.gen_range(0..history.len())].clone()
                } else {
                    let s = gen_shard(&mut rng, &pools, 6, 5);
                    to_bytes(&mut rng, &s)
                };
                let h = compute_data_hash(&b);
                std::fs::File::create(dir.path().join(format!("{}.mdb", h.hex()))).unwrap().write_all(&b).unwrap();
                all_records.push(parse(&b));
                history.push(b);
            }
            let cur: Vec<_> = std::fs::read_dir(dir.path()).unwrap().map(|e| e.unwrap().path()).collect();
            let total: u64 = cur.iter().map(|p| std::fs::metadata(p).unwrap().len()).sum();
            let thr = match rng.gen_range(0..4) { 0 => u64::MAX, 1 => total, 2 => total / 2, _ => rng.gen_range(0..=total + 10) };
            let what = format!("rseed {seed} round {round} thr {thr}");
            let ret = consolidate_shards_in_directory(dir.path(), thr).unwrap();
            let mut after: BTreeMap<MerkleHash, Parsed> = BTreeMap::new();
            for s in &ret {
                assert!(s.path.exists(), "{what}: returned exists");
                let data = std::fs::read(&s.path).unwrap();
                assert_eq!(compute_data_hash(&data), s.shard_hash, "{what}");
                assert_eq!(parse_shard_filename(&s.path), Some(s.shard_hash), "{what}");
                assert_eq!(s.shard, MDBShardInfo::load_from_reader(&mut Cursor::new(&data)).unwrap(), "{what}");
                after.insert(s.shard_hash, parse(&data));
                history.push(data);
            }
            let listing: BTreeSet<MerkleHash> = std::fs::read_dir(dir.path()).unwrap().map(|e| parse_shard_filename(e.unwrap().path()).expect("stray file")).collect();
            assert_eq!(listing, after.keys().cloned().collect::<BTreeSet<_>>(), "{what}: dir == returned");
            for bp in &all_records {
                for fh in bp.files.keys() {
                    assert!(after.values().any(|p| p.files.contains_key(fh)), "{what}: file lost");
                }
                for (xh, x) in &bp.xorbs {
                    assert!(after.values().any(|p| p.xorbs.get(xh) == Some(x)), "{what}: xorb lost");
                }
            }
        }
    }
}

#[test]
fn file_ops_inplace() {
    let mut rng = StdRng::seed_from_u64(1);
    let pools = make_pools(&mut rng, 10, 6, 20);
    let s1 = gen_shard(&mut rng, &pools, 8, 5);
    let s2 = gen_shard(&mut rng, &pools, 8, 5);
    let dir = TempDir::new("hunt_c10f").unwrap();
    let f1 = dir.path().join("a.mdb");
    let f2 = dir.path().join("b.mdb");
    let mut b1 = Vec::new(); MDBShardInfo::serialize_from(&mut b1, &s1).unwrap();
    let mut b2 = Vec::new(); MDBShardInfo::serialize_from(&mut b2, &s2).unwrap();
    std::fs::write(&f1, &b1).unwrap();
    std::fs::write(&f2, &b2).unwrap();
    let (h, _) = shard_file_union(&f1, &f2, &f1).unwrap();
    let d = std::fs::read(&f1).unwrap();
    assert_eq!(compute_data_hash(&d), h);
    let po = check_shard(&d, "inplace");
    expect_union(&parse(&b1), &parse(&b2), &po, "inplace");
    let (h, _) = shard_file_difference(&f2, &f2, &f2).unwrap();
    let d = std::fs::read(&f2).unwrap();
    assert_eq!(compute_data_hash(&d), h);
    let po = check_shard(&d, "self diff");
    assert!(po.files.is_empty() && po.xorbs.is_empty());
    assert_eq!(std::fs::read_dir(dir.path()).unwrap().count(), 2);
}

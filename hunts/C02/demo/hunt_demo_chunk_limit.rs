// C02 demo: with a chunk-size configuration above 128 KiB the session succeeds but stores xorbs
// that do not decode and that the receiver-side check (CasObject::validate_cas_object) rejects.
//
// Copy to data/tests/ and run:
//   cargo test --offline -p data --test hunt_demo_chunk_limit -- --nocapture
//
// The writer (deduplication::Chunker + cas_object::serialize_chunk) takes its maximum chunk size from
// the configurable TARGET_CHUNK_SIZE * MAXIMUM_CHUNK_MULTIPLIER, while every reader
// (cas_object::cas_chunk_format::CASChunkHeader::validate) hard-codes
// merkledb::constants::MAXIMUM_CHUNK_SIZE = 128 KiB.  Nothing on the write path checks the limit.
use std::io::Cursor;

use cas_object::CasObject;
use data::configurations::TranslatorConfig;
use data::FileUploadSession;
use deduplication::constants::TARGET_CHUNK_SIZE;
use merklehash::MerkleHash;
use rand::rngs::StdRng;
use rand::{RngCore, SeedableRng};
use tempfile::TempDir;
use utils::test_set_globals;
use xet_threadpool::ThreadPool;

test_set_globals! {
    // one step above the default of 64 KiB: chunks may now be up to 256 KiB long
    TARGET_CHUNK_SIZE = 128 * 1024;
}

#[tokio::test(flavor = "multi_thread", worker_threads = 2)]
async fn stored_xorbs_decode_and_validate() {
    let tmp = TempDir::new().unwrap();
    let cas_dir = tmp.path().join("cas");

    // 2 MiB of seeded random bytes followed by 600 KiB of zeros (the zeros give maximum-size chunks).
    let mut data = vec![0u8; 2 * 1024 * 1024];
    StdRng::seed_from_u64(1).fill_bytes(&mut data);
    data.extend(std::iter::repeat(0u8).take(600 * 1024));

    let config = TranslatorConfig::local_config(&cas_dir).unwrap();
    let session = FileUploadSession::new(config, ThreadPool::from_current_runtime(), None).await.unwrap();
    let mut cleaner = session.start_clean("f".to_owned());
    cleaner.add_data(&data).await.unwrap();
    let (pf, _) = cleaner.finish().await.unwrap();
    assert_eq!(pf.filesize() as usize, data.len());
    // The session reports success.
    session.finalize().await.unwrap();

    // Every stored xorb must decode, and the receiver-side validation must accept it.
    let xorb_dir = cas_dir.join("xet/xorbs/xorbs");
    let mut n = 0;
    let mut bad = Vec::new();
    for e in std::fs::read_dir(&xorb_dir).unwrap() {
        let e = e.unwrap();
        let name = e.file_name().into_string().unwrap();
        let hash = MerkleHash::from_hex(name.strip_prefix("default.").unwrap()).unwrap();
        let bytes = std::fs::read(e.path()).unwrap();
        n += 1;

        let validated = CasObject::validate_cas_object(&mut Cursor::new(&bytes), &hash);
        let mut rd = Cursor::new(&bytes);
        let cas = CasObject::deserialize(&mut rd).unwrap();
        let decoded = cas.get_all_bytes(&mut rd);
        eprintln!(
            "xorb {name}: {} chunks, validate_cas_object -> {:?}, get_all_bytes -> {:?}",
            cas.info.num_chunks,
            validated.as_ref().map(|o| o.is_some()),
            decoded.as_ref().map(|d| d.len())
        );
        if !matches!(validated, Ok(Some(_))) || decoded.is_err() {
            bad.push(name);
        }
    }
    assert!(n > 0);
    assert!(bad.is_empty(), "{} of {n} stored xorbs do not decode / are rejected by validate_cas_object: {bad:?}", bad.len());
}

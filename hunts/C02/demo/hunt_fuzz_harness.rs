// Exploration harness (passes; NOT a failing demo): random multi-session uploads + an independent validator of the
// local store (xorbs decode, validate_cas_object accepts, name == recomputed hash; every file record: xorbs exist,
// ranges in range, lengths, verification hashes, file hash, sha256, bytes).  Copy to data/tests/hunt_fuzz.rs; run e.g.
//   HF_XET_TARGET_CHUNK_SIZE=128 HF_XET_MAX_XORB_BYTES=2048 HF_XET_MAX_XORB_CHUNKS=8 HUNT_N=300 cargo test --offline -p data --test hunt_fuzz fuzz
// add --features verif (plus HF_XET_MDB_SHARD_GLOBAL_DEDUP_CHUNK_MODULUS=2, optionally HUNT_KEYED=1) for global dedup.
use std::collections::HashMap;
use std::io::Cursor;
use std::path::Path;
use std::sync::Arc;

use cas_object::CasObject;
use data::configurations::TranslatorConfig;
use data::FileUploadSession;
use mdb_shard::chunk_verification::range_hash_from_chunks;
use mdb_shard::MDBShardFile;
use merkledb::aggregate_hashes::{cas_node_hash, file_node_hash};
use merklehash::{compute_data_hash, MerkleHash};
use rand::rngs::StdRng;
use rand::{Rng, RngCore, SeedableRng};
use sha2::{Digest, Sha256};
use tempfile::TempDir;
use xet_threadpool::ThreadPool;

pub struct XorbInfo {
    pub chunks: Vec<(MerkleHash, usize)>,
    pub data: Vec<u8>,
    pub ends: Vec<usize>,
}

pub fn validate_store(cas_dir: &Path, originals: &HashMap<MerkleHash, Vec<u8>>, salt: &[u8; 32], returned: &[mdb_shard::file_structs::MDBFileInfo], session_hashes: &[MerkleHash]) -> Vec<String> {
    let mut errs = Vec::new();
    let xorb_dir = cas_dir.join("xet/xorbs/xorbs");
    let shard_dir = cas_dir.join("xet/xorbs/shards");

    let mut xorbs: HashMap<MerkleHash, XorbInfo> = HashMap::new();
    if xorb_dir.exists() {
        for e in std::fs::read_dir(&xorb_dir).unwrap() {
            let e = e.unwrap();
            let name = e.file_name().into_string().unwrap();
            let Some(hex) = name.strip_prefix("default.") else {
                errs.push(format!("odd xorb file name {name}"));
                continue;
            };
            let hash = MerkleHash::from_hex(hex).unwrap();
            let bytes = std::fs::read(e.path()).unwrap();
            match CasObject::validate_cas_object(&mut Cursor::new(&bytes), &hash) {
                Ok(Some(_)) => {},
                other => errs.push(format!("xorb {hex}: validate_cas_object -> {:?}", other.map(|o| o.is_some()))),
            }
            let mut rd = Cursor::new(&bytes);
            let cas = match CasObject::deserialize(&mut rd) {
                Ok(c) => c,
                Err(e) => {
                    errs.push(format!("xorb {hex}: does not decode: {e:?}"));
                    continue;
                },
            };
            let all = match cas.get_all_bytes(&mut rd) {
                Ok(c) => c,
                Err(e) => {
                    errs.push(format!("xorb {hex}: get_all_bytes: {e:?}"));
                    continue;
                },
            };
            let mut chunks = Vec::new();
            let mut prev = 0usize;
            for (i, &off) in cas.info.unpacked_chunk_offsets.iter().enumerate() {
                let off = off as usize;
                let h = compute_data_hash(&all[prev..off]);
                if h != cas.info.chunk_hashes[i] {
                    errs.push(format!("xorb {hex}: chunk {i} hash mismatch"));
                }
                chunks.push((h, off - prev));
                prev = off;
            }
            if prev != all.len() {
                errs.push(format!("xorb {hex}: trailing bytes"));
            }
            let rec = cas_node_hash(&chunks);
            if rec != hash {
                errs.push(format!("xorb {hex}: name != recomputed hash {rec:?}"));
            }
            let ends = cas.info.unpacked_chunk_offsets.iter().map(|&o| o as usize).collect();
            xorbs.insert(hash, XorbInfo { chunks, data: all, ends });
        }
    }

    let mut seen_files: HashMap<MerkleHash, usize> = HashMap::new();
    if shard_dir.exists() {
        for s in MDBShardFile::load_all_valid(&shard_dir).unwrap() {
            // cas infos
            let cas_infos = s.shard.read_all_cas_blocks_full(&mut s.get_reader().unwrap()).unwrap();
            for ci in cas_infos {
                let h = ci.metadata.cas_hash;
                match xorbs.get(&h) {
                    None => errs.push(format!("shard {:?}: cas info {h:?} has no stored xorb", s.shard_hash)),
                    Some(x) => {
                        let l: Vec<_> =
                            ci.chunks.iter().map(|c| (c.chunk_hash, c.unpacked_segment_bytes as usize)).collect();
                        if l != x.chunks {
                            errs.push(format!("shard {:?}: cas info {h:?} chunk list differs from xorb", s.shard_hash));
                        }
                    },
                }
            }
            for fi in s.read_all_file_info_sections().unwrap() {
                *seen_files.entry(fi.metadata.file_hash).or_default() += 1;
                let tag = format!("shard {:?} file {:?}", s.shard_hash, fi.metadata.file_hash);
                check_file_info(&fi, &tag, &xorbs, &xorb_dir, originals, salt, &mut errs);
            }
        }
    }
    for fi in returned {
        let tag = format!("returned file info {:?}", fi.metadata.file_hash);
        check_file_info(fi, &tag, &xorbs, &xorb_dir, originals, salt, &mut errs);
    }
    for h in session_hashes {
        if !returned.iter().any(|fi| fi.metadata.file_hash == *h) {
            errs.push(format!("file {h:?} of this session not in finalize_with_file_info list"));
        }
    }
    for (h, _) in originals.iter() {
        if !seen_files.contains_key(h) {
            errs.push(format!("file {h:?} returned by a session has no record in uploaded shards"));
        }
    }
    errs
}


#[allow(clippy::too_many_arguments)]
pub fn check_file_info(
    fi: &mdb_shard::file_structs::MDBFileInfo,
    tag: &str,
    xorbs: &HashMap<MerkleHash, XorbInfo>,
    xorb_dir: &Path,
    originals: &HashMap<MerkleHash, Vec<u8>>,
    salt: &[u8; 32],
    errs: &mut Vec<String>,
) {
    let fh = fi.metadata.file_hash;
    let mut errs_local: Vec<String> = Vec::new();
    {
        let errs = &mut errs_local;
        (|| {
                if fi.segments.len() != fi.metadata.num_entries as usize {
                    errs.push(format!("{tag}: num_entries mismatch"));
                }
                if !fi.contains_verification() || fi.verification.len() != fi.segments.len() {
                    errs.push(format!("{tag}: verification missing/mismatched"));
                    return;
                }
                let mut all_chunks: Vec<(MerkleHash, usize)> = Vec::new();
                let mut ok = true;
                for (i, seg) in fi.segments.iter().enumerate() {
                    let Some(x) = xorbs.get(&seg.cas_hash) else {
                        errs.push(format!("{tag}: segment {i} references missing xorb {:?}", seg.cas_hash));
                        ok = false;
                        return;
                    };
                    let (a, b) = (seg.chunk_index_start as usize, seg.chunk_index_end as usize);
                    if a >= b || b > x.chunks.len() {
                        errs.push(format!("{tag}: segment {i} range {a}..{b} out of range ({})", x.chunks.len()));
                        ok = false;
                        return;
                    }
                    let sum: usize = x.chunks[a..b].iter().map(|c| c.1).sum();
                    if sum != seg.unpacked_segment_bytes as usize {
                        errs.push(format!(
                            "{tag}: segment {i} bytes {} != sum of chunk lengths {sum}",
                            seg.unpacked_segment_bytes
                        ));
                    }
                    let hs: Vec<_> = x.chunks[a..b].iter().map(|c| c.0).collect();
                    if range_hash_from_chunks(&hs) != fi.verification[i].range_hash {
                        errs.push(format!("{tag}: segment {i} verification hash mismatch"));
                    }
                    all_chunks.extend_from_slice(&x.chunks[a..b]);
                }
                if !ok {
                    return;
                }
                let rec = file_node_hash(&all_chunks, salt).unwrap();
                if rec != fh {
                    errs.push(format!("{tag}: file hash != recomputed {rec:?}"));
                }
                match originals.get(&fh) {
                    None => errs.push(format!("{tag}: unknown file (no original with that hash)")),
                    Some(orig) => {
                        let total: usize = all_chunks.iter().map(|c| c.1).sum();
                        if total != orig.len() {
                            errs.push(format!("{tag}: size {total} != original {}", orig.len()));
                        }
                        // Data check
                        let mut data = Vec::new();
                        for seg in fi.segments.iter() {
                            let x = &xorbs[&seg.cas_hash];
                            let a = if seg.chunk_index_start == 0 { 0 } else { x.ends[seg.chunk_index_start as usize - 1] };
                            let b = x.ends[seg.chunk_index_end as usize - 1];
                            data.extend_from_slice(&x.data[a..b]);
                        }
                        if &data != orig {
                            errs.push(format!("{tag}: reconstructed bytes differ from original"));
                        }
                        let sha = format!("{:x}", Sha256::digest(orig));
                        match &fi.metadata_ext {
                            None => errs.push(format!("{tag}: no sha256 recorded")),
                            Some(m) => {
                                if m.sha256.hex() != sha {
                                    errs.push(format!("{tag}: sha256 {} != {sha}", m.sha256.hex()));
                                }
                            },
                        }
                    },
                }

        })();
    }
    errs.extend(errs_local);
}

fn env_usize(name: &str, default: usize) -> usize {
    std::env::var(name).ok().and_then(|s| s.parse().ok()).unwrap_or(default)
}

fn gen_file(rng: &mut StdRng, pieces: &[Vec<u8>]) -> Vec<u8> {
    let mut out = Vec::new();
    let n = rng.gen_range(0..=env_usize("HUNT_MAX_PIECES", 6));
    for _ in 0..n {
        match rng.gen_range(0..10) {
            0 => {
                // fresh random bytes
                let l = rng.gen_range(1..2000);
                let mut v = vec![0u8; l];
                rng.fill_bytes(&mut v);
                out.extend(v);
            },
            1 => {
                // constant run
                let l = rng.gen_range(1..3000);
                out.extend(std::iter::repeat(rng.gen::<u8>() % 3).take(l));
            },
            _ => {
                let p = &pieces[rng.gen_range(0..pieces.len())];
                out.extend_from_slice(p);
            },
        }
    }
    out
}

async fn run_one(seed: u64) -> Vec<String> {
    let mut rng = StdRng::seed_from_u64(seed);
    let tmp = TempDir::new().unwrap();
    let cas_dir = tmp.path().join("cas");

    let n_pieces = rng.gen_range(1..8);
    let pieces: Vec<Vec<u8>> = (0..n_pieces)
        .map(|_| {
            let l = rng.gen_range(1..env_usize("HUNT_PIECE_MAX", 4000));
            let mut v = vec![0u8; l];
            rng.fill_bytes(&mut v);
            v
        })
        .collect();

    let mut originals: HashMap<MerkleHash, Vec<u8>> = HashMap::new();
    let n_sessions = rng.gen_range(1..=env_usize("HUNT_MAX_SESSIONS", 3));
    let mut salt = [0u8; 32];
    for s in 0..n_sessions {
        let config = TranslatorConfig::local_config(&cas_dir).unwrap();
        salt = config.shard_config.repo_salt;
        #[cfg(not(feature = "verif"))]
        let session = FileUploadSession::new(config, ThreadPool::from_current_runtime(), None).await.unwrap();
        #[cfg(feature = "verif")]
        let session = {
            // fresh shard cache per session: only global dedup can find earlier data
            let fresh = rng.gen_bool(0.7);
            let cache_dir = if fresh { tmp.path().join(format!("sc{s}")) } else { config.shard_config.cache_directory.clone() };
            let mut cfg = Arc::try_unwrap(config).unwrap();
            cfg.shard_config.cache_directory = cache_dir.clone();
            std::fs::create_dir_all(&cache_dir).unwrap();
            let cfg = Arc::new(cfg);
            let staging = tmp.path().join(format!("stg{s}"));
            std::fs::create_dir_all(&staging).unwrap();
            let client = Arc::new(wrap::Wrapped {
                inner: cas_client::LocalClient::new(cas_dir.join("xet/xorbs"), Some(staging)).unwrap(),
                cache_dir,
                lock: tokio::sync::Mutex::new(()),
            });
            FileUploadSession::new_with_client(cfg, ThreadPool::from_current_runtime(), None, client, false)
                .await
                .unwrap()
        };
        let mut session_hashes: Vec<MerkleHash> = Vec::new();
        let n_files = rng.gen_range(1..=env_usize("HUNT_MAX_FILES", 5));
        let concurrent = rng.gen_bool(0.3) && std::env::var("HUNT_NO_CONC").is_err();
        let files: Vec<Vec<u8>> = (0..n_files).map(|_| gen_file(&mut rng, &pieces)).collect();
        if concurrent {
            let mut js = tokio::task::JoinSet::new();
            for (i, f) in files.iter().enumerate() {
                let session = session.clone();
                let f = f.clone();
                let blk = rng.gen_range(1..5000);
                js.spawn(async move {
                    let mut c = session.start_clean(format!("s{s}f{i}"));
                    for part in f.chunks(blk) {
                        c.add_data(part).await.unwrap();
                    }
                    let (pf, _) = c.finish().await.unwrap();
                    (pf.hash().unwrap(), pf.filesize(), f)
                });
            }
            while let Some(r) = js.join_next().await {
                let (h, sz, f) = r.unwrap();
                assert_eq!(sz as usize, f.len());
                session_hashes.push(h);
                originals.insert(h, f);
            }
        } else {
            for (i, f) in files.iter().enumerate() {
                let mut c = session.start_clean(format!("s{s}f{i}"));
                let blk = rng.gen_range(1..5000);
                for part in f.chunks(blk) {
                    c.add_data(part).await.unwrap();
                }
                let (pf, _) = c.finish().await.unwrap();
                assert_eq!(pf.filesize() as usize, f.len());
                session_hashes.push(pf.hash().unwrap());
                originals.insert(pf.hash().unwrap(), f.clone());
            }
        }
        let (m, returned) = session.finalize_with_file_info().await.unwrap();
        if std::env::var("HUNT_VERBOSE").is_ok() { eprintln!("seed {seed} s{s}: total {} new {} dedup {} global {} defrag {}", m.total_chunks, m.new_chunks, m.deduped_chunks, m.deduped_chunks_by_global_dedup, m.defrag_prevented_dedup_chunks); }
        let errs = validate_store(&cas_dir, &originals, &salt, &returned, &session_hashes);
        if !errs.is_empty() {
            return errs.into_iter().map(|e| format!("[seed {seed} after session {s}] {e}")).collect();
        }
    }
    Vec::new()
}

#[tokio::test(flavor = "multi_thread", worker_threads = 4)]
async fn fuzz() {
    let start = env_usize("HUNT_SEED", 0) as u64;
    let n = env_usize("HUNT_N", 50) as u64;
    let mut all = Vec::new();
    for seed in start..start + n {
        let errs = run_one(seed).await;
        if !errs.is_empty() {
            for e in errs.iter().take(6) {
                eprintln!("{e}");
            }
            all.push(seed);
            if all.len() >= 3 {
                break;
            }
        }
    }
    assert!(all.is_empty(), "failing seeds: {all:?}");
    let _ = Arc::new(0);
}

#[cfg(feature = "verif")]
mod wrap {
    use std::collections::HashMap;
    use std::path::PathBuf;
    use std::sync::Arc;

    use async_trait::async_trait;
    use cas_client::*;
    use cas_types::FileRange;
    use mdb_shard::file_structs::MDBFileInfo;
    use mdb_shard::shard_file_reconstructor::FileReconstructor;
    use merklehash::MerkleHash;
    use utils::progress::ProgressUpdater;

    type Result<T> = std::result::Result<T, CasClientError>;

    /// LocalClient, but the global dedup shard lands in the cache dir atomically (as RemoteClient does).
    pub struct Wrapped {
        pub inner: LocalClient,
        pub cache_dir: PathBuf,
        pub lock: tokio::sync::Mutex<()>,
    }

    #[async_trait]
    impl UploadClient for Wrapped {
        async fn put(&self, prefix: &str, hash: &MerkleHash, data: Vec<u8>, cb: Vec<(MerkleHash, u32)>) -> Result<usize> {
            self.inner.put(prefix, hash, data, cb).await
        }
        async fn exists(&self, prefix: &str, hash: &MerkleHash) -> Result<bool> {
            self.inner.exists(prefix, hash).await
        }
    }
    #[async_trait]
    impl ReconstructionClient for Wrapped {
        async fn get_file(
            &self,
            hash: &MerkleHash,
            byte_range: Option<FileRange>,
            output_provider: &OutputProvider,
            progress_updater: Option<Arc<dyn ProgressUpdater>>,
        ) -> Result<u64> {
            self.inner.get_file(hash, byte_range, output_provider, progress_updater).await
        }
        async fn batch_get_file(&self, files: HashMap<MerkleHash, &OutputProvider>) -> Result<u64> {
            self.inner.batch_get_file(files).await
        }
    }
    #[async_trait]
    impl VerifRegistrationClient for Wrapped {
        async fn upload_shard(&self, prefix: &str, hash: &MerkleHash, force_sync: bool, shard_data: &[u8], salt: &[u8; 32]) -> Result<bool> {
            self.inner.upload_shard(prefix, hash, force_sync, shard_data, salt).await
        }
    }
    #[async_trait]
    impl FileReconstructor<CasClientError> for Wrapped {
        async fn get_file_reconstruction_info(&self, file_hash: &MerkleHash) -> Result<Option<(MDBFileInfo, Option<MerkleHash>)>> {
            self.inner.get_file_reconstruction_info(file_hash).await
        }
    }
    #[async_trait]
    impl VerifShardDedupProber for Wrapped {
        async fn query_for_global_dedup_shard(&self, prefix: &str, chunk_hash: &MerkleHash, salt: &[u8; 32]) -> Result<Option<PathBuf>> {
            let _g = self.lock.lock().await;
            let Some(p) = self.inner.query_for_global_dedup_shard(prefix, chunk_hash, salt).await? else {
                return Ok(None);
            };
            let dest = self.cache_dir.join(p.file_name().unwrap());
            if std::env::var("HUNT_KEYED").is_ok() {
                // What the real server hands out: re-keyed, no file info, optional lookup tables.
                let sf = mdb_shard::MDBShardFile::load_from_file(&p).unwrap();
                let mut key = [7u64; 4];
                key[0] = chunk_hash[0] | 1; // a different key per query, like the server
                let with_tables = chunk_hash[1] % 2 == 0;
                let out = sf
                    .export_as_keyed_shard(
                        &self.cache_dir,
                        key.into(),
                        std::time::Duration::from_secs(3600),
                        false,
                        with_tables,
                        with_tables,
                    )
                    .unwrap();
                return Ok(Some(out.path.clone()));
            }
            if !dest.exists() {
                let tmp = self.cache_dir.join(format!("tmp-{}", p.file_name().unwrap().to_string_lossy()));
                std::fs::copy(&p, &tmp)?;
                std::fs::rename(&tmp, &dest)?;
            }
            Ok(Some(dest))
        }
    }
    impl ShardClientInterface for Wrapped {}
    impl Client for Wrapped {}
}

#[tokio::test(flavor = "multi_thread", worker_threads = 4)]
async fn big_xorb() {
    if std::env::var("HUNT_BIG").is_err() {
        return;
    }
    let mut rng = StdRng::seed_from_u64(7);
    let tmp = TempDir::new().unwrap();
    let cas_dir = tmp.path().join("cas");
    let mut a = vec![0u8; env_usize("HUNT_BIG", 10_000_000)];
    if std::env::var("HUNT_ZERO").is_err() { rng.fill_bytes(&mut a); }
    let n = a.len();
    let mut b = a[n - n / 10..].to_vec();
    b.extend_from_slice(&a[..n / 10]);
    let mut c = a[n / 2..n / 2 + n / 10].to_vec();
    c.extend_from_slice(&a[n - n / 20..]);
    let mut originals = HashMap::new();
    for (s, files) in [vec![a.clone()], vec![b.clone(), c.clone()]].into_iter().enumerate() {
        let config = TranslatorConfig::local_config(&cas_dir).unwrap();
        let salt = config.shard_config.repo_salt;
        let session = FileUploadSession::new(config, ThreadPool::from_current_runtime(), None).await.unwrap();
        let mut hs = vec![];
        for f in files {
            let mut cl = session.start_clean(format!("f{s}"));
            cl.add_data(&f).await.unwrap();
            let (pf, m) = cl.finish().await.unwrap();
            eprintln!("s{s}: total {} new {} dedup {}", m.total_chunks, m.new_chunks, m.deduped_chunks);
            hs.push(pf.hash().unwrap());
            originals.insert(pf.hash().unwrap(), f);
        }
        let (_m, returned) = session.finalize_with_file_info().await.unwrap();
        let errs = validate_store(&cas_dir, &originals, &salt, &returned, &hs);
        assert!(errs.is_empty(), "{:#?}", &errs[..errs.len().min(8)]);
    }
}

// C02 demo: MAX_XORB_BYTES (settable through HF_XET_MAX_XORB_BYTES, also in release builds) below the
// maximum chunk size (128 KiB with the fixed default chunking).
//
// Copy to data/tests/ and run:
//   cargo test --offline -p data --test hunt_demo_xorb_limit_below_chunk -- --nocapture            (debug)
//   cargo test --offline --release -p data --test hunt_demo_xorb_limit_below_chunk -- --nocapture  (release)
//
// FileDeduper::process_chunks (deduplication/src/file_deduplication.rs:213) decides to "cut a xorb first"
// when new_data_size + n_bytes > MAX_XORB_BYTES, also when nothing has been collected yet.  For a chunk
// that alone exceeds the limit this
//   1. cuts an EMPTY xorb (hash 000..0, no chunks), whose CAS info UploadSessionDataManager::register_new_xorb
//      adds to the session shard although the xorb itself is (rightly) never uploaded, and
//   2. then stores the chunk anyway, so that the next cut / the aggregation builds a xorb above the limit:
//      debug builds die in debug_assert_le!(num_bytes, *MAX_XORB_BYTES) (deduplication/src/raw_xorb_data.rs:38,
//      reached from SingleFileCleaner::finish), release builds finish "successfully" and upload a shard that
//      describes a xorb "000..0" (0 chunks) that does not exist in the store.
use data::configurations::TranslatorConfig;
use data::FileUploadSession;
use deduplication::constants::MAX_XORB_BYTES;
use mdb_shard::MDBShardFile;
use tempfile::TempDir;
use utils::test_set_globals;
use xet_threadpool::ThreadPool;

test_set_globals! {
    MAX_XORB_BYTES = 100_000;
}

#[tokio::test(flavor = "multi_thread", worker_threads = 2)]
async fn every_cas_entry_of_the_uploaded_shards_is_a_stored_xorb() {
    let tmp = TempDir::new().unwrap();
    let cas_dir = tmp.path().join("cas");

    // 300 KiB of zeros: the chunker emits maximum size chunks (128 KiB), the first one while nothing is collected.
    let data = vec![0u8; 300 * 1024];

    let config = TranslatorConfig::local_config(&cas_dir).unwrap();
    let session = FileUploadSession::new(config, ThreadPool::from_current_runtime(), None).await.unwrap();
    let mut cleaner = session.start_clean("f".to_owned());
    cleaner.add_data(&data).await.unwrap();
    let (pf, _) = cleaner.finish().await.unwrap(); // debug builds: panics in RawXorbData::from_chunks
    assert_eq!(pf.filesize() as usize, data.len());
    session.finalize().await.unwrap();

    let xorb_dir = cas_dir.join("xet/xorbs/xorbs");
    let shard_dir = cas_dir.join("xet/xorbs/shards");
    let mut missing = Vec::new();
    for s in MDBShardFile::load_all_valid(&shard_dir).unwrap() {
        for ci in s.shard.read_all_cas_blocks_full(&mut s.get_reader().unwrap()).unwrap() {
            let h = ci.metadata.cas_hash;
            eprintln!("shard {:?}: CAS entry {h:?}, {} chunks, {} bytes", s.shard_hash, ci.chunks.len(), ci.metadata.num_bytes_in_cas);
            if !xorb_dir.join(format!("default.{h:?}")).exists() {
                missing.push(h);
            }
        }
    }
    assert!(missing.is_empty(), "uploaded shard describes xorbs that are not in the store: {missing:?}");
}

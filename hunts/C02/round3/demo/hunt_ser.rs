use std::io::Cursor;

use cas_object::{CasObject, CompressionScheme};
use merkledb::aggregate_hashes::cas_node_hash;
use merklehash::compute_data_hash;
use rand::prelude::*;

#[test]
fn serialize_validate_roundtrip() {
    let mut rng = StdRng::seed_from_u64(7);
    for iter in 0..400 {
        let n_chunks = rng.gen_range(1..12);
        let mut data = Vec::new();
        let mut cb = Vec::new();
        let mut hl = Vec::new();
        for _ in 0..n_chunks {
            let len = match rng.gen_range(0..6) {
                0 => rng.gen_range(1..8),
                1 => 128 * 1024,
                2 => 128 * 1024 - rng.gen_range(0..5),
                _ => rng.gen_range(1..70000),
            };
            let mut c = vec![0u8; len];
            match rng.gen_range(0..5) {
                0 => rng.fill_bytes(&mut c),
                1 => c.fill(rng.gen()),
                2 => {
                    // float-like: 4 byte groups with constant high bytes
                    for (i, b) in c.iter_mut().enumerate() {
                        *b = if i % 4 == 3 { 0x3f } else if i % 4 == 2 { rng.gen_range(0..4) } else { rng.gen() };
                    }
                },
                3 => {
                    for (i, b) in c.iter_mut().enumerate() {
                        *b = (i % 7) as u8;
                    }
                },
                _ => {
                    let k = rng.gen_range(0..len);
                    rng.fill_bytes(&mut c[..k]);
                },
            }
            let h = compute_data_hash(&c);
            data.extend_from_slice(&c);
            cb.push((h, data.len() as u32));
            hl.push((h, len));
        }
        let hash = cas_node_hash(&hl);
        for scheme in [None, Some(CompressionScheme::None), Some(CompressionScheme::LZ4), Some(CompressionScheme::ByteGrouping4LZ4)] {
            let mut buf = Cursor::new(Vec::new());
            CasObject::serialize(&mut buf, &hash, &data, &cb, scheme).unwrap();
            let bytes = buf.into_inner();
            let sv = futures::executor::block_on(cas_object::validate_cas_object_from_async_read(
                &mut futures::io::Cursor::new(bytes.clone()),
                &hash,
            ))
            .unwrap();
            assert!(sv.is_some(), "iter {iter} scheme {scheme:?}: rejected by the stream validator");
            let mut r = Cursor::new(bytes);
            let v = CasObject::validate_cas_object(&mut r, &hash).unwrap();
            assert!(v.is_some(), "iter {iter} scheme {scheme:?}: rejected");
            let cas = v.unwrap();
            let all = cas.get_all_bytes(&mut r).unwrap();
            assert!(all == data, "iter {iter} scheme {scheme:?}: data differs");
        }
    }
}

// Randomised sessions + an independent validator of everything the local store holds afterwards.
use std::collections::HashMap;
use std::fs::File;
use std::io::BufReader;
use std::path::Path;

use cas_object::CasObject;
use data::configurations::TranslatorConfig;
use data::FileUploadSession;
use mdb_shard::chunk_verification::range_hash_from_chunks;
use mdb_shard::file_structs::MDBFileInfo;
use mdb_shard::MDBShardFile;
use merkledb::aggregate_hashes::{cas_node_hash, file_node_hash};
use merklehash::{compute_data_hash, MerkleHash};
use rand::prelude::*;
use sha2::{Digest, Sha256};
use tempfile::TempDir;
use tokio::task::JoinSet;
use xet_threadpool::ThreadPool;

pub struct Xorb {
    pub chunks: Vec<(MerkleHash, Vec<u8>)>,
}

pub fn load_xorbs(dir: &Path) -> Result<HashMap<MerkleHash, Xorb>, String> {
    let mut ret = HashMap::new();
    for e in std::fs::read_dir(dir).unwrap() {
        let e = e.unwrap();
        let name = e.file_name().into_string().unwrap();
        let Some(hex) = name.strip_prefix("default.") else {
            return Err(format!("odd file in xorb dir: {name}"));
        };
        let hash = MerkleHash::from_hex(hex).map_err(|e| format!("bad xorb name {name}: {e:?}"))?;
        let mut r = BufReader::new(File::open(e.path()).unwrap());
        let cas = CasObject::validate_cas_object(&mut r, &hash).map_err(|e| format!("xorb {name}: validate error {e:?}"))?;
        let Some(cas) = cas else {
            return Err(format!("xorb {name}: rejected by validate_cas_object"));
        };
        let mut chunks = Vec::new();
        for i in 0..cas.info.num_chunks {
            let b = cas
                .get_bytes_by_chunk_range(&mut r, i, i + 1)
                .map_err(|e| format!("xorb {name}: chunk {i} does not decode: {e:?}"))?;
            let h = compute_data_hash(&b);
            if h != cas.info.chunk_hashes[i as usize] {
                return Err(format!("xorb {name}: chunk {i} hash differs"));
            }
            chunks.push((h, b));
        }
        let hl: Vec<_> = chunks.iter().map(|(h, b)| (*h, b.len())).collect();
        if cas_node_hash(&hl) != hash {
            return Err(format!("xorb {name}: name differs from recomputed hash"));
        }
        ret.insert(hash, Xorb { chunks });
    }
    Ok(ret)
}

pub fn check_file_info(
    fi: &MDBFileInfo,
    xorbs: &HashMap<MerkleHash, Xorb>,
    originals: &HashMap<MerkleHash, Vec<u8>>,
    wher: &str,
) -> Result<(), String> {
    let fh = fi.metadata.file_hash;
    let pre = format!("{wher}: file {fh:?}");
    if fi.metadata.num_entries as usize != fi.segments.len() {
        return Err(format!("{pre}: num_entries mismatch"));
    }
    if !fi.contains_verification() || fi.verification.len() != fi.segments.len() {
        return Err(format!("{pre}: verification entries missing / wrong count"));
    }
    let Some(ext) = fi.metadata_ext.as_ref() else {
        return Err(format!("{pre}: no metadata ext"));
    };
    let mut all_chunks: Vec<(MerkleHash, usize)> = Vec::new();
    let mut bytes = Vec::new();
    for (si, seg) in fi.segments.iter().enumerate() {
        let Some(x) = xorbs.get(&seg.cas_hash) else {
            return Err(format!("{pre}: segment {si} references missing xorb {:?}", seg.cas_hash));
        };
        let (s, e) = (seg.chunk_index_start as usize, seg.chunk_index_end as usize);
        if s >= e || e > x.chunks.len() {
            return Err(format!("{pre}: segment {si} range {s}..{e} out of range (xorb has {})", x.chunks.len()));
        }
        let mut n = 0;
        let mut hs = Vec::new();
        for (h, b) in &x.chunks[s..e] {
            n += b.len();
            hs.push(*h);
            all_chunks.push((*h, b.len()));
            bytes.extend_from_slice(b);
        }
        if n != seg.unpacked_segment_bytes as usize {
            return Err(format!("{pre}: segment {si} bytes {} != sum of chunks {n}", seg.unpacked_segment_bytes));
        }
        if fi.verification[si].range_hash != range_hash_from_chunks(&hs) {
            return Err(format!("{pre}: segment {si} verification hash differs"));
        }
    }
    let recomputed = file_node_hash(&all_chunks, &[0u8; 32]).unwrap();
    if recomputed != fh {
        return Err(format!("{pre}: file hash differs from recomputed {recomputed:?}"));
    }
    let sha = format!("{:x}", Sha256::digest(&bytes));
    if ext.sha256.hex() != sha {
        return Err(format!("{pre}: sha256 {} differs from recomputed {sha}", ext.sha256.hex()));
    }
    match originals.get(&fh) {
        Some(o) => {
            if *o != bytes {
                return Err(format!("{pre}: reconstructed bytes differ from the original"));
            }
        },
        None => return Err(format!("{pre}: record for a file that was never uploaded")),
    }
    Ok(())
}

pub fn validate_store(cas_dir: &Path, originals: &HashMap<MerkleHash, Vec<u8>>) -> Result<(), String> {
    let xorbs = load_xorbs(&cas_dir.join("xet/xorbs/xorbs"))?;
    let shards = MDBShardFile::load_all_valid(cas_dir.join("xet/xorbs/shards")).map_err(|e| format!("{e:?}"))?;
    let mut seen = std::collections::HashSet::new();
    for s in shards {
        let w = format!("shard {:?}", s.shard_hash);
        for fi in s.read_all_file_info_sections().map_err(|e| format!("{w}: {e:?}"))? {
            seen.insert(fi.metadata.file_hash);
            check_file_info(&fi, &xorbs, originals, &w)?;
        }
        let cas = s
            .shard
            .read_all_cas_blocks_full(&mut s.get_reader().unwrap())
            .map_err(|e| format!("{w}: {e:?}"))?;
        for c in cas {
            let Some(x) = xorbs.get(&c.metadata.cas_hash) else {
                return Err(format!("{w}: cas info for missing xorb {:?}", c.metadata.cas_hash));
            };
            if c.chunks.len() != x.chunks.len() || c.metadata.num_entries as usize != x.chunks.len() {
                return Err(format!("{w}: cas info {:?} chunk count differs", c.metadata.cas_hash));
            }
            let mut pos = 0;
            for (ce, (h, b)) in c.chunks.iter().zip(x.chunks.iter()) {
                if ce.chunk_hash != *h || ce.unpacked_segment_bytes as usize != b.len() || ce.chunk_byte_range_start != pos
                {
                    return Err(format!("{w}: cas info {:?} chunk entry differs", c.metadata.cas_hash));
                }
                pos += b.len() as u32;
            }
            if c.metadata.num_bytes_in_cas != pos {
                return Err(format!("{w}: cas info {:?} num_bytes_in_cas differs", c.metadata.cas_hash));
            }
        }
    }
    for h in originals.keys() {
        if !seen.contains(h) {
            return Err(format!("uploaded file {h:?} has no record in any uploaded shard"));
        }
    }
    Ok(())
}

static STATS: std::sync::Mutex<(usize, usize, usize, usize)> = std::sync::Mutex::new((0, 0, 0, 0));

fn envu(name: &str, default: usize) -> usize {
    std::env::var(name).ok().and_then(|s| s.parse().ok()).unwrap_or(default)
}

#[cfg(not(feature = "verif"))]
async fn make_session(cas_dir: &Path, _rng: &mut StdRng) -> Result<std::sync::Arc<FileUploadSession>, String> {
    let config = TranslatorConfig::local_config(cas_dir).unwrap();
    FileUploadSession::new(config, ThreadPool::from_current_runtime(), None)
        .await
        .map_err(|e| format!("session new: {e:?}"))
}

#[cfg(feature = "verif")]
mod safe_client {
    // LocalClient with the global dedup answer delivered atomically (the stock implementation copies the shard
    // over the destination in place, so that two concurrent answers naming the same shard can expose a
    // half-written file to the reader; that is a property of the test server only).
    use std::collections::HashMap;
    use std::path::PathBuf;
    use std::sync::Arc;

    use async_trait::async_trait;
    use cas_client::*;
    use cas_types::FileRange;
    use mdb_shard::file_structs::MDBFileInfo;
    use mdb_shard::shard_file_reconstructor::FileReconstructor;
    use merklehash::MerkleHash;
    use utils::progress::ProgressUpdater;

    pub struct SafeLocal {
        pub inner: LocalClient,
        pub cache_dir: PathBuf,
        pub lock: tokio::sync::Mutex<()>,
    }

    type R<T> = std::result::Result<T, CasClientError>;

    #[async_trait]
    impl UploadClient for SafeLocal {
        async fn put(&self, prefix: &str, hash: &MerkleHash, data: Vec<u8>, cb: Vec<(MerkleHash, u32)>) -> R<usize> {
            self.inner.put(prefix, hash, data, cb).await
        }
        async fn exists(&self, prefix: &str, hash: &MerkleHash) -> R<bool> {
            self.inner.exists(prefix, hash).await
        }
    }
    #[async_trait]
    impl ReconstructionClient for SafeLocal {
        async fn get_file(
            &self,
            hash: &MerkleHash,
            byte_range: Option<FileRange>,
            output_provider: &OutputProvider,
            progress_updater: Option<Arc<dyn ProgressUpdater>>,
        ) -> R<u64> {
            self.inner.get_file(hash, byte_range, output_provider, progress_updater).await
        }
        async fn batch_get_file(&self, files: HashMap<MerkleHash, &OutputProvider>) -> R<u64> {
            self.inner.batch_get_file(files).await
        }
    }
    #[async_trait]
    impl VerifRegistrationClient for SafeLocal {
        async fn upload_shard(&self, prefix: &str, hash: &MerkleHash, force_sync: bool, shard_data: &[u8], salt: &[u8; 32]) -> R<bool> {
            self.inner.upload_shard(prefix, hash, force_sync, shard_data, salt).await
        }
    }
    #[async_trait]
    impl FileReconstructor<CasClientError> for SafeLocal {
        async fn get_file_reconstruction_info(&self, file_hash: &MerkleHash) -> R<Option<(MDBFileInfo, Option<MerkleHash>)>> {
            self.inner.get_file_reconstruction_info(file_hash).await
        }
    }
    #[async_trait]
    impl VerifShardDedupProber for SafeLocal {
        async fn query_for_global_dedup_shard(&self, prefix: &str, chunk_hash: &MerkleHash, salt: &[u8; 32]) -> R<Option<PathBuf>> {
            let _g = self.lock.lock().await;
            let Some(staged) = self.inner.query_for_global_dedup_shard(prefix, chunk_hash, salt).await? else {
                return Ok(None);
            };
            let dest = self.cache_dir.join(staged.file_name().unwrap());
            if dest.exists() {
                let _ = std::fs::remove_file(&staged);
            } else {
                std::fs::rename(&staged, &dest).unwrap();
            }
            Ok(Some(dest))
        }
    }
    impl ShardClientInterface for SafeLocal {}
    impl Client for SafeLocal {}
}

#[cfg(feature = "verif")]
async fn make_session(cas_dir: &Path, rng: &mut StdRng) -> Result<std::sync::Arc<FileUploadSession>, String> {
    use data::configurations::*;
    let base = TranslatorConfig::local_config(cas_dir).unwrap();
    // a client with its own (fresh) shard cache: it only learns about earlier uploads through global dedup
    let cache_dir = cas_dir.join(format!("xet/shard-cache-{}", rng.gen_range(0..3)));
    std::fs::create_dir_all(&cache_dir).unwrap();
    let config = std::sync::Arc::new(TranslatorConfig {
        data_config: DataConfig {
            endpoint: Endpoint::FileSystem(cas_dir.join("xet/xorbs")),
            compression: Default::default(),
            auth: None,
            prefix: base.data_config.prefix.clone(),
            cache_config: base.data_config.cache_config.clone(),
            staging_directory: None,
        },
        shard_config: ShardConfig {
            prefix: base.shard_config.prefix.clone(),
            cache_directory: cache_dir.clone(),
            session_directory: base.shard_config.session_directory.clone(),
            global_dedup_policy: GlobalDedupPolicy::Always,
            repo_salt: Default::default(),
        },
        repo_info: None,
    });
    let stage = cas_dir.join(format!("xet/stage-{}", rng.gen::<u64>()));
    std::fs::create_dir_all(&stage).unwrap();
    let client = std::sync::Arc::new(safe_client::SafeLocal {
        inner: cas_client::LocalClient::new(cas_dir.join("xet/xorbs"), Some(stage.clone()))
            .map_err(|e| format!("client: {e:?}"))?,
        cache_dir,
        lock: tokio::sync::Mutex::new(()),
    });
    FileUploadSession::new_with_client(config, ThreadPool::from_current_runtime(), None, client, false)
        .await
        .map_err(|e| format!("session new: {e:?}"))
}

async fn run_seed(seed: u64) -> Result<(), String> {
    let mut rng = StdRng::seed_from_u64(seed);
    let tmp = TempDir::new().unwrap();
    let cas_dir = tmp.path().join("cas");
    let unit = envu("HUNT_UNIT", 256);

    // pool of blocks
    let n_blocks = rng.gen_range(2..12);
    let pool: Vec<Vec<u8>> = (0..n_blocks)
        .map(|_| {
            let len = rng.gen_range(1..unit * 8);
            let mut v = vec![0u8; len];
            if rng.gen_bool(0.15) {
                let b: u8 = rng.gen();
                v.fill(b);
            } else {
                rng.fill_bytes(&mut v);
            }
            v
        })
        .collect();

    let mut originals: HashMap<MerkleHash, Vec<u8>> = HashMap::new();
    let n_sessions = rng.gen_range(1..4);
    for _sess in 0..n_sessions {
        let session = make_session(&cas_dir, &mut rng).await?;
        let n_files = rng.gen_range(0..7);
        let mut files: Vec<(Vec<u8>, u64)> = Vec::new();
        for _ in 0..n_files {
            let mut d = Vec::new();
            let kind = rng.gen_range(0..13);
            if kind == 0 {
                // empty
            } else if kind == 10 {
                // an exact copy of a file seen before (this session or an earlier one)
                if !files.is_empty() && rng.gen_bool(0.5) {
                    d = files[rng.gen_range(0..files.len())].0.clone();
                } else if !originals.is_empty() {
                    let k = rng.gen_range(0..originals.len());
                    d = originals.values().nth(k).unwrap().clone();
                }
            } else if kind == 11 {
                // long periodic data
                let b = &pool[rng.gen_range(0..pool.len())];
                let reps = rng.gen_range(2..60);
                for _ in 0..reps {
                    d.extend_from_slice(b);
                }
            } else if kind == 12 {
                // long constant run
                let len = rng.gen_range(1..unit * 100);
                d = vec![rng.gen_range(0..2u8); len];
            } else if kind == 1 {
                let len = rng.gen_range(1..40);
                d = vec![0u8; len];
                rng.fill_bytes(&mut d);
            } else {
                let k = rng.gen_range(1..10);
                for _ in 0..k {
                    if rng.gen_bool(0.15) {
                        let len = rng.gen_range(1..unit * 4);
                        let mut v = vec![0u8; len];
                        rng.fill_bytes(&mut v);
                        d.extend_from_slice(&v);
                    } else {
                        let b = &pool[rng.gen_range(0..pool.len())];
                        if rng.gen_bool(0.3) {
                            let s = rng.gen_range(0..b.len());
                            d.extend_from_slice(&b[s..]);
                        } else {
                            d.extend_from_slice(b);
                        }
                    }
                }
            }
            let piece_seed: u64 = rng.gen();
            files.push((d, piece_seed));
        }
        let concurrent = rng.gen_bool(0.5);
        let mut results = Vec::new();
        if concurrent {
            let mut js = JoinSet::new();
            for (d, ps) in files {
                let session = session.clone();
                js.spawn(async move { clean_one(session, d, ps).await });
            }
            while let Some(r) = js.join_next().await {
                results.push(r.map_err(|e| format!("join: {e:?}"))??);
            }
        } else {
            for (d, ps) in files {
                results.push(clean_one(session.clone(), d, ps).await?);
            }
        }
        for (h, d) in results {
            if let Some(prev) = originals.get(&h) {
                if *prev != d {
                    return Err("file hash collision?!".to_owned());
                }
            }
            originals.insert(h, d);
        }
        let (m, infos) = session.finalize_with_file_info().await.map_err(|e| format!("finalize: {e:?}"))?;
        STATS.lock().unwrap().0 += m.defrag_prevented_dedup_chunks + 1000000 * m.deduped_chunks_by_global_dedup;
        STATS.lock().unwrap().1 += m.deduped_chunks;
        STATS.lock().unwrap().2 += m.new_chunks;
        let xorbs = load_xorbs(&cas_dir.join("xet/xorbs/xorbs"))?;
        STATS.lock().unwrap().3 += xorbs.len();
        for fi in infos.iter() {
            check_file_info(fi, &xorbs, &originals, "finalize_with_file_info")?;
        }
        validate_store(&cas_dir, &originals)?;
    }
    Ok(())
}

async fn clean_one(session: std::sync::Arc<FileUploadSession>, d: Vec<u8>, piece_seed: u64) -> Result<(MerkleHash, Vec<u8>), String> {
    let mut rng = StdRng::seed_from_u64(piece_seed);
    let mut cleaner = session.start_clean("f".to_owned());
    let mut pos = 0;
    let mode = rng.gen_range(0..3);
    while pos < d.len() {
        let n = match mode {
            0 => d.len(),
            1 => rng.gen_range(1..2000),
            _ => rng.gen_range(1..200),
        };
        let e = (pos + n).min(d.len());
        cleaner.add_data(&d[pos..e]).await.map_err(|e| format!("add_data: {e:?}"))?;
        pos = e;
        if rng.gen_bool(0.3) {
            tokio::task::yield_now().await;
        }
    }
    let (pf, _m) = cleaner.finish().await.map_err(|e| format!("finish: {e:?}"))?;
    if pf.filesize() as usize != d.len() {
        return Err("pointer file size differs".to_owned());
    }
    Ok((pf.hash().unwrap(), d))
}

#[tokio::test(flavor = "multi_thread", worker_threads = 4)]
async fn fuzz_sessions() {
    let start = envu("HUNT_SEED_START", 0) as u64;
    let n = envu("HUNT_SEEDS", 50) as u64;
    for seed in start..start + n {
        let h = tokio::spawn(run_seed(seed));
        match h.await {
            Ok(Ok(())) => {},
            Ok(Err(e)) => panic!("seed {seed}: VIOLATION: {e}"),
            Err(e) => panic!("seed {seed}: PANIC in session: {e:?}"),
        }
    }
    eprintln!("stats (defrag-withheld, deduped, new chunks, xorbs seen): {:?}", STATS.lock().unwrap());
}

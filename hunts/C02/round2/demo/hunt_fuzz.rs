// Fuzz harness for property C02: runs sessions against the local store and validates everything stored.
use std::collections::HashMap;
use std::io::Cursor;
use std::path::Path;
use std::sync::Arc;

use cas_object::CasObject;
use data::configurations::TranslatorConfig;
use data::FileUploadSession;
use mdb_shard::chunk_verification::range_hash_from_chunks;
use mdb_shard::MDBShardFile;
use merkledb::aggregate_hashes::{cas_node_hash, file_node_hash};
use merklehash::{compute_data_hash, MerkleHash};
use rand::rngs::StdRng;
use rand::{Rng, RngCore, SeedableRng};
use sha2::{Digest, Sha256};
use tempfile::TempDir;
use tokio::task::JoinSet;
use xet_threadpool::ThreadPool;

static GD: std::sync::atomic::AtomicUsize = std::sync::atomic::AtomicUsize::new(0);
static DD: std::sync::atomic::AtomicUsize = std::sync::atomic::AtomicUsize::new(0);
static DF: std::sync::atomic::AtomicUsize = std::sync::atomic::AtomicUsize::new(0);

fn env_usize(name: &str, default: usize) -> usize {
    std::env::var(name).ok().and_then(|s| s.parse().ok()).unwrap_or(default)
}

struct XorbInfo {
    chunk_hashes: Vec<MerkleHash>,
    chunk_data: Vec<Vec<u8>>,
}

fn load_xorbs(cas_dir: &Path) -> Result<HashMap<MerkleHash, XorbInfo>, String> {
    let dir = cas_dir.join("xet").join("xorbs").join("xorbs");
    let mut ret = HashMap::new();
    if !dir.exists() {
        return Ok(ret);
    }
    for e in std::fs::read_dir(&dir).unwrap() {
        let e = e.unwrap();
        let name = e.file_name().into_string().unwrap();
        let hex = name.rsplit('.').next().unwrap();
        let hash = MerkleHash::from_hex(hex).map_err(|_| format!("bad xorb name {name}"))?;
        let bytes = std::fs::read(e.path()).unwrap();
        let mut cur = Cursor::new(&bytes);
        let cas = match CasObject::validate_cas_object(&mut cur, &hash) {
            Ok(Some(c)) => c,
            Ok(None) => return Err(format!("xorb {name} rejected by validate_cas_object")),
            Err(err) => return Err(format!("xorb {name} validate error {err:?}")),
        };
        let all = cas.get_all_bytes(&mut cur).map_err(|e| format!("xorb {name} does not decode: {e:?}"))?;
        let mut chunk_data = Vec::new();
        let mut prev = 0usize;
        for &off in cas.info.unpacked_chunk_offsets.iter() {
            chunk_data.push(all[prev..off as usize].to_vec());
            prev = off as usize;
        }
        if prev != all.len() {
            return Err(format!("xorb {name}: offsets do not cover data"));
        }
        let chunk_hashes: Vec<MerkleHash> = chunk_data.iter().map(|d| compute_data_hash(d)).collect();
        if chunk_hashes != cas.info.chunk_hashes {
            return Err(format!("xorb {name}: chunk hashes differ"));
        }
        let hl: Vec<_> = chunk_hashes.iter().zip(chunk_data.iter()).map(|(h, d)| (*h, d.len())).collect();
        if cas_node_hash(&hl) != hash {
            return Err(format!("xorb {name}: name != recomputed hash"));
        }
        ret.insert(hash, XorbInfo { chunk_hashes, chunk_data });
    }
    Ok(ret)
}

fn validate_store(cas_dir: &Path, originals: &HashMap<MerkleHash, Vec<u8>>) -> Result<(), String> {
    let xorbs = load_xorbs(cas_dir)?;
    let shard_dir = cas_dir.join("xet").join("xorbs").join("shards");
    let shards = MDBShardFile::load_all_valid(&shard_dir).map_err(|e| format!("{e:?}"))?;
    let mut seen_files: HashMap<MerkleHash, usize> = HashMap::new();
    for s in shards.iter() {
        // CAS info
        let mut reader = s.get_reader().unwrap();
        let cas_blocks = s.shard.read_all_cas_blocks_full(&mut reader).map_err(|e| format!("{e:?}"))?;
        for cb in cas_blocks {
            let h = cb.metadata.cas_hash;
            let Some(x) = xorbs.get(&h) else {
                return Err(format!("shard {:?}: cas info for xorb {h:?} that is not stored", s.path));
            };
            if cb.chunks.len() != x.chunk_hashes.len() {
                return Err(format!("shard cas info {h:?}: chunk count differs"));
            }
            let mut pos = 0u32;
            for (i, c) in cb.chunks.iter().enumerate() {
                if c.chunk_hash != x.chunk_hashes[i]
                    || c.unpacked_segment_bytes as usize != x.chunk_data[i].len()
                    || c.chunk_byte_range_start != pos
                {
                    return Err(format!("shard cas info {h:?}: chunk {i} differs"));
                }
                pos += c.unpacked_segment_bytes;
            }
            if cb.metadata.num_bytes_in_cas != pos {
                return Err(format!("shard cas info {h:?}: num_bytes_in_cas differs"));
            }
        }

        for fi in s.read_all_file_info_sections().map_err(|e| format!("{e:?}"))? {
            let fh = fi.metadata.file_hash;
            *seen_files.entry(fh).or_default() += 1;
            if fi.metadata.num_entries as usize != fi.segments.len() {
                return Err(format!("file {fh:?}: num_entries"));
            }
            if !fi.contains_verification() || fi.verification.len() != fi.segments.len() {
                return Err(format!("file {fh:?}: verification entries missing"));
            }
            let mut all_chunks: Vec<(MerkleHash, usize)> = Vec::new();
            let mut bytes: Vec<u8> = Vec::new();
            for (si, seg) in fi.segments.iter().enumerate() {
                let Some(x) = xorbs.get(&seg.cas_hash) else {
                    return Err(format!("file {fh:?} seg {si}: xorb {:?} not stored", seg.cas_hash));
                };
                let (a, b) = (seg.chunk_index_start as usize, seg.chunk_index_end as usize);
                if a >= b || b > x.chunk_hashes.len() {
                    return Err(format!("file {fh:?} seg {si}: range {a}..{b} out of {}", x.chunk_hashes.len()));
                }
                let len: usize = x.chunk_data[a..b].iter().map(|d| d.len()).sum();
                if len != seg.unpacked_segment_bytes as usize {
                    return Err(format!("file {fh:?} seg {si}: bytes {} != {len}", seg.unpacked_segment_bytes));
                }
                let vh = range_hash_from_chunks(&x.chunk_hashes[a..b]);
                if vh != fi.verification[si].range_hash {
                    return Err(format!("file {fh:?} seg {si}: verification hash differs"));
                }
                for i in a..b {
                    all_chunks.push((x.chunk_hashes[i], x.chunk_data[i].len()));
                    bytes.extend_from_slice(&x.chunk_data[i]);
                }
            }
            let recomputed = file_node_hash(&all_chunks, &[0u8; 32]).unwrap();
            if recomputed != fh {
                return Err(format!("file {fh:?}: recomputed file hash {recomputed:?}"));
            }
            let Some(ext) = fi.metadata_ext.as_ref() else {
                return Err(format!("file {fh:?}: no metadata ext"));
            };
            let sha = format!("{:x}", Sha256::digest(&bytes));
            if ext.sha256.hex() != sha {
                return Err(format!("file {fh:?}: sha256 {} != {sha}", ext.sha256.hex()));
            }
            if let Some(orig) = originals.get(&fh) {
                if *orig != bytes {
                    return Err(format!("file {fh:?}: reconstructed bytes differ from original"));
                }
            } else {
                return Err(format!("file {fh:?}: unknown file in shard"));
            }
        }
    }
    for (h, _) in originals.iter() {
        if !seen_files.contains_key(h) {
            return Err(format!("file {h:?} not in any uploaded shard"));
        }
    }
    Ok(())
}

#[cfg(not(feature = "verif"))]
async fn make_session(cas_dir: &Path, _idx: usize, _rng: &mut StdRng) -> Result<Arc<FileUploadSession>, String> {
    let config = TranslatorConfig::local_config(cas_dir).unwrap();
    FileUploadSession::new(config, ThreadPool::from_current_runtime(), None)
        .await
        .map_err(|e| format!("{e:?}"))
}

#[cfg(feature = "verif")]
async fn make_session(cas_dir: &Path, idx: usize, rng: &mut StdRng) -> Result<Arc<FileUploadSession>, String> {
    use data::configurations::*;
    let base = TranslatorConfig::local_config(cas_dir).unwrap();
    let path = cas_dir.join("xet");
    // A fresh (or randomly re-used) shard cache, so that earlier sessions are only known through global dedup.
    let cache_idx = if rng.gen_bool(0.5) { idx } else { rng.gen_range(0..=idx) };
    let cache_dir = path.join(format!("shard-cache-{cache_idx}"));
    std::fs::create_dir_all(&cache_dir).unwrap();
    let config = Arc::new(TranslatorConfig {
        data_config: DataConfig {
            endpoint: Endpoint::FileSystem(path.join("xorbs")),
            compression: Default::default(),
            auth: None,
            prefix: "default".into(),
            cache_config: data::CacheConfig {
                cache_directory: path.join("cache"),
                cache_size: 0,
            },
            staging_directory: None,
        },
        shard_config: ShardConfig {
            prefix: "default".into(),
            cache_directory: cache_dir.clone(),
            session_directory: path.join("shard-session"),
            global_dedup_policy: GlobalDedupPolicy::Always,
            repo_salt: Default::default(),
        },
        repo_info: base.repo_info.as_ref().map(|r| RepoInfo { repo_paths: r.repo_paths.clone() }),
    });
    let staging = path.join(format!("gd-staging-{idx}"));
    std::fs::create_dir_all(&staging).unwrap();
    let inner = cas_client::LocalClient::new(path.join("xorbs"), Some(staging)).map_err(|e| format!("{e:?}"))?;
    let client = Arc::new(wrap::AtomicGd { inner, cache_dir, lock: tokio::sync::Mutex::new(()) });
    FileUploadSession::new_with_client(config, ThreadPool::from_current_runtime(), None, client, false)
        .await
        .map_err(|e| format!("{e:?}"))
}

fn gen_file(rng: &mut StdRng, pool: &mut Vec<Vec<u8>>, max_blocks: usize, max_block: usize) -> Vec<u8> {
    let n = rng.gen_range(0..=max_blocks);
    let mut out = Vec::new();
    for _ in 0..n {
        let kind = if std::env::var("HUNT_CONST").is_ok() && rng.gen_bool(0.6) { 4 } else { rng.gen_range(0..10) };
        if kind < 4 && !pool.is_empty() {
            let i = rng.gen_range(0..pool.len());
            out.extend_from_slice(&pool[i]);
        } else if kind < 5 {
            // constant run
            let l = rng.gen_range(1..=max_block);
            let b: u8 = rng.gen_range(0..3);
            out.extend(std::iter::repeat(b).take(l));
        } else if kind < 6 && !pool.is_empty() {
            // partial pool block
            let i = rng.gen_range(0..pool.len());
            let l = rng.gen_range(0..=pool[i].len());
            out.extend_from_slice(&pool[i][..l]);
        } else {
            let l = rng.gen_range(1..=max_block);
            let mut b = vec![0u8; l];
            rng.fill_bytes(&mut b);
            pool.push(b.clone());
            out.extend_from_slice(&b);
        }
    }
    out
}

async fn run(seed: u64) -> Result<(), String> {
    let mut rng = StdRng::seed_from_u64(seed);
    let tmp = TempDir::new().unwrap();
    let cas_dir = tmp.path().join("cas");
    let n_sessions = env_usize("HUNT_SESSIONS", 3);
    let max_files = env_usize("HUNT_MAX_FILES", 6);
    let max_blocks = env_usize("HUNT_MAX_BLOCKS", 12);
    let max_block = env_usize("HUNT_MAX_BLOCK", 4000);
    let mut pool: Vec<Vec<u8>> = Vec::new();
    let mut originals: HashMap<MerkleHash, Vec<u8>> = HashMap::new();
    let mut old_files: Vec<Vec<u8>> = Vec::new();

    for _s in 0..n_sessions {
        let session = make_session(&cas_dir, _s, &mut rng).await?;
        let n_files = rng.gen_range(1..=max_files);
        let mut files = Vec::new();
        for _ in 0..n_files {
            if !old_files.is_empty() && rng.gen_range(0..5) == 0 {
                let i = rng.gen_range(0..old_files.len());
                files.push(old_files[i].clone());
            } else {
                files.push(gen_file(&mut rng, &mut pool, max_blocks, max_block));
            }
        }
        let concurrent = rng.gen_bool(0.5);
        let mut results: Vec<(Vec<u8>, String)> = Vec::new();
        if concurrent {
            let mut js = JoinSet::new();
            for f in files.iter().cloned() {
                let session = session.clone();
                let step = rng.gen_range(1..=20000usize);
                js.spawn(async move {
                    let mut c = session.start_clean("f".to_owned());
                    let mut pos = 0;
                    while pos < f.len() {
                        let e = (pos + step).min(f.len());
                        c.add_data(&f[pos..e]).await.unwrap();
                        pos = e;
                    }
                    let (pf, m) = c.finish().await.unwrap();
                    GD.fetch_add(m.deduped_chunks_by_global_dedup, std::sync::atomic::Ordering::Relaxed);
                    DD.fetch_add(m.deduped_chunks, std::sync::atomic::Ordering::Relaxed);
                    DF.fetch_add(m.defrag_prevented_dedup_chunks, std::sync::atomic::Ordering::Relaxed);
                    (f, pf.hash_string().clone())
                });
            }
            while let Some(r) = js.join_next().await {
                results.push(r.unwrap());
            }
        } else {
            for f in files.iter().cloned() {
                let step = rng.gen_range(1..=20000usize);
                let mut c = session.start_clean("f".to_owned());
                let mut pos = 0;
                while pos < f.len() {
                    let e = (pos + step).min(f.len());
                    c.add_data(&f[pos..e]).await.unwrap();
                    pos = e;
                }
                let (pf, m) = c.finish().await.unwrap();
                GD.fetch_add(m.deduped_chunks_by_global_dedup, std::sync::atomic::Ordering::Relaxed);
                DD.fetch_add(m.deduped_chunks, std::sync::atomic::Ordering::Relaxed);
                DF.fetch_add(m.defrag_prevented_dedup_chunks, std::sync::atomic::Ordering::Relaxed);
                results.push((f, pf.hash_string().clone()));
            }
        }
        let (_m, infos) = session.finalize_with_file_info().await.map_err(|e| format!("finalize: {e:?}"))?;
        for (f, h) in results {
            let h = MerkleHash::from_hex(&h).unwrap();
            if let Some(prev) = originals.get(&h) {
                if *prev != f {
                    return Err("two different files with the same hash".to_owned());
                }
            }
            if !infos.iter().any(|fi| fi.metadata.file_hash == h) {
                return Err(format!("file {h:?} not in finalize_with_file_info"));
            }
            originals.insert(h, f.clone());
            old_files.push(f);
        }
        validate_store(&cas_dir, &originals)?;
    }
    Ok(())
}

#[tokio::test(flavor = "multi_thread", worker_threads = 4)]
async fn hunt_fuzz() {
    let seed0 = env_usize("HUNT_SEED", 0) as u64;
    let n = env_usize("HUNT_RUNS", 20) as u64;
    for seed in seed0..seed0 + n {
        if let Err(e) = run(seed).await {
            panic!("seed {seed}: VIOLATION: {e}");
        }
    }
    eprintln!("ok {n} runs from seed {seed0}; dedup chunks {} global {} defrag-refused {}", DD.load(std::sync::atomic::Ordering::Relaxed), GD.load(std::sync::atomic::Ordering::Relaxed), DF.load(std::sync::atomic::Ordering::Relaxed));
    let _ = Arc::new(0);
}

#[cfg(feature = "verif")]
mod wrap {
    use std::collections::HashMap;
    use std::path::PathBuf;
    use std::sync::Arc;

    use async_trait::async_trait;
    use cas_client::*;
    use mdb_shard::file_structs::MDBFileInfo;
    use mdb_shard::shard_file_reconstructor::FileReconstructor;
    use merklehash::MerkleHash;

    type R<T> = std::result::Result<T, CasClientError>;

    /// LocalClient whose global dedup shard delivery into the cache directory is atomic (as RemoteClient's is).
    pub struct AtomicGd {
        pub inner: LocalClient,
        pub cache_dir: PathBuf,
        pub lock: tokio::sync::Mutex<()>,
    }

    #[async_trait]
    impl UploadClient for AtomicGd {
        async fn put(&self, prefix: &str, hash: &MerkleHash, data: Vec<u8>, cb: Vec<(MerkleHash, u32)>) -> R<usize> {
            self.inner.put(prefix, hash, data, cb).await
        }
        async fn exists(&self, prefix: &str, hash: &MerkleHash) -> R<bool> {
            self.inner.exists(prefix, hash).await
        }
    }
    #[async_trait]
    impl ReconstructionClient for AtomicGd {
        async fn get_file(
            &self,
            hash: &MerkleHash,
            byte_range: Option<cas_types::FileRange>,
            output_provider: &OutputProvider,
            progress_updater: Option<Arc<dyn utils::progress::ProgressUpdater>>,
        ) -> R<u64> {
            self.inner.get_file(hash, byte_range, output_provider, progress_updater).await
        }
        async fn batch_get_file(&self, files: HashMap<MerkleHash, &OutputProvider>) -> R<u64> {
            self.inner.batch_get_file(files).await
        }
    }
    #[async_trait]
    impl VerifShardDedupProber for AtomicGd {
        async fn query_for_global_dedup_shard(&self, prefix: &str, chunk_hash: &MerkleHash, salt: &[u8; 32]) -> R<Option<PathBuf>> {
            let _g = self.lock.lock().await;
            let Some(p) = self.inner.query_for_global_dedup_shard(prefix, chunk_hash, salt).await? else {
                return Ok(None);
            };
            if std::env::var("HUNT_KEYED").is_ok() {
                use rand::Rng;
                let mut rng = rand::thread_rng();
                let key: merklehash::HMACKey = [rng.gen::<u64>() | 1, rng.gen(), rng.gen(), rng.gen()].into();
                let sf = mdb_shard::MDBShardFile::load_from_file(&p).unwrap();
                let out = sf
                    .export_as_keyed_shard(
                        &self.cache_dir,
                        key,
                        std::time::Duration::from_secs(3600),
                        rng.gen_bool(0.5),
                        rng.gen_bool(0.5),
                        rng.gen_bool(0.5),
                    )
                    .unwrap();
                return Ok(Some(out.path.clone()));
            }
            let dest = self.cache_dir.join(p.file_name().unwrap());
            if !dest.exists() {
                std::fs::rename(&p, &dest)?;
            }
            Ok(Some(dest))
        }
    }
    #[async_trait]
    impl VerifRegistrationClient for AtomicGd {
        async fn upload_shard(&self, prefix: &str, hash: &MerkleHash, force_sync: bool, shard_data: &[u8], salt: &[u8; 32]) -> R<bool> {
            self.inner.upload_shard(prefix, hash, force_sync, shard_data, salt).await
        }
    }
    #[async_trait]
    impl FileReconstructor<CasClientError> for AtomicGd {
        async fn get_file_reconstruction_info(&self, file_hash: &MerkleHash) -> R<Option<(MDBFileInfo, Option<MerkleHash>)>> {
            self.inner.get_file_reconstruction_info(file_hash).await
        }
    }
    impl ShardClientInterface for AtomicGd {}
    impl Client for AtomicGd {}
}

use std::io::Cursor;

use cas_object::{CasObject, CompressionScheme};
use merkledb::aggregate_hashes::cas_node_hash;
use merklehash::compute_data_hash;
use rand::rngs::StdRng;
use rand::{Rng, RngCore, SeedableRng};

fn gen_chunk(rng: &mut StdRng) -> Vec<u8> {
    let len = match rng.gen_range(0..10) {
        0 => 1,
        1 => rng.gen_range(1..8),
        2 => 131072,
        3 => 131071,
        4 => rng.gen_range(65530..65540),
        _ => rng.gen_range(1..131072),
    };
    let mut v = vec![0u8; len];
    match rng.gen_range(0..6) {
        0 => rng.fill_bytes(&mut v),
        1 => {},
        2 => {
            // f32-like
            for (i, c) in v.chunks_mut(4).enumerate() {
                let f = (i as f32 * 0.001).sin();
                let b = f.to_le_bytes();
                let n = c.len();
                c.copy_from_slice(&b[..n]);
            }
        },
        3 => {
            for (i, b) in v.iter_mut().enumerate() {
                *b = (i % 251) as u8;
            }
        },
        4 => {
            // mostly zeros with some noise
            for b in v.iter_mut() {
                if rng.gen_range(0..50) == 0 {
                    *b = rng.gen();
                }
            }
        },
        _ => {
            let p: [u8; 4] = rng.gen();
            for (i, b) in v.iter_mut().enumerate() {
                *b = p[i % 4].wrapping_add((i / 4096) as u8);
            }
        },
    }
    v
}

#[test]
fn hunt_roundtrip() {
    for seed in 0..300u64 {
        let mut rng = StdRng::seed_from_u64(seed);
        let n = rng.gen_range(1..12);
        let chunks: Vec<Vec<u8>> = (0..n).map(|_| gen_chunk(&mut rng)).collect();
        let mut data = Vec::new();
        let mut cb = Vec::new();
        let mut hl = Vec::new();
        for c in chunks.iter() {
            data.extend_from_slice(c);
            let h = compute_data_hash(c);
            cb.push((h, data.len() as u32));
            hl.push((h, c.len()));
        }
        let hash = cas_node_hash(&hl);
        for scheme in [
            None,
            Some(CompressionScheme::None),
            Some(CompressionScheme::LZ4),
            Some(CompressionScheme::ByteGrouping4LZ4),
        ] {
            let mut buf = Cursor::new(Vec::new());
            let (_c, _n) = CasObject::serialize(&mut buf, &hash, &data, &cb, scheme).unwrap();
            let bytes = buf.into_inner();
            let mut r = Cursor::new(&bytes);
            let v = CasObject::validate_cas_object(&mut r, &hash).unwrap();
            let Some(cas) = v else { panic!("seed {seed} scheme {scheme:?}: rejected") };
            let all = cas.get_all_bytes(&mut r).unwrap();
            assert!(all == data, "seed {seed} scheme {scheme:?}: bytes differ");
        }
    }
}

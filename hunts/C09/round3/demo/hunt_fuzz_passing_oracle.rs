use std::collections::BTreeMap;
use std::io::Cursor;

use mdb_shard::cas_structs::*;
use mdb_shard::file_structs::*;
use mdb_shard::interpolation_search::search_on_sorted_u64s;
use mdb_shard::shard_in_memory::MDBInMemoryShard;
use mdb_shard::streaming_shard::{process_shard_stream, MDBMinimalShard};
use mdb_shard::utils::truncate_hash;
use mdb_shard::MDBShardInfo;
use merklehash::MerkleHash;
use rand::prelude::*;
use utils::serialization_utils::*;

fn gen_keys(rng: &mut StdRng, mode: u32, n: usize) -> Vec<u64> {
    let mut v = Vec::with_capacity(n);
    let mut i = 0;
    while v.len() < n {
        let k: u64 = match mode {
            0 => rng.gen(),
            1 => rng.gen_range(0..16),
            2 => u64::MAX - rng.gen_range(0..16),
            3 => {
                if rng.gen_bool(0.5) {
                    rng.gen_range(0..1000)
                } else {
                    u64::MAX - rng.gen_range(0..1000)
                }
            },
            4 => (1u64 << 63) + rng.gen_range(0..(n as u64 * 2 + 1)),
            5 => i as u64,
            6 => u64::MAX - i as u64,
            7 => {
                // one huge cluster plus a few outliers
                if rng.gen_bool(0.01) {
                    rng.gen()
                } else {
                    12345678901234u64 + rng.gen_range(0..(n as u64))
                }
            },
            8 => {
                let e = rng.gen_range(0..64);
                1u64 << e
            },
            9 => {
                let e = rng.gen_range(0..64);
                (1u64 << e).wrapping_add(rng.gen_range(0..3)).wrapping_sub(1)
            },
            _ => {
                if rng.gen_bool(0.5) {
                    0
                } else {
                    u64::MAX
                }
            },
        };
        let dup = if rng.gen_bool(0.1) { rng.gen_range(1..8) } else { 1 };
        for _ in 0..dup {
            if v.len() < n {
                v.push(k);
            }
        }
        i += 1;
    }
    v
}

#[test]
fn fuzz_interp_search() {
    let mut rng = StdRng::seed_from_u64(1);
    for iter in 0..3000 {
        let mode = rng.gen_range(0..11);
        let n = match rng.gen_range(0..6) {
            0 => rng.gen_range(0..10),
            1 => rng.gen_range(250..265),
            2 => rng.gen_range(500..530),
            3 => rng.gen_range(0..2000),
            4 => rng.gen_range(0..300),
            _ => rng.gen_range(2000..6000),
        };
        let keys = gen_keys(&mut rng, mode, n);
        let mut values: Vec<(u64, u64)> = keys.iter().enumerate().map(|(i, k)| (*k, i as u64)).collect();
        values.sort();
        let mut data = Vec::new();
        let mut truth = BTreeMap::<u64, Vec<u64>>::new();
        for (k, v) in values.iter() {
            write_u64(&mut data, *k).unwrap();
            write_u64(&mut data, *v).unwrap();
            truth.entry(*k).or_default().push(*v);
        }
        let mut queries: Vec<u64> = truth.keys().cloned().collect();
        let extra: Vec<u64> = queries
            .iter()
            .flat_map(|k| [k.wrapping_add(1), k.wrapping_sub(1)])
            .chain([0, 1, u64::MAX, u64::MAX - 1, 1 << 63])
            .collect();
        queries.extend(extra);
        if queries.len() > 600 {
            queries.shuffle(&mut rng);
            queries.truncate(600);
        }
        for q in queries {
            let mut dest = vec![0u64; values.len() + 1];
            let nf = search_on_sorted_u64s(
                &mut Cursor::new(&data),
                0,
                values.len() as u64,
                q,
                read_u64::<Cursor<&Vec<u8>>>,
                &mut dest,
            )
            .unwrap();
            let mut got = dest[..nf].to_vec();
            got.sort();
            let exp = truth.get(&q).cloned().unwrap_or_default();
            assert_eq!(got, exp, "iter {iter} mode {mode} n {n} q {q}");
        }
    }
}

fn mk_hash(rng: &mut StdRng, prefix: u64) -> MerkleHash {
    let r = match rng.gen_range(0..6) {
        0 => [prefix, 0, 0, 0],
        1 => [prefix, u64::MAX, u64::MAX, u64::MAX],
        2 => [prefix, u64::MAX, u64::MAX, u64::MAX - 1],
        _ => [prefix, rng.gen(), rng.gen(), rng.gen()],
    };
    if r == [u64::MAX; 4] {
        return MerkleHash::from([prefix, 1, 2, 3]);
    }
    MerkleHash::from(r)
}

fn build_shard(rng: &mut StdRng, mode: u32, nf: usize, nc: usize) -> MDBInMemoryShard {
    let mut shard = MDBInMemoryShard::default();

    // Prefix multiplicities limited to 7.
    let mut count = BTreeMap::<u64, usize>::new();
    let fkeys = gen_keys(rng, mode, nf);
    for k in fkeys {
        let c = count.entry(k).or_default();
        if *c >= 7 {
            continue;
        }
        *c += 1;
        let h = mk_hash(rng, k);
        let n = match rng.gen_range(0..4) {
            0 => 0,
            1 => 1,
            _ => rng.gen_range(0..6),
        };
        let ver = rng.gen_bool(0.5);
        let ext = rng.gen_bool(0.5);
        let segments: Vec<_> = (0..n)
            .map(|_| {
                let seg_prefix = match rng.gen_range(0..3) {
                    0 => u64::MAX,
                    1 => 0,
                    _ => rng.gen(),
                };
                FileDataSequenceEntry::new(
                    mk_hash(rng, seg_prefix),
                    rng.gen_range(0..u32::MAX),
                    rng.gen_range(0..100u32),
                    rng.gen_range(100..200u32),
                )
            })
            .collect();
        let verification: Vec<_> = if ver {
            (0..n).map(|_| FileVerificationEntry::new(mk_hash(rng, u64::MAX))).collect()
        } else {
            vec![]
        };
        let metadata_ext = ext.then(|| FileMetadataExt::new(mk_hash(rng, u64::MAX)));
        shard
            .add_file_reconstruction_info(MDBFileInfo {
                metadata: FileDataSequenceHeader::new(h, n, ver, ext),
                segments,
                verification,
                metadata_ext,
            })
            .unwrap();
    }

    let mut count = BTreeMap::<u64, usize>::new();
    let cmode = rng.gen_range(0..11);
    let ckeys = gen_keys(rng, cmode, nc);
    let chmode = rng.gen_range(0..11);
    for k in ckeys {
        let c = count.entry(k).or_default();
        if *c >= 7 {
            continue;
        }
        *c += 1;
        let h = mk_hash(rng, k);
        let n = match rng.gen_range(0..4) {
            0 => 0,
            1 => 1,
            _ => rng.gen_range(0..8),
        };
        let chk = gen_keys(rng, chmode, n);
        let mut pos = 0u32;
        let chunks: Vec<_> = chk
            .iter()
            .map(|ck| {
                let sz = rng.gen_range(0..70000u32);
                let e = CASChunkSequenceEntry::new(mk_hash(rng, *ck), sz, pos);
                pos += sz;
                e
            })
            .collect();
        let mut metadata = CASChunkSequenceHeader::new(h, n, pos);
        metadata.num_bytes_on_disk = rng.gen();
        shard.add_cas_block(MDBCASInfo { metadata, chunks }).unwrap();
    }
    shard
}

fn check_shard(shard: &MDBInMemoryShard, rng: &mut StdRng, tag: &str) {
    let mut buf = Vec::new();
    let written = MDBShardInfo::serialize_from(&mut buf, shard).unwrap();
    let si = MDBShardInfo::load_from_reader(&mut Cursor::new(&buf)).unwrap();
    assert_eq!(written, si, "{tag}");
    assert_eq!(si.num_bytes(), buf.len() as u64, "{tag}");
    assert_eq!(shard.shard_file_size(), buf.len() as u64, "{tag}");
    assert_eq!(si.materialized_bytes(), shard.materialized_bytes());
    assert_eq!(si.stored_bytes(), shard.stored_bytes());
    assert_eq!(si.stored_bytes_on_disk(), shard.stored_bytes_on_disk());
    assert_eq!(si.num_file_entries(), shard.file_content.len());
    assert_eq!(si.num_cas_entries(), shard.cas_content.len());
    assert_eq!(si.total_num_chunks(), shard.cas_content.values().map(|c| c.chunks.len()).sum::<usize>());

    let mut cur = Cursor::new(&buf);

    // lookups
    for (h, fi) in shard.file_content.iter() {
        let got = si.get_file_reconstruction_info(&mut cur, h).unwrap();
        assert_eq!(got.as_ref(), Some(fi), "{tag} file {h:?}");
        // near misses
        let a: [u64; 4] = **h;
        for miss in [
            [a[0], a[1], a[2], a[3] ^ 1],
            [a[0], a[1] ^ 1, a[2], a[3]],
            [a[0].wrapping_add(1), a[1], a[2], a[3]],
            [a[0].wrapping_sub(1), a[1], a[2], a[3]],
        ] {
            let mh = MerkleHash::from(miss);
            if !shard.file_content.contains_key(&mh) {
                let got = si.get_file_reconstruction_info(&mut cur, &mh).unwrap();
                assert_eq!(got, None, "{tag} miss {mh:?}");
            }
        }
    }
    for _ in 0..20 {
        let mh = MerkleHash::from([rng.gen(), rng.gen(), rng.gen(), rng.gen()]);
        if !shard.file_content.contains_key(&mh) {
            assert_eq!(si.get_file_reconstruction_info(&mut cur, &mh).unwrap(), None);
        }
    }

    // scans
    let files = si.read_all_file_info_sections(&mut cur).unwrap();
    let exp_files: Vec<_> = shard.file_content.values().cloned().collect();
    assert_eq!(files, exp_files, "{tag}");

    let cas = si.read_all_cas_blocks_full(&mut cur).unwrap();
    let exp_cas: Vec<_> = shard.cas_content.values().map(|c| c.as_ref().clone()).collect();
    assert_eq!(cas, exp_cas, "{tag}");

    let cas_hdrs = si.read_all_cas_blocks(&mut cur).unwrap();
    assert_eq!(cas_hdrs.len(), exp_cas.len());

    // cas lookup by hash
    let mut idx = 0u32;
    let mut exp_lookup = Vec::new();
    let mut exp_trunc = Vec::new();
    for c in exp_cas.iter() {
        exp_lookup.push((truncate_hash(&c.metadata.cas_hash), idx));
        let mut dest = [0u32; 8];
        let n = si.get_cas_info_index_by_hash(&mut cur, &c.metadata.cas_hash, &mut dest).unwrap();
        assert!(dest[..n].contains(&idx), "{tag} cas lookup {:?}", c.metadata.cas_hash);
        for (j, ch) in c.chunks.iter().enumerate() {
            exp_trunc.push((truncate_hash(&ch.chunk_hash), (idx, j as u32)));
        }
        idx += 1 + c.chunks.len() as u32;
    }
    assert_eq!(si.read_full_cas_lookup(&mut cur).unwrap(), exp_lookup);
    let mut tr = si.read_all_truncated_hashes(&mut cur).unwrap();
    // must be sorted by key
    assert!(tr.windows(2).all(|w| w[0].0 <= w[1].0));
    tr.sort();
    exp_trunc.sort();
    assert_eq!(tr, exp_trunc, "{tag}");

    // chunk lookup
    let mut cnt = BTreeMap::<u64, usize>::new();
    for (k, _) in exp_trunc.iter() {
        *cnt.entry(*k).or_default() += 1;
    }
    for (k, loc) in exp_trunc.iter() {
        let mut dest = [(0u32, 0u32); 8];
        let n = si
            .get_cas_info_index_by_chunk(&mut cur, &MerkleHash::from([*k, 0, 0, 0]), &mut dest)
            .unwrap();
        let c = cnt[k];
        assert_eq!(n, c.min(8), "{tag} chunk key {k}");
        if c <= 8 {
            assert!(dest[..n].contains(loc));
        }
    }

    // minimal + streaming
    let ms = MDBMinimalShard::from_reader(&mut Cursor::new(&buf), true, true).unwrap();
    assert_eq!(ms.num_files(), exp_files.len());
    assert_eq!(ms.num_cas(), exp_cas.len());
    for (i, f) in exp_files.iter().enumerate() {
        let v = ms.file(i);
        assert_eq!(v.header(), &f.metadata);
        for j in 0..f.segments.len() {
            assert_eq!(v.entry(j), f.segments[j]);
            if f.contains_verification() {
                assert_eq!(v.verification(j), f.verification[j]);
            }
        }
        let mut b = Vec::new();
        v.serialize(&mut b).unwrap();
        let mut b2 = Vec::new();
        f.serialize(&mut b2).unwrap();
        assert_eq!(b, b2);
    }
    for (i, c) in exp_cas.iter().enumerate() {
        let v = ms.cas(i);
        assert_eq!(v.header(), &c.metadata);
        for j in 0..c.chunks.len() {
            assert_eq!(v.chunk(j), c.chunks[j]);
        }
    }
    let mut b = Vec::new();
    ms.serialize(&mut b).unwrap();
    let si2 = MDBShardInfo::load_from_reader(&mut Cursor::new(&b)).unwrap();
    assert_eq!(si2.num_bytes(), b.len() as u64);
    assert_eq!(si2.read_all_file_info_sections(&mut Cursor::new(&b)).unwrap(), exp_files);
    assert_eq!(si2.read_all_cas_blocks_full(&mut Cursor::new(&b)).unwrap(), exp_cas);
    assert_eq!(si2.materialized_bytes(), shard.materialized_bytes());
    assert_eq!(si2.stored_bytes(), shard.stored_bytes());
    assert_eq!(si2.stored_bytes_on_disk(), shard.stored_bytes_on_disk());
    let mut tr2 = si2.read_all_truncated_hashes(&mut Cursor::new(&b)).unwrap();
    tr2.sort();
    assert_eq!(tr2, exp_trunc);

    {
        let rt = tokio::runtime::Builder::new_current_thread().build().unwrap();
        for (a, b) in [(true, true), (true, false), (false, true), (false, false)] {
            let m1 = MDBMinimalShard::from_reader(&mut Cursor::new(&buf), a, b).unwrap();
            let m2 = rt.block_on(MDBMinimalShard::from_reader_async(&mut &buf[..], a, b)).unwrap();
            assert!(m1 == m2);
        }
        let ranges = MDBShardInfo::read_file_info_ranges(&mut Cursor::new(&buf)).unwrap();
        assert_eq!(ranges.len(), exp_files.len());
        for (r, f) in ranges.iter().zip(exp_files.iter()) {
            assert_eq!(r.0, f.metadata.file_hash);
            assert_eq!(r.3, f.metadata_ext.as_ref().map(|m| m.sha256));
            assert_eq!(r.2.is_some(), f.contains_verification());
        }
        if rng.gen_bool(0.2) {
            let d = tempdir::TempDir::new("hunt").unwrap();
            let p = shard.write_to_directory(d.path()).unwrap();
            let sf = mdb_shard::MDBShardFile::load_from_file(&p).unwrap();
            sf.verify_shard_integrity();
            for (h, fi) in shard.file_content.iter() {
                assert_eq!(sf.get_file_reconstruction_info(h).unwrap().as_ref(), Some(fi));
            }
            assert_eq!(sf.read_all_file_info_sections().unwrap(), exp_files);
        }
    }

    for _ in 0..2 {
        let key: MerkleHash = if rng.gen_bool(0.3) { MerkleHash::default() } else { let p: u64 = rng.gen(); mk_hash(rng, p) };
        let (a, b, c) = (rng.gen_bool(0.7), rng.gen_bool(0.7), rng.gen_bool(0.7));
        let mut out = Vec::new();
        let nb = si
            .export_as_keyed_shard(&mut Cursor::new(&buf), &mut out, key, std::time::Duration::new(100, 0), a, b, c)
            .unwrap();
        assert_eq!(nb, out.len());
        let se = MDBShardInfo::load_from_reader(&mut Cursor::new(&out)).unwrap();
        assert_eq!(se.num_bytes(), out.len() as u64);
        let mut oc = Cursor::new(&out);
        let f = se.read_all_file_info_sections(&mut oc).unwrap();
        if a {
            assert_eq!(f, exp_files, "{tag} export");
            assert_eq!(se.materialized_bytes(), shard.materialized_bytes());
            for (h, fi) in shard.file_content.iter() {
                assert_eq!(se.get_file_reconstruction_info(&mut oc, h).unwrap().as_ref(), Some(fi), "{tag} export");
            }
        } else {
            assert!(f.is_empty());
            for (h, _) in shard.file_content.iter() {
                assert_eq!(se.get_file_reconstruction_info(&mut oc, h).unwrap(), None);
            }
        }
        assert_eq!(se.stored_bytes(), shard.stored_bytes());
        assert_eq!(se.stored_bytes_on_disk(), shard.stored_bytes_on_disk());
        let cas2 = se.read_all_cas_blocks_full(&mut oc).unwrap();
        assert_eq!(cas2.len(), exp_cas.len());
        for (x, y) in cas2.iter().zip(exp_cas.iter()) {
            assert_eq!(x.metadata, y.metadata);
            for (cx, cy) in x.chunks.iter().zip(y.chunks.iter()) {
                assert_eq!(cx.chunk_hash, se.keyed_chunk_hash(cy.chunk_hash));
                assert_eq!(cx.unpacked_segment_bytes, cy.unpacked_segment_bytes);
                assert_eq!(cx.chunk_byte_range_start, cy.chunk_byte_range_start);
            }
        }
        if b {
            assert_eq!(se.read_full_cas_lookup(&mut oc).unwrap(), exp_lookup);
        }
        let mut tr3 = se.read_all_truncated_hashes(&mut oc).unwrap();
        tr3.sort();
        let mut e3: Vec<_> = Vec::new();
        let mut idx = 0u32;
        for x in cas2.iter() {
            for (j, ch) in x.chunks.iter().enumerate() {
                e3.push((truncate_hash(&ch.chunk_hash), (idx, j as u32)));
            }
            idx += 1 + x.chunks.len() as u32;
        }
        e3.sort();
        assert_eq!(tr3, e3);
        let ms = MDBMinimalShard::from_reader(&mut Cursor::new(&out), true, true).unwrap();
        assert_eq!(ms.num_files(), f.len());
        assert_eq!(ms.num_cas(), cas2.len());
    }

    let mut nfs = 0;
    let mut ncs = 0;
    process_shard_stream(
        &mut Cursor::new(&buf),
        Some(|f: MDBFileInfoView| {
            assert_eq!(f.header(), &exp_files[nfs].metadata);
            nfs += 1;
            Ok(())
        }),
        Some(|c: MDBCASInfoView| {
            assert_eq!(c.header(), &exp_cas[ncs].metadata);
            ncs += 1;
            Ok(())
        }),
    )
    .unwrap();
    assert_eq!((nfs, ncs), (exp_files.len(), exp_cas.len()));

    for (inc_f, inc_c) in [(true, false), (false, true), (false, false)] {
        let ms = MDBMinimalShard::from_reader(&mut Cursor::new(&buf), inc_f, inc_c).unwrap();
        assert_eq!(ms.num_files(), if inc_f { exp_files.len() } else { 0 });
        assert_eq!(ms.num_cas(), if inc_c { exp_cas.len() } else { 0 });
        let mut b = Vec::new();
        ms.serialize(&mut b).unwrap();
        let si2 = MDBShardInfo::load_from_reader(&mut Cursor::new(&b)).unwrap();
        assert_eq!(si2.num_bytes(), b.len() as u64);
        let f = si2.read_all_file_info_sections(&mut Cursor::new(&b)).unwrap();
        let c = si2.read_all_cas_blocks_full(&mut Cursor::new(&b)).unwrap();
        assert_eq!(f.len(), if inc_f { exp_files.len() } else { 0 });
        assert_eq!(c.len(), if inc_c { exp_cas.len() } else { 0 });
    }
}

#[test]
fn fuzz_shards() {
    let mut rng = StdRng::seed_from_u64(7);
    for iter in 0..400 {
        let mode = rng.gen_range(0..11);
        let (nf, nc) = match rng.gen_range(0..5) {
            0 => (rng.gen_range(0..4), rng.gen_range(0..4)),
            1 => (rng.gen_range(250..270), rng.gen_range(250..270)),
            2 => (rng.gen_range(0..1500), rng.gen_range(0..600)),
            3 => (rng.gen_range(0..40), rng.gen_range(0..40)),
            _ => (rng.gen_range(500..600), rng.gen_range(0..100)),
        };
        let shard = build_shard(&mut rng, mode, nf, nc);
        check_shard(&shard, &mut rng, &format!("iter {iter} mode {mode} nf {nf} nc {nc}"));
    }
}

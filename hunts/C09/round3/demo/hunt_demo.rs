//! C09 demo: a shard file re-serialized through the minimal reader (MDBMinimalShard::serialize)
//! still contains every file and xorb record (the scans list them), but the seekable reader's
//! keyed lookups answer "not found" for all of them, because the re-serialized file carries
//! no lookup tables (file_lookup_num_entry = cas_lookup_num_entry = 0) and
//! get_file_reconstruction_info / get_cas_info_index_by_hash consult only the tables.
//!
//! Run:  cargo test --offline -p mdb_shard --test hunt_demo -- --nocapture

use std::io::Cursor;

use mdb_shard::shard_format::test_routines::gen_random_shard;
use mdb_shard::streaming_shard::MDBMinimalShard;
use mdb_shard::MDBShardInfo;

#[test]
fn minimal_reserialized_shard_loses_every_lookup() {
    // 3 xorbs, 4 files, with verification and metadata entries.
    let mem = gen_random_shard(1, &[3, 2, 4], &[2, 1, 3, 2], true, true).unwrap();

    // The ordinary serialized shard answers every lookup.
    let mut original = Vec::new();
    let si = MDBShardInfo::serialize_from(&mut original, &mem).unwrap();
    for (h, fi) in mem.file_content.iter() {
        let got = si.get_file_reconstruction_info(&mut Cursor::new(&original), h).unwrap();
        assert_eq!(got.as_ref(), Some(fi));
    }

    // Read it through the minimal reader and write it out again.
    let min = MDBMinimalShard::from_reader(&mut Cursor::new(&original), true, true).unwrap();
    let mut reserialized = Vec::new();
    min.serialize(&mut reserialized).unwrap();

    let si2 = MDBShardInfo::load_from_reader(&mut Cursor::new(&reserialized)).unwrap();

    // The scan still lists all records: the shard *contains* them ...
    let files = si2.read_all_file_info_sections(&mut Cursor::new(&reserialized)).unwrap();
    let exp_files: Vec<_> = mem.file_content.values().cloned().collect();
    assert_eq!(files, exp_files);
    let cas = si2.read_all_cas_blocks_full(&mut Cursor::new(&reserialized)).unwrap();
    assert_eq!(cas.len(), mem.cas_content.len());

    // ... but every keyed lookup must also find them.
    let mut lost_files = 0;
    for (h, _) in mem.file_content.iter() {
        if si2
            .get_file_reconstruction_info(&mut Cursor::new(&reserialized), h)
            .unwrap()
            .is_none()
        {
            lost_files += 1;
        }
    }
    let mut lost_xorbs = 0;
    for (h, _) in mem.cas_content.iter() {
        let mut dest = [0u32; 8];
        if si2
            .get_cas_info_index_by_hash(&mut Cursor::new(&reserialized), h, &mut dest)
            .unwrap()
            == 0
        {
            lost_xorbs += 1;
        }
    }
    eprintln!(
        "files listed by scan: {}, files not found by lookup: {}; xorbs listed: {}, xorbs not found by lookup: {}",
        files.len(),
        lost_files,
        cas.len(),
        lost_xorbs
    );
    assert_eq!(lost_files, 0, "files contained in the shard are reported as not found");
    assert_eq!(lost_xorbs, 0, "xorbs contained in the shard are reported as not found");
}

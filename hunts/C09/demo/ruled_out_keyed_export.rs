use std::io::Cursor;
use mdb_shard::shard_format::test_routines::*;
use mdb_shard::MDBShardInfo;
use mdb_shard::streaming_shard::MDBMinimalShard;

#[test]
fn keyed_no_file_info() {
    for (v, m) in [(false,false),(true,false),(false,true),(true,true)] {
        let shard = gen_random_shard(1, &[1, 5, 10, 8], &[4, 3, 5, 9, 4, 6], v, m).unwrap();
        let buf = convert_to_file(&shard).unwrap();
        let si = MDBShardInfo::load_from_reader(&mut Cursor::new(&buf)).unwrap();
        for inc in [false, true] {
            let mut out = Vec::new();
            let n = si.export_as_keyed_shard(&mut Cursor::new(&buf), &mut out, rng_hash(5), std::time::Duration::new(100,0), inc, true, true).unwrap();
            assert_eq!(n, out.len());
            let so = MDBShardInfo::load_from_reader(&mut Cursor::new(&out)).unwrap();
            let files = so.read_all_file_info_sections(&mut Cursor::new(&out)).unwrap();
            assert_eq!(files.len(), if inc { 6 } else { 0 });
            let cas = so.read_all_cas_blocks_full(&mut Cursor::new(&out)).unwrap();
            assert_eq!(cas.len(), 4);
            assert_eq!(so.num_bytes() as usize, out.len());
            assert_eq!(so.stored_bytes(), shard.stored_bytes());
            assert_eq!(so.materialized_bytes(), if inc {shard.materialized_bytes()} else {0});
            let ms = MDBMinimalShard::from_reader(&mut Cursor::new(&out), true, true).unwrap();
            assert_eq!(ms.num_cas(), 4);
        }
    }
}

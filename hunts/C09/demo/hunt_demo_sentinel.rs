//! C09 demo: a file (or xorb) whose 256-bit hash is all ones is indistinguishable from the section
//! bookend.  It is serialized, indexed in the lookup table and counted in the size, but no reader can
//! return it; sequential readers stop at it and the streaming/minimal readers then parse the rest of
//! the file section as xorb records.
//!
//! Copy to mdb_shard/tests/hunt_demo_sentinel.rs and run
//!   cargo test --offline -p mdb_shard --test hunt_demo_sentinel
//!
//! Every test below FAILS on the unmodified source.

use std::io::Cursor;

use mdb_shard::cas_structs::*;
use mdb_shard::file_structs::*;
use mdb_shard::shard_in_memory::MDBInMemoryShard;
use mdb_shard::streaming_shard::MDBMinimalShard;
use mdb_shard::MDBShardInfo;
use merklehash::MerkleHash;

fn h(a: u64) -> MerkleHash {
    MerkleHash::from([a, a.wrapping_mul(31) + 1, 7, 9])
}

fn file(hash: MerkleHash, nseg: usize) -> MDBFileInfo {
    MDBFileInfo {
        metadata: FileDataSequenceHeader::new(hash, nseg, false, false),
        segments: (0..nseg)
            .map(|i| FileDataSequenceEntry::new(h(1000 + i as u64), 100u32, 0u32, 1u32))
            .collect(),
        verification: vec![],
        metadata_ext: None,
    }
}

fn build() -> (MDBInMemoryShard, Vec<u8>, MDBShardInfo) {
    let mut shard = MDBInMemoryShard::default();
    shard.add_file_reconstruction_info(file(h(1), 2)).unwrap();
    shard
        .add_file_reconstruction_info(file(MerkleHash::from([u64::MAX; 4]), 2))
        .unwrap();
    shard
        .add_cas_block(MDBCASInfo {
            metadata: CASChunkSequenceHeader::new(h(50), 1, 10),
            chunks: vec![CASChunkSequenceEntry::new(h(51), 10u32, 0u32)],
        })
        .unwrap();

    let mut buf = Vec::new();
    MDBShardInfo::serialize_from(&mut buf, &shard).unwrap();
    let info = MDBShardInfo::load_from_reader(&mut Cursor::new(&buf)).unwrap();
    // size accounting is consistent: the record IS in the file.
    assert_eq!(shard.shard_file_size(), buf.len() as u64);
    assert_eq!(info.num_file_entries(), 2);
    (shard, buf, info)
}

#[test]
fn lookup_of_extreme_file_hash() {
    let (shard, buf, info) = build();
    let k = MerkleHash::from([u64::MAX; 4]);
    let r = info.get_file_reconstruction_info(&mut Cursor::new(&buf), &k);
    // Expected Ok(Some(record)); observed Err(InternalError("invalid file entry index")).
    assert_eq!(r.unwrap().as_ref(), shard.file_content.get(&k));
}

#[test]
fn scan_lists_all_files() {
    let (shard, buf, info) = build();
    let files = info.read_all_file_info_sections(&mut Cursor::new(&buf)).unwrap();
    assert_eq!(files.len(), shard.file_content.len()); // observed 1, expected 2
}

#[test]
fn minimal_reader_lists_the_xorbs() {
    let (shard, buf, _info) = build();
    // The streaming walker stops the file section at the all-ones header and then reads the two
    // segment entries of that file as xorb headers.
    let ms = MDBMinimalShard::from_reader(&mut Cursor::new(&buf), true, true).unwrap();
    assert_eq!(ms.num_files(), shard.file_content.len());
    assert_eq!(ms.num_cas(), shard.cas_content.len());
    assert_eq!(ms.cas(0).cas_hash(), h(50));
}

use std::io::Cursor;

use mdb_shard::cas_structs::*;
use mdb_shard::file_structs::*;
use mdb_shard::shard_in_memory::MDBInMemoryShard;
use mdb_shard::streaming_shard::{process_shard_stream, MDBMinimalShard};
use mdb_shard::MDBShardInfo;
use merklehash::MerkleHash;
use rand::prelude::*;

fn h(a: u64, b: u64, c: u64, d: u64) -> MerkleHash {
    MerkleHash::from([a, b, c, d])
}

fn gen_prefixes(rng: &mut StdRng, n: usize, mode: u32) -> Vec<u64> {
    let mut v = Vec::with_capacity(n);
    for i in 0..n {
        let p = match mode {
            0 => rng.gen::<u64>(),
            1 => rng.gen_range(0..(n as u64 * 2 + 4)), // clustered near 0
            2 => u64::MAX - rng.gen_range(0..(n as u64 * 2 + 4)), // clustered near max
            3 => (1u64 << 63) + rng.gen_range(0..(n as u64 * 2 + 4)), // clustered mid
            4 => {
                // big cluster + outliers
                if i % 50 == 0 {
                    rng.gen::<u64>()
                } else {
                    12345678901234u64 + rng.gen_range(0..(n as u64 + 4))
                }
            },
            5 => {
                // exponential
                let s = rng.gen_range(0..64);
                rng.gen::<u64>() >> s
            },
            6 => {
                // cluster near 0 and cluster near max
                if rng.gen_bool(0.5) {
                    rng.gen_range(0..(n as u64 + 4))
                } else {
                    u64::MAX - rng.gen_range(0..(n as u64 + 4))
                }
            },
            7 => {
                // only extremes
                match rng.gen_range(0..4) {
                    0 => 0,
                    1 => u64::MAX,
                    2 => 1,
                    _ => u64::MAX - 1,
                }
            },
            _ => unreachable!(),
        };
        v.push(p);
    }
    v
}

fn build(seed: u64, n_files: usize, n_cas: usize, mode: u32, dup: usize) -> MDBInMemoryShard {
    let mut rng = StdRng::seed_from_u64(seed);
    let mut shard = MDBInMemoryShard::default();

    let fp = gen_prefixes(&mut rng, n_files, mode);
    let mut count = std::collections::HashMap::<u64, usize>::new();
    for (i, p) in fp.iter().enumerate() {
        let ndup = if dup > 1 && i % 7 == 0 { rng.gen_range(1..=dup) } else { 1 };
        for _ in 0..ndup {
            let c = count.entry(*p).or_default();
            if *c >= 7 {
                break;
            }
            let fh = h(*p, rng.gen(), rng.gen(), rng.gen());
            if shard.file_content.contains_key(&fh) {
                continue;
            }
            *c += 1;
            let nseg = rng.gen_range(0..4usize);
            let ver = rng.gen_bool(0.5);
            let ext = rng.gen_bool(0.5);
            let segments: Vec<_> = (0..nseg)
                .map(|_| {
                    FileDataSequenceEntry::new(h(rng.gen(), rng.gen(), rng.gen(), rng.gen()), rng.gen::<u32>(), 0u32, 5u32)
                })
                .collect();
            let verification = if ver {
                (0..nseg)
                    .map(|_| FileVerificationEntry::new(h(rng.gen(), rng.gen(), rng.gen(), rng.gen())))
                    .collect()
            } else {
                vec![]
            };
            let metadata_ext = ext.then(|| FileMetadataExt::new(h(rng.gen(), rng.gen(), rng.gen(), rng.gen())));
            shard
                .add_file_reconstruction_info(MDBFileInfo {
                    metadata: FileDataSequenceHeader::new(fh, nseg, ver, ext),
                    segments,
                    verification,
                    metadata_ext,
                })
                .unwrap();
        }
    }

    let cp = gen_prefixes(&mut rng, n_cas, mode);
    let mut count = std::collections::HashMap::<u64, usize>::new();
    for (i, p) in cp.iter().enumerate() {
        let ndup = if dup > 1 && i % 7 == 0 { rng.gen_range(1..=dup) } else { 1 };
        for _ in 0..ndup {
            let c = count.entry(*p).or_default();
            if *c >= 7 {
                break;
            }
            let ch = h(*p, rng.gen(), rng.gen(), rng.gen());
            if shard.cas_content.contains_key(&ch) {
                continue;
            }
            *c += 1;
            let nchunk = rng.gen_range(0..4usize);
            let mut pos = 0u32;
            let chunks: Vec<_> = (0..nchunk)
                .map(|_| {
                    let len = rng.gen_range(1..1000u32);
                    let e = CASChunkSequenceEntry::new(h(rng.gen(), rng.gen(), rng.gen(), rng.gen()), len, pos);
                    pos += len;
                    e
                })
                .collect();
            let mut metadata = CASChunkSequenceHeader::new(ch, nchunk, pos);
            metadata.num_bytes_on_disk = rng.gen_range(0..1000);
            shard.add_cas_block(MDBCASInfo { metadata, chunks }).unwrap();
        }
    }
    shard
}

fn check(shard: &MDBInMemoryShard, tag: &str) {
    let mut buf = Vec::new();
    let info = MDBShardInfo::serialize_from(&mut buf, shard).unwrap();
    let loaded = MDBShardInfo::load_from_reader(&mut Cursor::new(&buf)).unwrap();
    assert_eq!(info.metadata.footer_offset, loaded.metadata.footer_offset, "{tag}");
    let mut a = info.clone();
    a.metadata.shard_creation_timestamp = loaded.metadata.shard_creation_timestamp;
    assert_eq!(a, loaded, "{tag}");
    assert_eq!(buf.len() as u64, shard.shard_file_size(), "{tag} size");
    assert_eq!(buf.len() as u64, loaded.num_bytes(), "{tag} size2");
    assert_eq!(loaded.materialized_bytes(), shard.materialized_bytes());
    assert_eq!(loaded.stored_bytes(), shard.stored_bytes());
    assert_eq!(loaded.stored_bytes_on_disk(), shard.stored_bytes_on_disk());
    assert_eq!(loaded.num_file_entries(), shard.file_content.len());
    assert_eq!(loaded.num_cas_entries(), shard.cas_content.len());

    let mut cur = Cursor::new(&buf);

    for (k, v) in shard.file_content.iter() {
        let r = loaded.get_file_reconstruction_info(&mut cur, k).unwrap_or_else(|e| panic!("{tag}: {e:?} for {k:?}"));
        assert_eq!(r.as_ref(), Some(v), "{tag} lookup {k:?}");
        // Not-found neighbors
        for q in [
            h(k[0], k[1] ^ 1, k[2], k[3]),
            h(k[0].wrapping_add(1), k[1], k[2], k[3]),
            h(k[0].wrapping_sub(1), k[1], k[2], k[3]),
        ] {
            if !shard.file_content.contains_key(&q) {
                let r = loaded.get_file_reconstruction_info(&mut cur, &q).unwrap_or_else(|e| panic!("{tag}: {e:?} for {q:?}"));
                assert_eq!(r, None, "{tag}");
            }
        }
    }
    for q in [h(0, 0, 0, 0), h(u64::MAX, 0, 0, 0), h(u64::MAX, u64::MAX, u64::MAX, u64::MAX - 1), h(1, 0, 0, 0)] {
        if !shard.file_content.contains_key(&q) {
            let r = loaded.get_file_reconstruction_info(&mut cur, &q).unwrap();
            assert_eq!(r, None, "{tag}");
        }
    }

    let files = loaded.read_all_file_info_sections(&mut cur).unwrap();
    let exp: Vec<_> = shard.file_content.values().cloned().collect();
    assert_eq!(files, exp, "{tag}");

    let cas = loaded.read_all_cas_blocks_full(&mut cur).unwrap();
    let exp_cas: Vec<_> = shard.cas_content.values().map(|c| c.as_ref().clone()).collect();
    assert_eq!(cas, exp_cas, "{tag}");

    // cas lookup
    let mut idx = 0u32;
    let mut exp_trunc = Vec::new();
    for (k, v) in shard.cas_content.iter() {
        let mut dest = [0u32; 8];
        let n = loaded.get_cas_info_index_by_hash(&mut cur, k, &mut dest).unwrap_or_else(|e| panic!("{tag}: {e:?}"));
        assert!(dest[..n].contains(&idx), "{tag} cas lookup {k:?} idx {idx} got {:?}", &dest[..n]);
        let nprefix = shard.cas_content.keys().filter(|kk| kk[0] == k[0]).count();
        assert_eq!(n, nprefix, "{tag}");
        for (i, c) in v.chunks.iter().enumerate() {
            exp_trunc.push((c.chunk_hash[0], (idx, i as u32)));
            let mut d = [(0u32, 0u32); 8];
            let n = loaded.get_cas_info_index_by_chunk(&mut cur, &c.chunk_hash, &mut d).unwrap();
            assert!(d[..n].contains(&(idx, i as u32)), "{tag}");
            let r = loaded.chunk_hash_dedup_query(&mut cur, &[c.chunk_hash]).unwrap().unwrap();
            assert_eq!(r.0, 1);
            assert_eq!(r.1.cas_hash, *k);
        }
        idx += 1 + v.chunks.len() as u32;
        let q = h(k[0], k[1] ^ 1, k[2], k[3]);
        let _ = q;
    }
    let mut trunc = loaded.read_all_truncated_hashes(&mut cur).unwrap();
    assert!(trunc.windows(2).all(|w| w[0].0 <= w[1].0));
    trunc.sort();
    exp_trunc.sort();
    assert_eq!(trunc, exp_trunc);

    let full_lookup = loaded.read_full_cas_lookup(&mut cur).unwrap();
    assert_eq!(full_lookup.len(), shard.cas_content.len());

    // minimal
    let ms = MDBMinimalShard::from_reader(&mut Cursor::new(&buf), true, true).unwrap();
    let rt = tokio::runtime::Builder::new_current_thread().build().unwrap();
    let msa = rt.block_on(MDBMinimalShard::from_reader_async(&mut &buf[..], true, true)).unwrap();
    assert!(ms == msa);
    assert_eq!(ms.num_files(), exp.len());
    assert_eq!(ms.num_cas(), exp_cas.len());
    for (i, f) in exp.iter().enumerate() {
        let v = ms.file(i);
        assert_eq!(v.header(), &f.metadata);
        for j in 0..v.num_entries() {
            assert_eq!(v.entry(j), f.segments[j]);
            if v.contains_verification() {
                assert_eq!(v.verification(j), f.verification[j]);
            }
        }
        let mut b = Vec::new();
        v.serialize(&mut b).unwrap();
        let mut b2 = Vec::new();
        f.serialize(&mut b2).unwrap();
        assert_eq!(b, b2);
    }
    for (i, c) in exp_cas.iter().enumerate() {
        let v = ms.cas(i);
        assert_eq!(v.header(), &c.metadata);
        for j in 0..v.num_entries() {
            assert_eq!(v.chunk(j), c.chunks[j]);
        }
    }
    // Reserialize minimal
    let mut b = Vec::new();
    ms.serialize(&mut b).unwrap();
    let l2 = MDBShardInfo::load_from_reader(&mut Cursor::new(&b)).unwrap();
    assert_eq!(l2.read_all_file_info_sections(&mut Cursor::new(&b)).unwrap(), exp);
    assert_eq!(l2.read_all_cas_blocks_full(&mut Cursor::new(&b)).unwrap(), exp_cas);
    assert_eq!(l2.materialized_bytes(), shard.materialized_bytes());
    assert_eq!(l2.stored_bytes(), shard.stored_bytes());
    assert_eq!(l2.stored_bytes_on_disk(), shard.stored_bytes_on_disk());
    let mut tr2 = l2.read_all_truncated_hashes(&mut Cursor::new(&b)).unwrap();
    tr2.sort();
    assert_eq!(tr2, exp_trunc);

    // streaming
    let mut nf = 0;
    let mut nc = 0;
    process_shard_stream(
        &mut Cursor::new(&buf),
        Some(|f: MDBFileInfoView| {
            assert_eq!(f.header(), &exp[nf].metadata);
            nf += 1;
            Ok(())
        }),
        Some(|c: MDBCASInfoView| {
            assert_eq!(c.header(), &exp_cas[nc].metadata);
            nc += 1;
            Ok(())
        }),
    )
    .unwrap();
    assert_eq!(nf, exp.len());
    assert_eq!(nc, exp_cas.len());
}

#[test]
fn fuzz_shards() {
    let sizes = [0usize, 1, 2, 3, 7, 8, 100, 254, 255, 256, 257, 258, 300, 511, 512, 513, 520, 1000, 2500];
    let mut seed = 0;
    for mode in 0..8 {
        for &n in sizes.iter() {
            for dup in [1usize, 7] {
                seed += 1;
                let shard = build(seed, n, n, mode, dup);
                check(&shard, &format!("mode={mode} n={n} dup={dup} seed={seed}"));
            }
        }
    }
}

use std::io::Cursor;

use mdb_shard::interpolation_search::search_on_sorted_u64s;
use rand::prelude::*;
use utils::serialization_utils::*;

fn run(keys: &mut Vec<u64>, queries: &[u64], tag: &str) {
    keys.sort_unstable();
    let mut data = Vec::new();
    for (i, k) in keys.iter().enumerate() {
        write_u64(&mut data, *k).unwrap();
        write_u32(&mut data, i as u32).unwrap();
    }
    let mut dest = vec![0u32; keys.len() + 1];
    for &q in queries {
        let lo = keys.partition_point(|&k| k < q);
        let hi = keys.partition_point(|&k| k <= q);
        let n = search_on_sorted_u64s(
            &mut Cursor::new(&data),
            0,
            keys.len() as u64,
            q,
            read_u32::<Cursor<&Vec<u8>>>,
            &mut dest[..],
        )
        .unwrap();
        let mut got = dest[..n].to_vec();
        got.sort_unstable();
        let exp: Vec<u32> = (lo as u32..hi as u32).collect();
        assert!(got == exp, "{tag} q={q} n={} got {} exp {}", keys.len(), got.len(), exp.len());
    }
}

#[test]
fn fuzz_search() {
    let mut rng = StdRng::seed_from_u64(1);
    for iter in 0..3000 {
        let n = match iter % 6 {
            0 => rng.gen_range(0..10),
            1 => rng.gen_range(250..270),
            2 => rng.gen_range(500..530),
            3 => rng.gen_range(0..3000),
            4 => rng.gen_range(255..260),
            _ => rng.gen_range(0..1500),
        };
        let mode = rng.gen_range(0..7);
        let mut keys = Vec::new();
        while keys.len() < n {
            let k: u64 = match mode {
                0 => rng.gen(),
                1 => rng.gen_range(0..(n as u64 + 2)),
                2 => u64::MAX - rng.gen_range(0..(n as u64 + 2)),
                3 => {
                    if rng.gen_bool(0.02) {
                        rng.gen()
                    } else {
                        777777777777 + rng.gen_range(0..(n as u64 + 2))
                    }
                },
                4 => rng.gen::<u64>() >> rng.gen_range(0..64),
                5 => !(rng.gen::<u64>() >> rng.gen_range(0..64)),
                _ => *[0u64, 1, u64::MAX, u64::MAX - 1, 1 << 63].choose(&mut rng).unwrap(),
            };
            let rep = if rng.gen_bool(0.1) { rng.gen_range(1..600) } else { rng.gen_range(1..3) };
            for _ in 0..rep {
                if keys.len() < n {
                    keys.push(k);
                }
            }
        }
        let mut queries: Vec<u64> = keys.clone();
        queries.dedup();
        let mut extra = vec![0, 1, u64::MAX, u64::MAX - 1];
        for k in queries.iter().take(200) {
            extra.push(k.wrapping_add(1));
            extra.push(k.wrapping_sub(1));
        }
        for _ in 0..20 {
            extra.push(rng.gen());
        }
        queries.extend(extra);
        run(&mut keys, &queries, &format!("iter={iter} mode={mode}"));
    }
}

//! C09 demo: the in-memory size accounting (MDBInMemoryShard::shard_file_size) does not equal the
//! size of the serialized shard.
//!
//! Copy to mdb_shard/tests/hunt_demo_accounting.rs and run
//!   cargo test --offline -p mdb_shard --test hunt_demo_accounting
//!
//! Every test below FAILS on the unmodified source.

use std::io::Cursor;

use mdb_shard::cas_structs::*;
use mdb_shard::file_structs::*;
use mdb_shard::shard_in_memory::MDBInMemoryShard;
use mdb_shard::MDBShardInfo;
use merklehash::MerkleHash;

fn h(a: u64) -> MerkleHash {
    MerkleHash::from([a, a.wrapping_mul(31) + 1, 7, 9])
}

fn file(hash: MerkleHash, nseg: usize) -> MDBFileInfo {
    MDBFileInfo {
        metadata: FileDataSequenceHeader::new(hash, nseg, true, true),
        segments: (0..nseg)
            .map(|i| FileDataSequenceEntry::new(h(1000 + i as u64), 100u32, 0u32, 1u32))
            .collect(),
        verification: (0..nseg).map(|i| FileVerificationEntry::new(h(2000 + i as u64))).collect(),
        metadata_ext: Some(FileMetadataExt::new(h(3000))),
    }
}

fn xorb(hash: MerkleHash, chunk_hashes: &[u64]) -> MDBCASInfo {
    let mut pos = 0u32;
    let chunks: Vec<_> = chunk_hashes
        .iter()
        .map(|c| {
            let e = CASChunkSequenceEntry::new(h(*c), 10u32, pos);
            pos += 10;
            e
        })
        .collect();
    MDBCASInfo {
        metadata: CASChunkSequenceHeader::new(hash, chunks.len(), pos),
        chunks,
    }
}

fn serialized_len(shard: &MDBInMemoryShard) -> u64 {
    let mut buf = Vec::new();
    let info = MDBShardInfo::serialize_from(&mut buf, shard).unwrap();
    let loaded = MDBShardInfo::load_from_reader(&mut Cursor::new(&buf)).unwrap();
    assert_eq!(info.num_bytes(), buf.len() as u64);
    assert_eq!(loaded.num_bytes(), buf.len() as u64);
    buf.len() as u64
}

/// The same file registered twice in one session shard (two identical files cleaned in one upload
/// session both reach ShardFileManager::add_file_reconstruction_info with the same file hash).
/// The BTreeMap keeps one record; the running size counts two.
#[test]
fn same_file_added_twice_is_counted_twice() {
    let mut shard = MDBInMemoryShard::default();
    shard.add_file_reconstruction_info(file(h(1), 3)).unwrap();
    shard.add_file_reconstruction_info(file(h(1), 3)).unwrap();

    assert_eq!(shard.num_file_entries(), 1);
    let on_disk = serialized_len(&shard);
    assert_eq!(
        shard.shard_file_size(),
        on_disk,
        "in-memory accounting says {} bytes, the serialized shard has {} bytes",
        shard.shard_file_size(),
        on_disk
    );
}

/// The same xorb registered twice (e.g. two identical files cleaned concurrently produce the same xorb).
#[test]
fn same_xorb_added_twice_is_counted_twice() {
    let mut shard = MDBInMemoryShard::default();
    shard.add_cas_block(xorb(h(50), &[1, 2, 3])).unwrap();
    shard.add_cas_block(xorb(h(50), &[1, 2, 3])).unwrap();

    assert_eq!(shard.num_cas_entries(), 1);
    let on_disk = serialized_len(&shard);
    assert_eq!(
        shard.shard_file_size(),
        on_disk,
        "in-memory accounting says {} bytes, the serialized shard has {} bytes",
        shard.shard_file_size(),
        on_disk
    );
}

/// recalculate_shard_size() (used by union / difference) counts one chunk-lookup row per DISTINCT chunk
/// hash, serialize_from writes one row per chunk.  A chunk that occurs twice (in one xorb, or in two
/// xorbs) makes the accounting too small.  The add_* path itself is exact for this content, so the
/// accounted size of `a` changes by merely taking the union with an empty shard.
#[test]
fn union_undercounts_repeated_chunks() {
    let mut a = MDBInMemoryShard::default();
    a.add_cas_block(xorb(h(60), &[1, 2, 1])).unwrap(); // chunk 1 twice in one xorb
    a.add_cas_block(xorb(h(61), &[2, 5])).unwrap(); // chunk 2 also in a second xorb

    let on_disk = serialized_len(&a);
    assert_eq!(a.shard_file_size(), on_disk, "add path is exact");

    let u = a.union(&MDBInMemoryShard::default()).unwrap();
    let on_disk_u = serialized_len(&u);
    assert_eq!(on_disk_u, on_disk, "same content, same serialization");
    assert_eq!(
        u.shard_file_size(),
        on_disk_u,
        "after union: in-memory accounting says {} bytes, the serialized shard has {} bytes",
        u.shard_file_size(),
        on_disk_u
    );
}

/// difference() filters xorbs by xorb hash but chunk rows by chunk hash, so a new xorb that repeats a
/// chunk of the subtracted shard is serialized with a chunk row that the accounting does not count.
#[test]
fn difference_undercounts_shared_chunks() {
    let mut a = MDBInMemoryShard::default();
    a.add_cas_block(xorb(h(70), &[1, 2])).unwrap();
    let mut b = MDBInMemoryShard::default();
    b.add_cas_block(xorb(h(71), &[2, 3])).unwrap(); // different xorb, shares chunk 2

    let d = a.difference(&b).unwrap(); // = the content of b not in a = xorb 71
    assert_eq!(d.num_cas_entries(), 1);
    let on_disk = serialized_len(&d);
    assert_eq!(
        d.shard_file_size(),
        on_disk,
        "after difference: in-memory accounting says {} bytes, the serialized shard has {} bytes",
        d.shard_file_size(),
        on_disk
    );
}

// C09 demo (borderline, see findings.json): the reserved words of the verification and
// metadata-ext entries of a file record are written to the shard but not read back by the
// seekable reader, while the streaming / minimal readers hand them on byte for byte.
//
// Run:  cp OUT/demo/hunt_demo_reserved.rs mdb_shard/tests/ &&
//       cargo test --offline -p mdb_shard --test hunt_demo_reserved
use std::io::Cursor;

use mdb_shard::file_structs::*;
use mdb_shard::shard_in_memory::MDBInMemoryShard;
use mdb_shard::streaming_shard::MDBMinimalShard;
use mdb_shard::MDBShardInfo;
use merklehash::MerkleHash;

fn record() -> MDBFileInfo {
    let h = MerkleHash::from([10, 11, 12, 13]);
    MDBFileInfo {
        metadata: FileDataSequenceHeader::new(h, 1, true, true),
        segments: vec![FileDataSequenceEntry::new(MerkleHash::from([1, 2, 3, 4]), 100, 0, 1)],
        verification: vec![FileVerificationEntry {
            range_hash: MerkleHash::from([5, 6, 7, 8]),
            _unused: [0x1111, 0x2222],
        }],
        metadata_ext: Some(FileMetadataExt {
            sha256: MerkleHash::from([9, 9, 9, 9]),
            _unused: [0x3333, 0x4444],
        }),
    }
}

#[test]
fn seekable_reader_returns_the_stored_record() {
    let rec = record();
    let mut mem = MDBInMemoryShard::default();
    mem.add_file_reconstruction_info(rec.clone()).unwrap();

    let mut buf = Vec::new();
    let info = MDBShardInfo::serialize_from(&mut buf, &mem).unwrap();

    // The in-memory shard answers with the record as given.
    assert_eq!(mem.get_file_reconstruction_info(&rec.metadata.file_hash), Some(rec.clone()));

    // The serialized shard does not.
    let got = info
        .get_file_reconstruction_info(&mut Cursor::new(&buf), &rec.metadata.file_hash)
        .unwrap()
        .unwrap();
    assert_eq!(got, rec, "lookup through the seekable reader differs from the stored record");
}

#[test]
fn seekable_and_minimal_reader_agree() {
    let rec = record();
    let mut mem = MDBInMemoryShard::default();
    mem.add_file_reconstruction_info(rec.clone()).unwrap();
    let mut buf = Vec::new();
    let info = MDBShardInfo::serialize_from(&mut buf, &mem).unwrap();

    // Bytes of the record as seen by the minimal (streaming) reader.
    let m = MDBMinimalShard::from_reader(&mut &buf[..], true, true).unwrap();
    let mut via_minimal = Vec::new();
    m.file(0).serialize(&mut via_minimal).unwrap();

    // Bytes of the record as seen by the scan of the seekable reader.
    let scanned = info.read_all_file_info_sections(&mut Cursor::new(&buf)).unwrap();
    let mut via_seekable = Vec::new();
    scanned[0].serialize(&mut via_seekable).unwrap();

    assert_eq!(via_seekable, via_minimal, "the two readers return different records for the same shard");
}
